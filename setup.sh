#!/bin/sh
# Offline setup: parse every (tracked) specification module and byte-compile the python layer.
set -e
cd "$(dirname "$0")"
fail=0
mods=$(git ls-files 'spec/*.tla' 2>/dev/null || true)
[ -n "$mods" ] || mods=$(ls spec/*.tla)
for f in $mods; do
  out=$(cd spec && java -cp /opt/veriftools/tla/tla2tools.jar:/opt/veriftools/tla/CommunityModules-deps.jar tla2sany.SANY "$(basename "$f")" 2>&1) || true
  if echo "$out" | grep -q -e '\*\*\* Errors' -e 'Fatal' -e 'Could not'; then echo "SANY FAILED: $f"; echo "$out" | tail -20; fail=1; fi
done
/venv/bin/python -m compileall -q vf >/dev/null
/venv/bin/python -c "import sys; sys.path.insert(0,'/repo'); import urwid; print('urwid from', urwid.__file__)"
mkdir -p evidence replays
[ $fail -eq 0 ] && echo "setup ok"
exit $fail
