"""Virtual-time environment doubles for urwid's six event loops (C13, C12).

The real loop classes run unmodified; what is replaced is *their environment*: the clock they read
and the selector/poller they block in.  The blocking call is the observation point for 'the loop
goes quiescent': it logs a `wait` event and then plays the environment forward (time passes,
descriptors become readable).  All times in traces are integer microseconds.
"""
from __future__ import annotations

import math
import os
import selectors

US = 1_000_000


class VfError(Exception):
    """The 'arbitrary exception' raised by scripted callbacks."""


class VfBase(BaseException):
    """An 'arbitrary exception' that is not an Exception subclass (like KeyboardInterrupt / SystemExit / CancelledError)."""


class Stuck(BaseException):
    """The loop blocks forever / spins without progress: the watchdog aborts run()."""


class Env:
    def __init__(self, readable_at=None, max_waits=400):
        self.grace = 0  # microseconds: waits no longer than this are the loop's own idle tick (twisted)
        self.now = 0.0
        self.readable = set()
        self.sched = sorted((at / 1000.0, fd) for fd, at in (readable_at or {}).items())  # at in ms
        self.actions = []     # [(time_s, callable)]: environment actions on real descriptors (C12)
        self.realfds = {}     # real OS descriptor -> abstract id; readiness is asked from the OS
        self.on_wait = None   # called at every blocking call (C12: drain the pty master)
        self.ev = []
        self.nwaits = 0
        self.max_waits = max_waits

    def us(self, t=None):
        return int(round((self.now if t is None else t) * US))

    def log(self, **e):
        self.ev.append(e)

    def apply_due(self):
        while self.sched and self.sched[0][0] <= self.now + 1e-12:
            _, fd = self.sched.pop(0)
            if fd not in self.readable:
                self.readable.add(fd)
                self.log(t="env_readable", fd=fd)
        while self.actions and self.actions[0][0] <= self.now + 1e-12:
            _, act = self.actions.pop(0)
            act()

    def next_time(self):
        c = [x[0] for x in (self.sched[:1] + self.actions[:1])]
        return min(c) if c else None

    def real_ready(self, watched_real):
        if not watched_real:
            return set()
        import select

        r, _, _ = select.select(list(watched_real), [], [], 0)
        return {self.realfds[fd] for fd in r}

    def slow(self, ms):
        self.now += ms / 1000.0
        self.log(t="slow", d=ms * 1000)

    def wait(self, timeout, watched, watched_real=()):
        """The loop's blocking call.  timeout in seconds or None; watched = abstract descriptor ids."""
        self.nwaits += 1
        if self.nwaits > self.max_waits:
            raise Stuck("too many waits")
        if self.on_wait:
            self.on_wait()
        self.apply_due()
        watched = set(watched)

        def current():
            return sorted((self.readable & watched) | self.real_ready(watched_real))

        ready = current()
        tmo = -1 if timeout is None else max(0, int(round(timeout * US)))
        self.log(t="wait", timeout=tmo, ready=ready, grace=self.grace)
        if ready or tmo == 0:
            if not ready and timeout and timeout > 0:
                # a sleep below the trace's resolution (a last-bit difference between `due - now` and `now + timeout` in the loop's own
                # float arithmetic): no observable wait, but the clock moves on as a real one would; otherwise the loop spins for ever
                self.now += max(timeout, 1e-9)
            return ready
        target = None if timeout is None else self.now + timeout
        while True:
            nxt = self.next_time()
            if nxt is not None and (target is None or nxt <= target):
                to = nxt
            elif target is not None:
                to = target
            else:
                raise Stuck("blocks forever")
            self.now = max(self.now, to)
            self.log(t="advance", to=self.us())
            self.apply_due()
            ready = current()
            # a descriptor nobody watches does not wake the loop: keep sleeping until the timeout
            if ready or (target is not None and self.now >= target - 1e-12):
                break
        self.log(t="woke", ready=ready)
        return ready


# ---------------------------------------------------------------------------------------------------
# selector double used by select / asyncio / tornado / twisted
# ---------------------------------------------------------------------------------------------------
FD_BASE = 5000  # abstract descriptor f is presented to the loops as the integer FD_BASE + f


class FakeSelector(selectors._BaseSelectorImpl):
    """selectors API over Env.  Descriptors outside FD_BASE.. (asyncio's self-pipe, twisted's waker)
    are accepted and never reported ready."""

    def __init__(self, env):
        super().__init__()
        self.env = env

    def select(self, timeout=None):
        watched = {}
        real = []
        for key in self.get_map().values():
            if not key.events & selectors.EVENT_READ:
                continue
            if key.fd >= FD_BASE:
                watched[key.fd - FD_BASE] = key
            elif key.fd == 0 and getattr(self.env, "fd0", False):
                watched[1] = key        # abstract descriptor 1 is presented as descriptor 0 (stdin, the descriptor urwid usually watches)
            elif key.fd in self.env.realfds:
                watched[self.env.realfds[key.fd]] = key
                real.append(key.fd)
        if timeout is not None and timeout < 0:
            timeout = 0
        ready = self.env.wait(timeout, [k for k, v in watched.items() if v.fd >= FD_BASE or (v.fd == 0 and getattr(self.env, "fd0", False))], real)
        return [(watched[f], selectors.EVENT_READ) for f in ready if f in watched]


class _FakeSelectorsModule:
    """Stands in for the `selectors` module inside urwid.event_loop.select_loop."""

    EVENT_READ = selectors.EVENT_READ
    EVENT_WRITE = selectors.EVENT_WRITE

    def __init__(self, env):
        self._env = env

    def DefaultSelector(self):  # noqa: N802
        return FakeSelector(self._env)


class _FakeTime:
    def __init__(self, env):
        self._env = env

    def time(self):
        return self._env.now

    def monotonic(self):
        return self._env.now

    def sleep(self, seconds):
        # a plain sleep is a blocking wait on nothing
        self._env.wait(max(0.0, seconds), [], [])


class Adapter:
    name = "?"

    def __init__(self, env):
        self.env = env
        self.cleanup = []

    zero_ok = True      # this loop's double takes any integer as a descriptor

    def fd(self, f):
        if f == 1 and self.zero_ok and getattr(self.env, "fd0", False):
            return 0
        return FD_BASE + f

    def slow(self, ms):
        """A callback takes `ms` of clock time."""
        self.env.slow(ms)

    def close(self):
        for c in reversed(self.cleanup):
            try:
                c()
            except Exception:  # noqa: BLE001
                pass


class SelectAdapter(Adapter):
    name = "select"

    def make(self):
        from urwid.event_loop import select_loop as m

        old = (m.time, m.selectors)
        m.time = _FakeTime(self.env)
        m.selectors = _FakeSelectorsModule(self.env)
        self.cleanup.append(lambda: (setattr(m, "time", old[0]), setattr(m, "selectors", old[1])))
        self.loop = m.SelectEventLoop()
        return self.loop


def _virtual_asyncio_loop(env):
    import asyncio

    loop = asyncio.SelectorEventLoop(FakeSelector(env))
    loop.time = lambda: env.now
    return loop


class AsyncioAdapter(Adapter):
    name = "asyncio"

    def make(self):
        from urwid.event_loop.asyncio_loop import AsyncioEventLoop

        self.aloop = _virtual_asyncio_loop(self.env)
        self.cleanup.append(self.aloop.close)
        self.loop = AsyncioEventLoop(loop=self.aloop)
        return self.loop


class TornadoAdapter(Adapter):
    name = "tornado"

    def make(self):
        from tornado.platform.asyncio import AsyncIOLoop

        from urwid.event_loop.tornado_loop import TornadoEventLoop

        self.aloop = _virtual_asyncio_loop(self.env)
        self.ioloop = AsyncIOLoop(asyncio_loop=self.aloop, make_current=False)
        self.ioloop.time = lambda: self.env.now
        self.cleanup.append(lambda: self.ioloop.close(all_fds=False))
        self.loop = TornadoEventLoop(self.ioloop)
        return self.loop


class TwistedAdapter(Adapter):
    name = "twisted"

    def make(self):
        from twisted.internet.asyncioreactor import AsyncioSelectorReactor

        from urwid.event_loop.twisted_loop import TwistedEventLoop

        self.env.grace = 3907  # TwistedEventLoop._idle_emulation_delay = 1/256 s, documented idle emulation
        # a reactor owns wake-up pipes (its waker, the signal waker installed by run()) that nothing closes when the reactor object
        # is dropped: thousands of scenarios in one process ran into the descriptor limit.  Close exactly those.
        def close_reactor_pipes():
            r = self.reactor
            wakers = [getattr(r, "waker", None), getattr(r, "_childWaker", None)]
            try:
                r._signals.uninstall()      # gives the signal handlers back and closes the SIGCHLD waker
            except Exception:  # noqa: BLE001
                pass
            for w in wakers:
                for fd in (getattr(w, "i", None), getattr(w, "o", None)):
                    if isinstance(fd, int) and fd > 2:
                        try:
                            os.close(fd)
                        except OSError:
                            pass

        self.cleanup.append(close_reactor_pipes)
        self.aloop = _virtual_asyncio_loop(self.env)
        self.reactor = AsyncioSelectorReactor(self.aloop)
        self.reactor.seconds = lambda: self.env.now
        self.cleanup.append(self.aloop.close)
        self.loop = TwistedEventLoop(reactor=self.reactor)
        return self.loop


class _FakePoller:
    """zmq.Poller double: register/unregister/poll over Env (timeouts in milliseconds)."""

    def __init__(self, env, fdmap):
        self.env = env
        self.fdmap = fdmap  # real fileno -> abstract id
        self.reg = {}

    def _key(self, obj):
        return obj.fileno() if hasattr(obj, "fileno") else obj

    def register(self, obj, flags=1):
        self.reg[self._key(obj)] = flags

    def unregister(self, obj):
        del self.reg[self._key(obj)]  # KeyError like the real poller

    @property
    def sockets(self):
        return [(k, f) for k, f in self.reg.items()]

    def poll(self, timeout=None):
        if not self.reg:
            # like pyzmq's Poller: with nothing registered poll() returns at once, whatever the timeout (no time passes)
            self.env.nwaits += 1
            if self.env.nwaits > self.env.max_waits:
                raise Stuck("too many waits")
            return []
        watched = {self.fdmap[k]: k for k in self.reg if k in self.fdmap}
        real = [k for k in self.reg if k in self.env.realfds]
        for k in real:
            watched[self.env.realfds[k]] = k
        ready = self.env.wait(None if timeout is None else max(0.0, timeout / 1000.0),
                              [a for a, k in watched.items() if k in self.fdmap], real)
        return [(watched[f], 1) for f in ready if f in watched]


class ZmqAdapter(Adapter):
    name = "zmq"
    zero_ok = False

    def make(self):
        import os

        from urwid.event_loop import zmq_loop as m

        old = m.time
        m.time = _FakeTime(self.env)
        self.cleanup.append(lambda: setattr(m, "time", old))
        self.loop = m.ZMQEventLoop()
        self.fdmap = {}
        self.loop._poller = _FakePoller(self.env, self.fdmap)
        self._pipes = {}
        self._os = os
        return self.loop

    def fd(self, f):
        # the zmq loop wraps integer descriptors with os.fdopen: give it real pipe read ends
        if f not in self._pipes:
            r, w = self._os.pipe()
            self._pipes[f] = (r, w)
            self.fdmap[r] = f
            self.cleanup.append(lambda w=w: self._os.close(w))
            self.cleanup.append(lambda r=r: self._os.close(r))     # the loop no longer takes the descriptor over (repo fix 9e88ac0)
        return self._pipes[f][0]


class TrioAdapter(Adapter):
    zero_ok = False

    name = "trio"

    def make(self):
        import trio
        import trio.testing

        from urwid.event_loop import trio_loop as m

        env = self.env
        adapter = self

        self.clock = trio.testing.MockClock(rate=0, autojump_threshold=0.0005)

        class WaitInstrument(trio.abc.Instrument):
            """Observes 'the scheduler is about to block'.  The virtual timeout is the distance to
            the next deadline on the mock clock."""

            def before_io_wait(self, timeout):
                if timeout <= 0 or adapter.loop._nursery is None:
                    return  # polling, or trio's own start-up / shutdown after urwid's main task has finished
                st = trio.lowlevel.current_statistics()
                nd = st.seconds_to_next_deadline
                adapter.sync()
                env.nwaits += 1
                if env.nwaits > env.max_waits:
                    adapter.stuck = True
                    adapter.cancel_all()
                    return
                if env.on_wait:
                    env.on_wait()
                env.apply_due()
                watched = set(adapter.waiting)
                ready = sorted(env.readable & watched)
                # deadlines beyond any scripted event (sleep_forever) count as infinite
                tmo = -1 if (nd == math.inf or nd > 3600) else max(0, int(round(nd * US)))
                env.log(t="wait", timeout=tmo, ready=ready, grace=0)

            def after_io_wait(self, timeout):
                pass

        class TrioProxy:
            """`trio` as seen by urwid.event_loop.trio_loop: run() gets the mock clock and the observer."""

            def __getattr__(self, k):
                return getattr(trio, k)

            def run(self, fn, *a, instruments=(), **kw):
                adapter.t0 = adapter.clock.current_time() - env.now      # env.now > 0: the program was busy before run()
                return trio.run(fn, *a, clock=adapter.clock, instruments=[*instruments, WaitInstrument()], **kw)

        old = m.trio
        m.trio = TrioProxy()
        self.cleanup.append(lambda: setattr(m, "trio", old))
        self.loop = m.TrioEventLoop()
        self.waiting = {}
        self.stuck = False
        self.t0 = 0.0

        def sync():
            t = self.clock.current_time() - self.t0
            if t > env.now + 1e-9:
                env.now = t
                env.log(t="advance", to=env.us())

        async def vsleep(seconds):
            await trio.sleep(seconds)
            sync()

        async def wait_readable(fd):
            if hasattr(fd, "fileno"):
                fd = fd.fileno()
            isreal = fd in env.realfds
            f = env.realfds[fd] if isreal else fd - FD_BASE
            self.waiting[f] = self.waiting.get(f, 0) + 1
            try:
                while True:
                    sync()
                    env.apply_due()
                    if isreal:
                        if env.real_ready([fd]):
                            return
                        nxt = [t for t, _ in env.actions]
                    else:
                        if f in env.readable:
                            return
                        nxt = [t for t, g in env.sched if g == f]
                    if not nxt:
                        await trio.sleep_forever()
                    else:
                        await trio.sleep_until(self.t0 + nxt[0])
            finally:
                self.waiting[f] -= 1
                if not self.waiting[f]:
                    del self.waiting[f]

        self.loop._sleep = vsleep
        self.loop._wait_readable = wait_readable
        self.sync = sync
        return self.loop

    def slow(self, ms):
        self.sync()
        self.env.slow(ms)
        self.clock.jump(ms / 1000.0)

    def cancel_all(self):
        n = self.loop._nursery
        if n is not None:
            n.cancel_scope.cancel()


ADAPTERS = {a.name: a for a in (SelectAdapter, AsyncioAdapter, TornadoAdapter, TwistedAdapter, ZmqAdapter, TrioAdapter)}
