"""urwid model-based verification: python conformance layer (see /verif/DESIGN.md)."""
