"""The small real application of the end-to-end check (spec/Session*.tla, vf/props/e2e.py).

    Frame(header = Text(title),
          body   = ListBox(SimpleFocusListWalker([Edit(caption_i, text_i) ...] + [CheckBox(label)] + [Text(static)])),
          footer = Text(status))
    unhandled_input: 'esc' raises ExitMainLoop, any other key's name is written into the footer.

Nothing here knows about the specification: the module only builds widgets from a plain description
(`APP`) that is also handed to TLC as the constant part of every trace.
"""
from __future__ import annotations

# the description shared with the model (texts are given to TLC as sequences of code points)
APP = {
    "title": "e2e demo",
    "status": "ready",
    "items": [
        {"kind": "edit", "caption": "A: ", "text": ""},
        {"kind": "edit", "caption": "Bb:", "text": "xy"},
        {"kind": "check", "label": "opt", "state": False},
        {"kind": "text", "text": "static line"},
    ],
}


def cps(s):
    return [ord(c) for c in s]


def app_for_tlc(app=APP):
    """The same description with every text as code points (TLC cannot index strings)."""
    items = []
    for it in app["items"]:
        if it["kind"] == "edit":
            items.append({"kind": "edit", "caption": cps(it["caption"]), "text": cps(it["text"]), "state": False})
        elif it["kind"] == "check":
            items.append({"kind": "check", "caption": cps(it["label"]), "text": [], "state": bool(it["state"])})
        else:
            items.append({"kind": "text", "caption": cps(it["text"]), "text": [], "state": False})
    return {"title": cps(app["title"]), "status": cps(app["status"]), "items": items}


def keyname(k):
    return k if isinstance(k, str) else " ".join(str(x) for x in k)


def build(urwid, app=APP):
    """Returns (frame, unhandled_input, widgets) for the real application."""
    ws = []
    for it in app["items"]:
        if it["kind"] == "edit":
            ws.append(urwid.Edit(it["caption"], it["text"]))
        elif it["kind"] == "check":
            ws.append(urwid.CheckBox(it["label"], state=it["state"]))
        else:
            ws.append(urwid.Text(it["text"]))
    footer = urwid.Text(app["status"], wrap="clip")
    header = urwid.Text(app["title"], wrap="clip")
    frame = urwid.Frame(urwid.ListBox(urwid.SimpleFocusListWalker(ws)), header=header, footer=footer)

    def unhandled(key):
        if key == "esc":
            raise urwid.ExitMainLoop()
        footer.set_text(keyname(key))
        return True

    return frame, unhandled, ws
