"""TLC runner: exhaustive model checking (MC), behaviour export (GEN) and trace validation (TV).

All runs are wrapped in a timeout, use a private -metadir under a temp dir that is removed
afterwards, and never leave files in /verif/spec.
"""
from __future__ import annotations

import concurrent.futures as cf
import json
import os
import re
import shutil
import subprocess
import tempfile
import time
from dataclasses import dataclass, field

from . import tlaparse

SPEC_DIR = os.path.join(os.path.dirname(os.path.dirname(os.path.abspath(__file__))), "spec")
JAR = "/opt/veriftools/tla/tla2tools.jar:/opt/veriftools/tla/CommunityModules-deps.jar"


class MachineryError(RuntimeError):
    """TLC crashed / timed out / printed something we cannot interpret (exit code 2 territory)."""


@dataclass
class MCResult:
    ok: bool
    generated: int = 0
    distinct: int = 0
    depth: int = 0
    violated: str | None = None
    trace: list = field(default_factory=list)
    coverage: dict = field(default_factory=dict)
    wall_s: float = 0.0
    out: str = ""
    cmd: str = ""


def _java(args, env=None, timeout=900, cwd=SPEC_DIR, heap="4g", extra_java=()):
    e = dict(os.environ)
    e.pop("JAVA_TOOL_OPTIONS", None)
    if env:
        e.update(env)
    # TLC leaves an empty tlc-<n> directory in java.io.tmpdir per run: keep it inside the run's own (removed) temp dir
    jtmp = [f"-Djava.io.tmpdir={os.path.dirname(args[args.index('-metadir') + 1])}"] if "-metadir" in args else []
    cmd = ["java", "-XX:+UseParallelGC", "-Xss64m", f"-Xmx{heap}", *jtmp, *extra_java, "-cp", JAR, "tlc2.TLC", *args]
    t0 = time.time()
    try:
        p = subprocess.run(cmd, cwd=cwd, env=e, capture_output=True, text=True, timeout=timeout)
    except subprocess.TimeoutExpired as ex:
        raise MachineryError(f"TLC timed out after {timeout}s: {' '.join(args)}") from ex
    return p.returncode, p.stdout + p.stderr, time.time() - t0, " ".join(cmd[cmd.index("tlc2.TLC"):])


_GEN = re.compile(r"(\d+) states generated, (\d+) distinct states found")
_DEPTH = re.compile(r"The depth of the complete state graph search is (\d+)")
_COV = re.compile(r"^<(\w+) line \d+, col \d+ to line \d+, col \d+ of module (\w+)(?: \([\d ]+\))?>: (\d+):(\d+)", re.M)
_ERR_INV = re.compile(r"Error: Invariant (\w+) is violated")
_ERR_ACT = re.compile(r"Error: Action property (\w+) is violated")
_ERR_STATE = re.compile(r"^State (\d+): <([^>]*)>\s*$", re.M)


def _write_cfg(tmp, cfg_text):
    p = os.path.join(tmp, "model.cfg")
    with open(p, "w") as f:
        f.write(cfg_text)
    return p


def _parse_error_trace(out: str) -> list:
    hdrs = list(_ERR_STATE.finditer(out))
    states = []
    for j, h in enumerate(hdrs):
        end = hdrs[j + 1].start() if j + 1 < len(hdrs) else len(out)
        blk = out[h.end():end]
        # stop at the first blank-line-followed-by-nonconjunct
        lines = []
        for ln in blk.splitlines():
            if ln.startswith("/\\") or ln.startswith(" ") or (lines and ln.strip() and not ln[0].isalpha()):
                lines.append(ln)
            elif ln.strip() == "":
                if lines:
                    break
            else:
                break
        try:
            st = tlaparse.parse_state("\n".join(lines))
        except ValueError:
            st = {"_unparsed": "\n".join(lines)[:2000]}
        st["_action"] = h.group(2).split(" line")[0]
        states.append(st)
    return states


def mc(spec: str, cfg_text: str, *, workers=16, timeout=900, coverage=False, env=None, heap="8g",
       expect_violation=False) -> MCResult:
    """Exhaustive TLC run of spec (module name, file in SPEC_DIR) under cfg_text."""
    tmp = tempfile.mkdtemp(prefix="vf-mc-")
    try:
        cfg = _write_cfg(tmp, cfg_text)
        args = ["-workers", str(workers), "-metadir", os.path.join(tmp, "m"), "-noGenerateSpecTE",
                "-config", cfg]
        if coverage:
            args += ["-coverage", "1"]
        args.append(spec + ".tla")
        rc, out, wall, cmd = _java(args, env=env, timeout=timeout, heap=heap)
        r = MCResult(ok=False, wall_s=wall, out=out[-6000:], cmd="tlc " + cmd)
        m = None
        for m in _GEN.finditer(out):
            pass
        if m:
            r.generated, r.distinct = int(m.group(1)), int(m.group(2))
        d = _DEPTH.search(out)
        if d:
            r.depth = int(d.group(1))
        for cm in _COV.finditer(out):
            name = cm.group(1)
            a, b = int(cm.group(3)), int(cm.group(4))
            pa, pb = r.coverage.get(name, (0, 0))
            r.coverage[name] = (pa + a, pb + b)
        vi = _ERR_INV.search(out) or _ERR_ACT.search(out)
        if vi:
            r.violated = vi.group(1)
            r.trace = _parse_error_trace(out)
            return r
        if "Temporal properties were violated" in out:
            r.violated = "TEMPORAL"
            r.trace = _parse_error_trace(out)
            return r
        if "Model checking completed. No error has been found." in out and m:
            r.ok = True
            return r
        raise MachineryError("TLC did not complete:\n" + out[-3000:])
    finally:
        shutil.rmtree(tmp, ignore_errors=True)


def simulate(spec: str, cfg_text: str, *, num=100, depth=10, seed=1, timeout=600, env=None,
             jobs=1) -> list[list[dict]]:
    """Export `num` random behaviours of the spec (each a list of states with '_action')."""
    def one(j, n):
        tmp = tempfile.mkdtemp(prefix="vf-sim-")
        try:
            cfg = _write_cfg(tmp, cfg_text)
            sim = os.path.join(tmp, "sim")
            os.mkdir(sim)
            args = ["-workers", "1", "-metadir", os.path.join(tmp, "m"), "-noGenerateSpecTE",
                    "-config", cfg, "-simulate", f"file={sim}/tr,num={n}", "-depth", str(depth),
                    "-seed", str(seed * 1000 + j), spec + ".tla"]
            rc, out, wall, cmd = _java(args, env=env, timeout=timeout)
            if "Error:" in out and "violated" in out:
                raise MachineryError("simulation hit a violation:\n" + out[-3000:])
            behs = []
            for fn in sorted(os.listdir(sim), key=lambda s: [int(x) for x in re.findall(r"\d+", s)]):
                with open(os.path.join(sim, fn)) as f:
                    behs.append(tlaparse.parse_sim_file(f.read()))
            if not behs:
                raise MachineryError("simulation produced no behaviours:\n" + out[-3000:])
            return behs
        finally:
            shutil.rmtree(tmp, ignore_errors=True)

    if jobs <= 1:
        return one(0, num)
    per = (num + jobs - 1) // jobs
    with cf.ThreadPoolExecutor(jobs) as ex:
        res = list(ex.map(lambda j: one(j, per), range(jobs)))
    return [b for r in res for b in r]


def dump_states(spec: str, cfg_text: str, *, workers=16, timeout=900, env=None) -> tuple[list[dict], MCResult]:
    """Exhaustive run with -dump: returns every distinct state (use an op/prev history
    component in the model so that each state is one transition)."""
    tmp = tempfile.mkdtemp(prefix="vf-dump-")
    try:
        cfg = _write_cfg(tmp, cfg_text)
        dumpf = os.path.join(tmp, "states")
        args = ["-workers", str(workers), "-metadir", os.path.join(tmp, "m"), "-noGenerateSpecTE",
                "-config", cfg, "-dump", dumpf, spec + ".tla"]
        rc, out, wall, cmd = _java(args, env=env, timeout=timeout, heap="8g")
        m = None
        for m in _GEN.finditer(out):
            pass
        if not m or "No error has been found" not in out:
            raise MachineryError("TLC dump run failed:\n" + out[-3000:])
        with open(dumpf + ".dump") as f:
            states = tlaparse.parse_dump(f.read())
        r = MCResult(ok=True, generated=int(m.group(1)), distinct=int(m.group(2)), wall_s=wall, cmd="tlc " + cmd)
        return states, r
    finally:
        shutil.rmtree(tmp, ignore_errors=True)


_REJ = re.compile(r'<<\s*"REJECT",\s*(\d+),\s*(\d+),\s*"([^"]*)"\s*>>')

TV_CFG = """SPECIFICATION Spec
INVARIANT Report
CHECK_DEADLOCK FALSE
"""


@dataclass
class TVResult:
    traces: int = 0
    events: int = 0
    consumed: int = 0
    states: int = 0
    generated: int = 0
    rejects: list = field(default_factory=list)  # (trace index (0-based, global), event index l (1-based, the rejected event), why)
    wall_s: float = 0.0
    batches: int = 0


def _clean(o):
    """TLC's JSON reader rejects null and mangles floats: None -> "null", float -> int."""
    if o is None:
        return "null"
    if isinstance(o, float):
        return int(o)
    if isinstance(o, dict):
        return {str(k): _clean(v) for k, v in o.items()}
    if isinstance(o, (list, tuple)):
        return [_clean(v) for v in o]
    return o


def _tv_batch(spec, cfg_text, batch, offset, ev_key, timeout, extra_env):
    tmp = tempfile.mkdtemp(prefix="vf-tv-")
    try:
        tf = os.path.join(tmp, "batch.json")
        with open(tf, "w") as f:
            json.dump(_clean(batch), f, separators=(",", ":"))
        cfg = _write_cfg(tmp, cfg_text)
        args = ["-workers", "1", "-metadir", os.path.join(tmp, "m"), "-noGenerateSpecTE", "-config", cfg,
                spec + ".tla"]
        env = {"TRACE_FILE": tf}
        if extra_env:
            env.update(extra_env)
        rc, out, wall, cmd = _java(args, env=env, timeout=timeout, heap="3g")
        m = None
        for m in _GEN.finditer(out):
            pass
        if not m or "No error has been found" not in out:
            raise MachineryError(f"trace validation run of {spec} failed:\n" + out[-4000:])
        rej = {}
        for r in _REJ.finditer(out):
            tid, l, why = int(r.group(1)), int(r.group(2)), r.group(3)
            rej.setdefault(tid, (l, why))
        expected = 0
        for i, tr in enumerate(batch, 1):
            if i in rej:
                expected += rej[i][0] + 1
            else:
                expected += len(tr[ev_key]) + 1
        distinct = int(m.group(2))
        if distinct != expected:
            raise MachineryError(
                f"trace validation of {spec}: {distinct} distinct states but {expected} expected "
                f"(some events were not consumed or traces collide)\n" + out[-2000:])
        rejects = [(offset + tid - 1, l, why) for tid, (l, why) in sorted(rej.items())]
        return int(m.group(1)), distinct, rejects, wall
    finally:
        shutil.rmtree(tmp, ignore_errors=True)


MAX_BATCH_BYTES = 24_000_000     # a 94 MB batch made TLC's JSON reader fail (thorough C15)


def validate(spec: str, traces: list[dict], *, cfg_text=TV_CFG, ev_key="ev", batch_events=20000,
             jobs=14, timeout=900, env=None) -> TVResult:
    """Validate recorded traces against trace specification `spec`.

    Each trace is a JSON object with a list of events under `ev_key`; the trace spec follows the
    skeleton of DESIGN.md Appendix C (variables tid, l, ok, why + model state; invariant Report
    prints <<"REJECT", tid, l, why>>).  The number of distinct states must equal
    sum(len(consumed prefix)+1), which proves that every event of every accepted trace was consumed.
    """
    res = TVResult(traces=len(traces), events=sum(len(t[ev_key]) for t in traces))
    if not traces:
        return res
    batches = []
    cur, n, off, nbytes = [], 0, 0, 0
    for i, t in enumerate(traces):
        cur.append(t)
        n += len(t[ev_key]) + 1
        nbytes += len(json.dumps(t, separators=(",", ":")))      # events that carry whole screens: a batch is also cut by size
        if n >= batch_events or nbytes >= MAX_BATCH_BYTES:
            batches.append((off, cur))
            off, cur, n, nbytes = i + 1, [], 0, 0
    if cur:
        batches.append((off, cur))
    t0 = time.time()
    with cf.ThreadPoolExecutor(max(1, min(jobs, len(batches)))) as ex:
        futs = [ex.submit(_tv_batch, spec, cfg_text, b, off, ev_key, timeout, env) for off, b in batches]
        for f in futs:
            g, d, rej, _ = f.result()
            res.generated += g
            res.states += d
            res.rejects += rej
    res.consumed = res.states - len(traces)
    res.wall_s = time.time() - t0
    res.batches = len(batches)
    return res


def sany(module_path: str) -> tuple[bool, str]:
    p = subprocess.run(["java", "-cp", JAR, "tla2sany.SANY", os.path.basename(module_path)],
                       cwd=os.path.dirname(module_path), capture_output=True, text=True, timeout=120)
    out = p.stdout + p.stderr
    bad = ("*** Errors" in out) or ("Fatal" in out) or ("Could not" in out) or p.returncode != 0
    return (not bad), out


def apalache(spec: str, init: str, inv: str, length: int, timeout=300) -> dict:
    """Bounded / inductive check with Apalache (SMT): returns {"outcome": "NoError" | "Error" | "unavailable", ...}."""
    tmp = tempfile.mkdtemp(prefix="vf-apa-")
    t0 = time.time()
    cmd = ["apalache-mc", "check", f"--init={init}", f"--inv={inv}", f"--length={length}", f"--out-dir={tmp}", spec + ".tla"]
    try:
        p = subprocess.run(cmd, cwd=SPEC_DIR, capture_output=True, text=True, timeout=timeout)
        out = p.stdout + p.stderr
        m = re.search(r"The outcome is: (\w+)", out)
        outcome = m.group(1) if m else "unavailable"
    except (subprocess.TimeoutExpired, FileNotFoundError) as ex:
        outcome, out = "unavailable", str(ex)
    finally:
        shutil.rmtree(tmp, ignore_errors=True)
    return {"cmd": " ".join(cmd[:6] + [cmd[-1]]), "outcome": outcome, "wall_s": round(time.time() - t0, 1), "tail": out[-400:] if outcome == "unavailable" else ""}
