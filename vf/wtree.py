"""Widget terms -> real urwid widgets, and the observation functions shared by C01 and C09.

A *term* is the JSON/TLA+ value produced by spec/WidgetTree.tla (parsed by vf/tlaparse.py):
    {"k": kind, "o": [options...], "c": [child terms...]}
Options are strings and small integers only (see spec/WidgetTreeOps.tla for the alphabets).
Nothing here decides a verdict: build() constructs the widget, observe_*() record what the real code
returned, TLC judges the records with RenderTrace.tla / GeometryTrace.tla.
"""
from __future__ import annotations

import unicodedata
import warnings

ENCODINGS = {"utf8": "utf-8", "wide": "euc-jp", "narrow": "iso8859-1"}

# ---------------------------------------------------------------------------------------------------
# text alphabet: ASCII, double-width CJK, zero-width combining, DEC line drawing
TEXTS = {
    "empty": "",
    "a": "a",
    "ab": "ab",
    "ascii": "hello world",
    "long": "the quick brown fox jumps over",
    "nl": "ab\ncd e\n",
    # multi-line texts whose widest line is NOT the line with most code points / bytes (fixed sizing packs to the widest line)
    "nlw": "abc\n\u5b57\u754c",                 # 3 code points / 3 columns over 2 code points / 4 columns
    "nlwb": "abcde\n\u5b57\u754c",              # as bytes (utf8): 5 bytes / 5 columns over 6 bytes / 4 columns
    "nlz": "e\u0301e\u0301e\u0301\nabcd",      # 6 code points / 3 columns over 4 code points / 4 columns
    "sp": "  a  b  ",
    "cjk": "字界 漢字x",
    "cjk1": "字",
    "acjk": "a字字字b",
    "comb": "éábc ö",
    "comb0": "́",
    "dec": "┌─┐│x",
    "mixed": "a字́ b─c界",
    # text markup (attributes do not matter for sizes, but the markup machinery sits in front of the layout): nested tags,
    # an EMPTY tagged fragment in the middle, an empty list element
    "mk1": [("a1", "ab"), ("a2", ""), "cd ef"],
    "mk2": [("a1", ["x", ("a2", "字")]), [], " y", ("a1", "")],
}
DIV_CHARS = {"sp": " ", "dash": "-", "wide": "字", "line": "─", "comb": "é"}


def uwidth(ch: str, legacy_cjk: bool = False) -> int:
    """Screen width of one character from the Unicode database only (independent of urwid.str_util / wcwidth).
    legacy_cjk: the character came out of a double-byte East Asian encoding, where East Asian Ambiguous
    characters occupy two columns (UAX #11)."""
    if unicodedata.category(ch) in ("Mn", "Me", "Cf") or unicodedata.combining(ch):
        return 0
    eaw = unicodedata.east_asian_width(ch)
    if eaw in ("W", "F") or (legacy_cjk and eaw == "A"):
        return 2
    return 1


def alphabet_selfcheck():
    """The abstraction must not drift: every character used agrees with the wcwidth package."""
    import wcwidth

    bad = []
    def flat(m):
        return m if isinstance(m, str) else (flat(m[1]) if isinstance(m, tuple) else "".join(flat(x) for x in m))

    for s in [flat(v) for v in TEXTS.values()] + list(DIV_CHARS.values()):
        for ch in s:
            if ch != "\n" and wcwidth.wcwidth(ch) != uwidth(ch):
                bad.append(hex(ord(ch)))
    return bad


def set_enc(enc: str):
    import urwid

    urwid.set_encoding(ENCODINGS[enc])


def row_widths(row, enc: str) -> list[int]:
    """Per-character widths of one content row [(attr, cs, bytes)...]; 99 marks bytes that are not a character."""
    out = []
    for _attr, cs, text in row:
        if isinstance(text, str):
            out += [uwidth(ch) for ch in text]
            continue
        if cs == "0" or enc == "narrow":
            out += [1] * len(text)
            continue
        try:
            s = text.decode(ENCODINGS[enc])
        except UnicodeDecodeError:
            s = None
        if s is None:
            # decode what can be decoded, mark the rest
            dec = text.decode(ENCODINGS[enc], "replace")
            out += [99 if ch == "\ufffd" else uwidth(ch, enc == "wide") for ch in dec]
        else:
            out += [uwidth(ch, enc == "wide") for ch in s]
    return out


def row_ids(row, enc: str = "utf8") -> list[int]:
    """Leaf id per screen column of one content row (attribute 'pN' -> N, anything else 0)."""
    out = []
    for attr, cs, text in row:
        n = sum(w for w in row_widths([(attr, cs, text)], enc) if w != 99)
        pid = 0
        if isinstance(attr, str) and attr[:1] == "p" and attr[1:].isdigit():
            pid = int(attr[1:])
        out += [pid] * n
    return out


# ---------------------------------------------------------------------------------------------------
class World:
    """Holds the probe classes bound to one recording log."""

    def __init__(self):
        import urwid

        self.u = urwid
        self.log = []          # tuples recorded by probes
        self.probes = {}       # pid -> widget
        world = self
        warnings.simplefilter("ignore")

        class Probe(urwid.Widget):
            """Paints its own id (attribute 'p<id>', letter) in every cell it owns; records geometry calls."""

            def __init__(self, pid, mode, w, h, sel, policy):
                super().__init__()
                self.pid, self.mode, self.w, self.h, self._sel, self.policy = pid, mode, w, h, bool(sel), policy
                self._sizing = frozenset([urwid.Sizing(mode)])
                self.cur = (0, 0)
                self.last = None
                world.probes[pid] = self

            def selectable(self):
                return self._sel

            def sizing(self):
                return self._sizing

            def _dims(self, size):
                if len(size) == 2:
                    return size
                if len(size) == 1:
                    return size[0], self.h
                return self.w, self.h

            def rows(self, size, focus=False):
                return self.h

            def pack(self, size=(), focus=False):
                return self._dims(size)

            def render(self, size, focus=False):
                cols, rows = self._dims(size)
                self.last = (cols, rows)
                self.last_size = tuple(size)
                self.last_focus = bool(focus)
                world.log.append(("render", self.pid, cols, rows, 1 if focus else 0))
                ch = chr(64 + self.pid).encode()
                cursor = None
                if focus and self._sel and self.policy != "nocursor" and self.cur[0] < cols and self.cur[1] < rows:
                    cursor = self.cur
                return urwid.TextCanvas([ch * cols] * rows, [[(f"p{self.pid}", cols)]] * rows, cursor=cursor, maxcol=cols,
                                        check_width=False)

            def keypress(self, size, key):
                """'left' / 'right' move the probe's own cursor by one cell inside the size it is given (handled);
                every other key is not handled."""
                world.log.append(("key", self.pid, key))
                cols, _rows = self._dims(size)
                if self._sel and self.policy != "nocursor" and key in ("left", "right"):
                    x = self.cur[0] + (1 if key == "right" else -1)
                    if 0 <= x < cols:
                        self.cur = (x, self.cur[1])
                        self._invalidate()
                        return None
                return key

            def mouse_event(self, size, event, button, col, row, focus):
                cols, rows = self._dims(size)
                world.log.append(("mouse", self.pid, col, row, cols, rows))
                return True

            def get_cursor_coords(self, size):
                cols, rows = self._dims(size)
                if not self._sel or self.policy == "nocursor":
                    return None
                if self.cur[0] < cols and self.cur[1] < rows:
                    return self.cur
                return None

            def get_pref_col(self, size):
                return self.cur[0]

            def accepts(self, col, row):
                if self.policy == "all":
                    return True
                if self.policy == "even":
                    return (col + row) % 2 == 0
                if self.policy == "norow0":
                    return row != 0
                return False

            def move_cursor_to_coords(self, size, col, row):
                cols, rows = self._dims(size)
                if not isinstance(col, int):
                    col = 0 if col == "left" else cols - 1
                ok = self._sel and self.accepts(col, row) and 0 <= col < cols and 0 <= row < rows
                world.log.append(("move", self.pid, col, row, 1 if ok else 0, cols, rows))
                if ok:
                    self.cur = (col, row)
                    self._invalidate()
                return ok

        self.Probe = Probe

        def tagged(base):
            """Real widget whose rendering is tagged with 'p<id>' and whose geometry calls are recorded."""

            class Tagged(base):
                def _vf_init(self, pid):
                    self.pid = pid
                    self.last = None
                    world.probes[pid] = self

                def render(self, size, focus=False):
                    canv = base.render(self, size, focus)
                    self.last = (canv.cols(), canv.rows())
                    self.last_size = tuple(size)
                    self.last_focus = bool(focus)
                    world.log.append(("render", self.pid, canv.cols(), canv.rows(), 1 if focus else 0))
                    c = urwid.CompositeCanvas(canv)
                    c.fill_attr(f"p{self.pid}")
                    return c

                def mouse_event(self, size, event, button, col, row, focus):
                    r = (size[0] if size else -1)
                    world.log.append(("mouse", self.pid, col, row, r, -1))
                    base.mouse_event(self, size, event, button, col, row, focus)
                    return True

            if hasattr(base, "move_cursor_to_coords"):
                def move_cursor_to_coords(self, size, col, row):
                    ok = base.move_cursor_to_coords(self, size, col, row)
                    world.log.append(("move", self.pid, col if isinstance(col, int) else -1, row, 1 if ok else 0, size[0] if size else -1, -1))
                    return ok

                Tagged.move_cursor_to_coords = move_cursor_to_coords
            Tagged.__name__ = "Tagged" + base.__name__
            return Tagged

        self.TEdit = tagged(urwid.Edit)
        self.TIcon = tagged(urwid.SelectableIcon)

    # -----------------------------------------------------------------------------------------------
    def text(self, tid, enc, as_bytes=0):
        s = TEXTS[tid]

        def conv(m):
            if isinstance(m, str):
                return m.encode(ENCODINGS[enc], "replace") if as_bytes else m
            if isinstance(m, tuple):
                return (m[0], conv(m[1]))
            return [conv(x) for x in m]
        return conv(s)

    def build(self, t, enc="utf8"):
        """Term -> widget.  Raises whatever urwid raises for an ill-formed composition."""
        u = self.u
        k, o, c = t["k"], t["o"], t["c"]
        kids = [self.build(x, enc) for x in c]
        if k == "Text":
            return u.Text(self.text(o[0], enc, o[3]), align=o[2], wrap=o[1])
        if k == "Edit":
            w = u.Edit(self.text(o[0], enc), self.text(o[1], enc), multiline=bool(o[2]), align=o[4], wrap=o[5])
            _set_edit_pos(w, o[3])
            return w
        if k == "TEdit":
            w = self.TEdit(self.text(o[1], enc), self.text(o[2], enc), multiline=bool(o[3]), wrap=(o[5] if len(o) > 5 else "space"))
            w._vf_init(o[0])
            _set_edit_pos(w, o[4])
            return w
        if k == "TIcon":
            w = self.TIcon(self.text(o[1], enc), o[2])
            w._vf_init(o[0])
            return w
        if k == "Button":
            return u.Button(self.text(o[0], enc))
        if k == "CheckBox":
            return u.CheckBox(self.text(o[0], enc), state=bool(o[1]))
        if k == "RadioButton":
            return u.RadioButton([], self.text(o[0], enc), state=bool(o[1]))
        if k == "SelectableIcon":
            return u.SelectableIcon(self.text(o[0], enc), o[1])
        if k == "Divider":
            return u.Divider(DIV_CHARS[o[0]], top=o[1], bottom=o[2])
        if k == "SolidFill":
            return u.SolidFill(DIV_CHARS[o[0]])
        if k == "BigText":
            font = {"thin3": u.Thin3x3Font, "half54": u.HalfBlock5x4Font, "thin43": u.Thin4x3Font, "half76": u.HalfBlock7x7Font}[o[1]]()
            return u.BigText(TEXTS[o[0]] if o[0] in TEXTS else o[0], font)
        if k == "ProgressBar":
            return u.ProgressBar("n", "c", current=o[0], done=100, satt=("s" if o[1] else None))
        if k == "BarGraph":
            g = u.BarGraph(["bg", "b1", "b2"], satt=({(1, 0): "s10", (2, 0): "s20"} if o[2] else None))
            data = [[(i * 3 + 1) % (o[1] + 1)] for i in range(o[0])]
            g.set_data(data, o[1], [o[1] // 2] if o[3] else None)
            return g
        if k == "Probe":
            return self.Probe(o[0], o[1], o[2], o[3], o[4], o[5])
        # ---- decorations ---------------------------------------------------------------------------
        if k == "Padding":
            return u.Padding(kids[0], align=_al(o[0]), width=_wh(o[1]), min_width=(o[2] or None), left=o[3], right=o[4])
        if k == "Filler":
            return u.Filler(kids[0], valign=_al(o[0]), height=_wh(o[1]), min_height=(o[2] or None), top=o[3], bottom=o[4])
        if k == "LineBox":
            kw = {}
            sides = o[2]
            if sides == "notop":
                kw = {"tlcorner": "", "tline": "", "trcorner": ""}
            elif sides == "noleft":
                kw = {"tlcorner": "", "lline": "", "blcorner": ""}
            elif sides == "nobr":
                kw = {"trcorner": "", "rline": "", "brcorner": "", "blcorner": "", "bline": ""}
            elif sides == "none":
                kw = {n: "" for n in ("tlcorner", "tline", "lline", "trcorner", "blcorner", "rline", "bline", "brcorner")}
            elif sides == "ascii":
                kw = {"tlcorner": "+", "tline": "-", "lline": "|", "trcorner": "+", "blcorner": "+", "rline": "|", "bline": "-", "brcorner": "+"}
            return u.LineBox(kids[0], title=self.text(o[0], enc), title_align=o[1], **kw)
        if k == "AttrMap":
            return u.AttrMap(kids[0], "x", "fx" if o[0] else None)
        if k == "BoxAdapter":
            return u.BoxAdapter(kids[0], o[0])
        if k == "WidgetDisable":
            return u.WidgetDisable(kids[0])
        if k == "WidgetPlaceholder":
            return u.WidgetPlaceholder(kids[0])
        if k == "Scrollable":
            w = u.Scrollable(kids[0])
            if o[0]:
                w.set_scrollpos(o[0])
            return w
        if k == "ScrollBar":
            return u.ScrollBar(kids[0], side=o[0], width=o[1])
        # ---- containers ----------------------------------------------------------------------------
        if k == "Pile":
            items = []
            for w, op in zip(kids, o[1]):
                items.append((op[0], w) if op[0] == "pack" else (op[0], op[1], w))
            return u.Pile(items, focus_item=(min(o[0], len(items) - 1) if items and o[0] >= 0 else None))
        if k == "Columns":
            items = []
            for w, op in zip(kids, o[3]):
                items.append((op[0], w) if op[0] == "pack" else (op[0], op[1], w))
            boxc = [i for i, op in enumerate(o[3]) if op[2]]
            return u.Columns(items, dividechars=o[0], min_width=o[1], focus_column=(min(o[2], len(items) - 1) if items and o[2] >= 0 else None),
                             box_columns=boxc)
        if k == "Frame":
            body = kids[0]
            j = 1
            hdr = ftr = None
            if o[0]:
                hdr = kids[j]
                j += 1
            if o[1]:
                ftr = kids[j]
            return u.Frame(body, header=hdr, footer=ftr, focus_part=o[2])
        if k == "Overlay":
            return u.Overlay(kids[0], kids[1], align=_al(o[0]), width=_wh(o[1]), valign=_al(o[2]), height=_wh(o[3]), min_width=(o[4] or None),
                             min_height=(o[5] or None), left=o[6], right=o[7], top=o[8], bottom=o[9])
        if k == "GridFlow":
            g = u.GridFlow(kids, o[0], o[1], o[2], o[3])
            if kids and o[4] >= 0:
                g.focus_position = min(o[4], len(kids) - 1)
            return g
        if k == "ListBox":
            lb = u.ListBox(u.SimpleFocusListWalker(kids))
            if kids and o[0] >= 0:
                lb.focus_position = min(o[0], len(kids) - 1)
            return lb
        raise ValueError(f"unknown term kind {k!r}")


def _set_edit_pos(w, pos):
    n = len(w.edit_text)
    w.set_edit_pos({"start": 0, "mid": n // 2, "end": n}[pos])


def _al(a):
    if isinstance(a, str) and a.startswith("rel"):
        return ("relative", int(a[3:]))
    return a


def _wh(x):
    if isinstance(x, int):
        return x
    if x.startswith("rel"):
        return ("relative", int(x[3:]))
    if x.startswith("g"):
        return int(x[1:])
    if x == "none":
        return None
    return x  # 'pack' / 'clip'


def show(t) -> str:
    """Compact readable form of a term (for signatures and reports)."""
    if not t["c"]:
        return f"{t['k']}{_flat(t['o'])}"
    return f"{t['k']}{_flat(t['o'])}[" + ", ".join(show(x) for x in t["c"]) + "]"


def _flat(o):
    def f(x):
        if isinstance(x, (list, tuple)):
            return "(" + ",".join(f(y) for y in x) + ")"
        return str(x)

    return f(o)


def children_of(t, w):
    """Real child widgets of the widget w built from term t, in term order."""
    k = t["k"]
    if not t["c"]:
        return []
    if k in ("Pile", "Columns", "GridFlow"):
        return [c for c, _ in w.contents]
    if k == "Frame":
        return [x for x in (w.body, w.header if t["o"][0] else None, w.footer if t["o"][1] else None) if x is not None]
    if k == "Overlay":
        return [w.top_w, w.bottom_w]
    if k == "ListBox":
        return list(w.body)
    return [w.original_widget]


def walk(t, w):
    """(subterm, real widget) pairs, pre-order."""
    yield t, w
    for ct, cw in zip(t["c"], children_of(t, w)):
        yield from walk(ct, cw)


def kinds(t) -> list[str]:
    out = [t["k"]]
    for x in t["c"]:
        out += kinds(x)
    return out


def depth(t) -> int:
    return 0 if not t["c"] else 1 + max(depth(x) for x in t["c"])


# ---------------------------------------------------------------------------------------------------
def _observe(w, size, focus, enc, clear=True, on_render=None):
    """What rows()/pack()/render() really returned for one size and focus flag -> (event, canvas or None).
    clear=False: the canvas cache is left alone (histories with held canvases)."""
    import urwid

    mode = ("fixed", "flow", "box")[len(size)]
    e = {"t": "render", "mode": mode, "c": size[0] if size else 0, "r": size[1] if len(size) == 2 else 0, "focus": 1 if focus else 0,
         "rows_call": -1, "pc": -1, "pr": -1, "calc_exc": "", "exc": "", "cc": -1, "cr": -1, "content": [], "cur": [], "curkind": "none",
         "calc_again": [], "exc_at": "", "shards": 0, "span": 0, "cutspan": 0}
    if clear:
        urwid.CanvasCache.clear()
    try:
        if mode == "flow":
            e["rows_call"] = int(w.rows(size, focus))
        elif mode == "fixed":
            p = w.pack(size, focus)
            e["pc"], e["pr"] = int(p[0]), int(p[1])
    except Exception as ex:  # noqa: BLE001
        e["calc_exc"] = type(ex).__name__
    if clear:
        urwid.CanvasCache.clear()
    if on_render:
        on_render()
    canv = None
    try:
        canv = w.render(size, focus)
        e["exc_at"] = "content"
        _measure(canv, enc, e)
        e["exc_at"] = ""
    except Exception as ex:  # noqa: BLE001
        e["exc"] = type(ex).__name__
        e["exc_msg"] = str(ex)[:200]
        e["exc_at"] = e["exc_at"] or "render"      # "content": render() returned a canvas whose content() cannot be read
        canv = None
    if canv is not None and mode != "box":
        # the widget's own calculation asked AGAIN: right after the rendering (it may be answered from the canvas just cached) and,
        # outside histories, once more after _invalidate() (computed anew, by a widget that has rendered at this size)
        for when in ("after", "inval") if clear else ("after",):
            try:
                if when == "inval":
                    w._invalidate()
                if mode == "flow":
                    e["calc_again"].append([when, e["c"], int(w.rows(size, focus))])
                else:
                    p = w.pack(size, focus)
                    e["calc_again"].append([when, int(p[0]), int(p[1])])
            except Exception:  # noqa: BLE001
                e["calc_again"].append([when, -1, -1])
    return e, canv


def _shard_facts(canv, e):
    """Coverage only (never judged): the shard structure of a composite canvas - how many shards, whether a cell view spans
    several of them, whether such a view was cut at its bottom although more canvas follows below it."""
    shards = getattr(canv, "shards", None) or []
    e["shards"] = len(shards)
    total, top = sum(n for n, _cvs in shards), 0
    for n, cvs in shards:
        for cv in cvs:
            if cv[3] > n:
                e["span"] = 1
                if cv[1] + cv[3] < cv[5].rows() and top + cv[3] < total:
                    e["cutspan"] = 1
        top += n


def _measure(canv, enc, e):
    e["cc"], e["cr"] = int(canv.cols()), int(canv.rows())
    if "shards" in e:
        try:
            _shard_facts(canv, e)
        except Exception:  # noqa: BLE001
            pass
    e["content"] = [row_widths(row, enc) for row in canv.content()]
    cur = canv.cursor
    if cur is not None:
        e["cur"] = [int(cur[0]), int(cur[1])]
        e["curkind"] = "xy"


def observe_render(w, size, focus, enc):
    """One C01 event: what rows()/pack()/render() really returned for one size and focus flag (fresh canvas cache)."""
    return _observe(w, size, focus, enc)[0]


def walk_paths(t, w, path=()):
    """(path of 1-based child indices, subterm, real widget), pre-order."""
    yield list(path), t, w
    for i, (ct, cw) in enumerate(zip(t["c"], children_of(t, w)), 1):
        yield from walk_paths(ct, cw, (*path, i))


def subterm(t, path):
    for i in path:
        t = t["c"][i - 1]
    return t


FRAME_OPS = ("root", "sub", "again", "inval")


def observe_frames(t, w, size, focus, enc, max_sub, seed):
    """One C01 history ("frames"): the canvas cache is cleared once, then every canvas obtained is HELD (as the screen
    holds the last frame) while
      root   the root is rendered at (size, focus);
      sub    every widget of the tree the root rendered is rendered directly at each (size, focus) its parent gave it;
      layout (recorded during root, placed before it) the widths every Columns of the tree gave its children in the root's rendering;
      again  the root is rendered again;
      inval  the root is invalidated and rendered again (children come from the cache);
      held   every held canvas is measured again (event index of the rendering that returned it).
    Nothing is judged here."""
    import random

    import urwid

    rng = random.Random(seed)
    ev, held = [], []          # held: (event number (1-based), canvas)
    nodes = list(walk_paths(t, w))
    given = {}

    calls, active = [], [0]        # (index of the calling node, index of the node rendered, size, columns of the canvas returned)

    def spy(idx, sw):
        orig = sw.render

        def render(sz, focus=False):
            given.setdefault(idx, [])
            g = (tuple(sz), bool(focus))
            if g not in given[idx]:
                given[idx].append(g)
            parent = active[-1]
            active.append(idx)
            cols = -1
            try:
                canv = orig(sz, focus)
                cols = int(canv.cols())
            finally:
                active.pop()
                calls.append((parent, idx, tuple(sz), int(sz[0]) if sz else cols))       # the columns asked for; of a fixed widget: those of its canvas
            return canv

        sw.render = render

    def layouts():
        """What every Columns of the tree, rendered exactly once in the root's rendering at a size that names its columns,
        gave its children (the columns of each child's canvas; 0 = not rendered)."""
        index = {tuple(p): i for i, (p, _st, _sw) in enumerate(nodes)}
        out = []
        for idx, (path, st, _sw) in enumerate(nodes):
            if st["k"] != "Columns" or not st["c"]:
                continue
            mine = [c for c in calls if c[1] == idx] if idx else [(0, 0, tuple(size), 0)]
            if len(mine) != 1 or not mine[0][2]:
                continue
            widths = []
            for i in range(1, len(st["c"]) + 1):
                kid = [c for c in calls if c[0] == idx and c[1] == index[(*path, i)]]
                if len(kid) > 1:
                    break
                widths.append(max(kid[0][3], 0) if kid else 0)
            else:
                out.append({"t": "layout", "path": list(path), "c": int(mine[0][2][0]), "w": widths})
        return out

    def frame(op, path, sw, sz, fc, on_render=None):
        h0 = urwid.CanvasCache.hits
        e, canv = _observe(sw, sz, fc, enc, clear=False, on_render=on_render)
        e["t"], e["op"], e["path"] = "frame", op, list(path)
        e["hit"] = 1 if urwid.CanvasCache.hits > h0 else 0       # some canvas came out of the cache (coverage only)
        try:
            e["szg"] = sorted(str(getattr(m, "value", m)) for m in sw.sizing())
        except Exception:  # noqa: BLE001
            e["szg"] = []
        ev.append(e)
        if canv is not None:
            held.append((len(ev), canv))

    urwid.CanvasCache.clear()

    def start():
        for idx, (_p, _st, sw) in enumerate(nodes):
            if idx:
                spy(idx, sw)

    frame("root", [], w, size, focus, on_render=start)
    for _p, _st, sw in nodes:
        sw.__dict__.pop("render", None)
    ev[0:0] = layouts()        # the cause before its consequence: what the containers asked of their children, then what the root returned
    for i, (_ref, canv) in enumerate(held):
        held[i] = (len(ev), canv)
    subs = [(idx, g) for idx in sorted(given) for g in given[idx]]
    if len(subs) > max_sub:
        subs = sorted(rng.sample(subs, max_sub))
    for idx, (sz, fc) in subs:
        path, _st, sw = nodes[idx]
        frame("sub", path, sw, sz, fc)
    frame("again", [], w, size, focus)
    w._invalidate()
    frame("inval", [], w, size, focus)
    for ref, canv in held:
        h = {"t": "held", "ref": ref, "cc": -1, "cr": -1, "content": [], "cur": [], "exc": ""}
        try:
            _measure(canv, enc, h)
        except Exception as ex:  # noqa: BLE001
            h["exc"] = type(ex).__name__
        ev.append(h)
    return ev


def sizes_for(modes, cols, rows):
    out = []
    if "fixed" in modes:
        out.append(())
    if "flow" in modes:
        out += [(c,) for c in cols]
    if "box" in modes:
        out += [(c, r) for c in cols for r in rows]
    return out


# ---------------------------------------------------------------------------------------------------
# C09: geometry observation
TAGGED_KINDS = ("Probe", "TEdit", "TIcon")


def renumber(t, counter=None):
    """Copy of the term with the tagged leaves numbered 1.. in pre-order (ids must be unique within a term)."""
    counter = counter if counter is not None else [0]
    o = list(t["o"])
    if t["k"] in TAGGED_KINDS:
        counter[0] += 1
        o[0] = counter[0]
    return {"k": t["k"], "o": o, "c": [renumber(x, counter) for x in t["c"]]}


def tagged_leaves(t, bg=0):
    """[(leaf term, bg)] where bg=1 marks leaves below an Overlay (covered on purpose, never sent input)."""
    if t["k"] in TAGGED_KINDS:
        return [(t, bg)]
    out = []
    for i, x in enumerate(t["c"]):
        out += tagged_leaves(x, 1 if (bg or (t["k"] == "Overlay" and i == 1)) else 0)
    return out


def _cur(c):
    return [int(c[0]), int(c[1])] if c is not None else []


def _grid(canv):
    return [row_ids(r) for r in canv.content()]


STEP_KEYS = ("left", "right", "up", "down", "home", "end", "x", "backspace", "delete")


STRUCT_OPS = ("focus", "lbfocus", "lbvalign", "lbdel", "lbins", "unfocus")
FRAME_PARTS = ("body", "header", "footer")


def _node(t, w, path):
    for i in path:
        w = children_of(t, w)[i - 1]
        t = t["c"][i - 1]
    return t, w


def _with_sub(t, path, new):
    """Copy of t with the subterm at path replaced."""
    if not path:
        return new
    c = list(t["c"])
    c[path[0] - 1] = _with_sub(c[path[0] - 1], path[1:], new)
    return {"k": t["k"], "o": t["o"], "c": c}


def _max_id(t):
    return max([lt["o"][0] for lt, _bg in tagged_leaves(t)] or [0])


def choose_step(rng, wd, w, tc, se):
    """Draw the next step of a history into se (nothing is applied here): a key sent to the root, the application moving the
    cursor of a leaf, or the application changing the structure: the focus of a container set by program, the focus of a
    ListBox changed through its walker, its focus alignment changed, an item above its focus deleted / inserted, the whole
    tree drawn once WITHOUT the focus (another pane had it)."""
    movable = [(pid, lw) for pid, lw in sorted(wd.probes.items()) if lw.last is not None and hasattr(lw, "move_cursor_to_coords")]
    conts = [(p, st, sw) for p, st, sw in walk_paths(tc, w) if st["c"] and st["k"] in ("Pile", "Columns", "GridFlow", "ListBox", "Frame")]
    lbs = [x for x in conts if x[1]["k"] == "ListBox"]
    r = rng.random()
    if r < 0.45 or not (movable or conts):
        se["key"] = rng.choice(STEP_KEYS)
    elif (r < 0.62 and movable) or not conts:
        pid, lw = rng.choice(movable)
        se["pid"] = pid
        if hasattr(lw, "set_edit_pos"):        # the application moves the cursor of an Edit
            se["op"], se["x"] = "setpos", rng.randint(0, len(lw.edit_text))
        else:                                  # ... of a probe
            se["op"], se["x"], se["y"] = "probecur", rng.randrange(max(1, lw.last[0])), rng.randrange(max(1, lw.last[1]))
    elif r < 0.67:
        se["op"] = "unfocus"
    else:
        path, st, sw = rng.choice(lbs) if lbs and rng.random() < 0.7 else rng.choice(conts)
        se["path"] = list(path)
        n = len(st["c"])
        ops = ["focus"]
        if st["k"] == "ListBox":
            fp = sw.focus_position
            ops = ["focus", "lbfocus", "lbfocus", "lbvalign", "lbins"] + (["lbdel", "lbdel"] if fp > 0 else [])
        se["op"] = rng.choice(ops)
        if se["op"] in ("focus", "lbfocus"):
            if st["k"] == "Frame":
                se["n"] = rng.choice([0] + ([1] if st["o"][0] else []) + ([2] if st["o"][1] else []))
            else:
                se["n"] = rng.randrange(n)
        elif se["op"] == "lbvalign":
            se["s"] = rng.choice(("top", "middle", "bottom"))
        elif se["op"] == "lbdel":
            se["n"] = rng.randrange(fp)
        elif se["op"] == "lbins":
            se["n"], se["x"] = rng.randint(0, fp), rng.randrange(n)


def apply_step(wd, w, tc, se, size, enc):
    """Apply the step described by se to the widget tree w built from term tc -> the term after the step."""
    op = se["op"]
    if op == "key":
        se["handled"] = 1 if w.keypress(size, se["key"]) is None else 0
    elif op == "setpos":
        wd.probes[se["pid"]].set_edit_pos(se["x"])
    elif op == "probecur":
        lw = wd.probes[se["pid"]]
        lw.cur = (se["x"], se["y"])
        lw._invalidate()
    elif op == "unfocus":
        w.render(size, False)
    else:
        path, n = se["path"], se["n"]
        st, sw = _node(tc, w, path)
        if op == "focus":
            sw.focus_position = FRAME_PARTS[n] if st["k"] == "Frame" else n
        elif op == "lbfocus":
            sw.body.set_focus(n)
        elif op == "lbvalign":
            sw.set_focus_valign(se["s"])
        elif op == "lbdel":
            del sw.body[n]
            tc = _with_sub(tc, path, {"k": st["k"], "o": st["o"], "c": st["c"][:n] + st["c"][n + 1:]})
        elif op == "lbins":
            new = renumber(st["c"][se["x"]], [_max_id(tc)])      # a copy of one of the items, its leaves numbered afresh
            sw.body.insert(n, wd.build(new, enc))
            tc = _with_sub(tc, path, {"k": st["k"], "o": st["o"], "c": st["c"][:n] + [new] + st["c"][n:]})
        else:
            raise ValueError(op)
    return tc


def observe_geometry(t, enc, size, max_press, max_move, seed, max_steps=0, max_hpress=0):
    """One C09 trace: the focused rendering, then a button-1 press and a move_cursor_to_coords per cell, each
    applied to a copy of the widget in the rendered state; then a history on a copy in the rendered state (the canvas of
    the last frame is held, as a screen holds it): keys sent to the root / the cursor of a leaf moved by the application,
    each followed by get_cursor_coords BEFORE anything is rendered again and then by the focused rendering.
    Nothing is judged here."""
    import random

    import urwid

    rng = random.Random(seed)
    set_enc(enc)
    size = tuple(size)
    tr = {"term": t, "enc": enc, "size": list(size), "build_exc": "", "ev": []}

    def fresh():
        wd = World()
        return wd, wd.build(t, enc)

    def focused_render(w):
        urwid.CanvasCache.clear()
        return w.render(size, True)

    def settle(w):
        """What a history does between two steps (see snapshot): the cursor is asked, the next frame is drawn."""
        try:
            if hasattr(w, "get_cursor_coords"):
                w.get_cursor_coords(size)
        except Exception:  # noqa: BLE001
            pass
        w.render(size, True)
        focused_render(w)

    try:
        wd, w = fresh()
    except Exception as ex:  # noqa: BLE001
        tr["build_exc"] = f"{type(ex).__name__}: {str(ex)[:120]}"
        return tr

    def snapshot(wd, w, e, with_acc, clear_first, t=t):
        """Fill e with the three views of the geometry of w in its present state: the cursor reported without rendering,
        the cursor of the focused rendering, the grid of painted ids with what every widget on the way was given.
        clear_first=False: get_cursor_coords and the first focused rendering see the caches as the history left them."""
        given = {}

        def spy(idx, sw):
            orig = sw.render

            def render(sz, focus=False):
                given[idx] = (tuple(sz), bool(focus))
                return orig(sz, focus)

            sw.render = render

        pairs = list(walk(t, w))
        e.update({"nodes": [], "grid": [], "cc": 0, "cr": 0, "gcc": [], "rcur": [], "leaves": [], "exc": "", "skipcur": 0})
        try:
            if clear_first:
                urwid.CanvasCache.clear()
            gcc = w.get_cursor_coords(size) if hasattr(w, "get_cursor_coords") else None
            e["gcc"] = _cur(gcc)
        except Exception as ex:  # noqa: BLE001
            e["exc"] = "get_cursor_coords:" + type(ex).__name__
        try:
            if not clear_first:
                e["rcur"] = _cur(w.render(size, True).cursor)      # the frame a screen would draw next
            for idx, (_st, sw) in enumerate(pairs):
                spy(idx, sw)
            try:
                canv = focused_render(w)
            finally:
                for _st, sw in pairs:
                    sw.__dict__.pop("render", None)
            grid = _grid(canv)
            e["grid"], e["cc"], e["cr"] = grid, canv.cols(), canv.rows()
            if clear_first:
                e["rcur"] = _cur(canv.cursor)
        except Exception as ex:  # noqa: BLE001  (rendering is C01's business: no geometry to compare)
            return type(ex).__name__, None
        if any(len(r) != len(grid[0]) for r in grid):
            return "ragged", None
        for idx, (st, sw) in enumerate(pairs):
            if idx in given and len(given[idx][0]) == 2:
                try:
                    modes = {str(getattr(m, "value", m)) for m in sw.sizing()}
                    if "flow" in modes:
                        (gc, gr), gf = given[idx]
                        e["nodes"].append({"kind": st["k"], "given": int(gr), "need": int(sw.rows((gc,), gf))})
                except Exception:  # noqa: BLE001
                    e["nodes"].append({"kind": st["k"], "given": 0, "need": 1})
        for lt, bg in tagged_leaves(t):
            pid = lt["o"][0]
            lw = wd.probes.get(pid)
            rendered = lw is not None and lw.last is not None
            info = {"id": pid, "kind": lt["k"], "bg": bg, "rendered": 1 if rendered else 0, "w": 0, "h": 0, "sel": 0, "cursor": 0, "acc": [], "acur": []}
            if rendered:
                info["w"], info["h"] = int(lw.last[0]), int(lw.last[1])
                info["sel"] = 1 if lw.selectable() else 0
                info["cursor"] = 0 if (lt["k"] == "Probe" and lt["o"][5] == "nocursor") or not hasattr(lw, "move_cursor_to_coords") else 1
                if with_acc and info["sel"] and info["cursor"] and not bg and info["w"] * info["h"] <= 64:
                    acc, acur = [], []
                    for y in range(info["h"]):
                        rowacc, rowcur = [], []
                        for x in range(info["w"]):
                            try:
                                cp = World().build(lt, enc)
                                cp.render(lw.last_size, lw.last_focus)      # the state the leaf is in inside the tree (an Edit scrolls to its cursor only in focus)
                                rowacc.append(1 if cp.move_cursor_to_coords(lw.last_size, x, y) else 0)
                                # where the leaf itself then shows its cursor (its own choice inside its own area)
                                rowcur.append(_cur(cp.get_cursor_coords(lw.last_size)) if rowacc[-1] else [])
                            except Exception:  # noqa: BLE001
                                rowacc.append(0)
                                rowcur.append([])
                        acc.append(rowacc)
                        acur.append(rowcur)
                    info["acc"], info["acur"] = acc, acur
                else:
                    info["cursor"] = 0      # move events on this leaf are not judged
            if not info["acc"]:
                info["acc"] = [[0] * max(info["w"], 1)] * max(info["h"], 1)
                info["acur"] = [[[]] * max(info["w"], 1)] * max(info["h"], 1)
            e["leaves"].append(info)
        return "", canv

    e = {"t": "render", "steps": 0}
    tr["ev"].append(e)
    err, canv = snapshot(wd, w, e, True, True)
    if err:
        tr["ev"] = []
        tr["render_exc"] = err
        return tr
    grid = e["grid"]
    cells = [(c, r) for r in range(len(grid)) for c in range(len(grid[0])) if grid[r][c] > 0]
    press_cells = cells if len(cells) <= max_press else rng.sample(cells, max_press)
    for col, row in press_cells:
        pe = {"t": "press", "col": col, "row": row, "recv": [], "exc": "", "after": 0}
        del wd.log[:]
        try:
            w.mouse_event(size, "mouse press", 1, col, row, True)
        except Exception as ex:  # noqa: BLE001
            pe["exc"] = type(ex).__name__
        pe["recv"] = [[x[1], x[2], x[3]] for x in wd.log if x[0] == "mouse"]
        tr["ev"].append(pe)
        try:
            same = _grid(focused_render(w)) == grid
        except Exception:  # noqa: BLE001
            same = False
        if not same:      # the press changed focus-dependent layout: continue on a copy in the rendered state
            wd, w = fresh()
            try:
                if _grid(focused_render(w)) != grid:
                    break
            except Exception:  # noqa: BLE001
                break
    if hasattr(w, "move_cursor_to_coords"):
        # boundary cells first: the corners of the area of every leaf that takes part in the cursor protocol (where the
        # areas of neighbours meet), then cells drawn at random
        corners = []
        for lf in e["leaves"]:
            own = [(c, r) for (c, r) in cells if grid[r][c] == lf["id"]]
            if own and lf["sel"] and lf["cursor"] and not lf["bg"]:
                xs, ys = [c for c, _ in own], [r for _, r in own]
                for xy in ((min(xs), min(ys)), (min(xs), max(ys)), (max(xs), min(ys)), (max(xs), max(ys))):
                    if xy in own and xy not in corners:
                        corners.append(xy)
        n_corner = min(len(corners), max(1, (max_move * 2) // 3))
        move_cells = rng.sample(corners, n_corner) if corners else []
        others = [xy for xy in cells if xy not in move_cells]
        move_cells += others if len(others) <= max_move - len(move_cells) else rng.sample(others, max(0, max_move - len(move_cells)))
        for col, row in move_cells:
            me = {"t": "move", "col": col, "row": row, "ret": 0, "asked": [], "gcc_after": [], "rcur_after": [], "exc": "", "gcc_exc": ""}
            try:
                wd, w = fresh()
                if _grid(focused_render(w)) != grid:
                    break
            except Exception:  # noqa: BLE001
                break
            del wd.log[:]
            try:
                me["ret"] = 1 if w.move_cursor_to_coords(size, col, row) else 0
            except Exception as ex:  # noqa: BLE001
                me["exc"] = type(ex).__name__
            me["asked"] = [[x[1], x[2], x[3], x[4]] for x in wd.log if x[0] == "move"]
            if not me["exc"]:
                try:
                    urwid.CanvasCache.clear()
                    me["gcc_after"] = _cur(w.get_cursor_coords(size)) if hasattr(w, "get_cursor_coords") else []
                    me["rcur_after"] = _cur(focused_render(w).cursor)
                except Exception as ex:  # noqa: BLE001
                    me["gcc_exc"] = "get_cursor_coords:" + type(ex).__name__
            tr["ev"].append(me)
    # ---- history --------------------------------------------------------------------------------------------------
    if max_steps > 0:
        def start():
            wd, w = fresh()
            return wd, w, focused_render(w)

        try:
            wd, w, frame0 = start()
            held = [frame0]            # the frame on the screen
            if _grid(frame0) != grid or not w.selectable():
                return tr
        except Exception:  # noqa: BLE001
            return tr
        tc, done = t, []               # the term as the history changed it (items deleted from / inserted into a ListBox); the steps so far
        for _ in range(max_steps):
            se = {"t": "step", "op": "key", "key": "", "pid": 0, "x": 0, "y": 0, "handled": 0, "op_exc": "", "path": [], "n": 0, "s": ""}
            try:
                choose_step(rng, wd, w, tc, se)
                tc2 = apply_step(wd, w, tc, se, size, enc)
            except Exception as ex:  # noqa: BLE001  (a key that raises is not C09's business: the history ends here)
                tr["step_exc"] = type(ex).__name__
                break
            err, canv = snapshot(wd, w, se, False, False, tc2)
            if err:
                tr["step_exc"] = "render:" + err
                break
            tc = tc2
            held.append(canv)
            tr["ev"].append(se)
            done.append(se)
            if se["op"] in STRUCT_OPS and max_hpress > 0:
                # the state reached by the history is hit-tested like the fresh one: a button-1 press per cell, each applied to a
                # copy brought into the same state by the same steps (a press moves the focus and re-places the list)
                g2 = se["grid"]
                cells2 = [(c, r) for r in range(len(g2)) for c in range(len(g2[0])) if g2[r][c] > 0]
                for col, row in (cells2 if len(cells2) <= max_hpress else rng.sample(cells2, max_hpress)):
                    try:
                        wd2, w2, _f = start()
                        t2 = t
                        for s0 in done:
                            t2 = apply_step(wd2, w2, t2, dict(s0), size, enc)
                            settle(w2)
                        if _grid(focused_render(w2)) != g2:
                            tr["replay_diverged"] = tr.get("replay_diverged", 0) + 1
                            break
                    except Exception:  # noqa: BLE001
                        tr["replay_diverged"] = tr.get("replay_diverged", 0) + 1
                        break
                    pe = {"t": "press", "col": col, "row": row, "recv": [], "exc": "", "after": len(done)}
                    del wd2.log[:]
                    try:
                        w2.mouse_event(size, "mouse press", 1, col, row, True)
                    except Exception as ex:  # noqa: BLE001
                        pe["exc"] = type(ex).__name__
                    pe["recv"] = [[x[1], x[2], x[3]] for x in wd2.log if x[0] == "mouse"]
                    tr["ev"].append(pe)
    return tr
