"""Bracket-matching parser for TLA+ values as printed by TLC (dump, simulate files, PrintT).

Mapping: int -> int, "s" -> str, TRUE/FALSE -> bool, <<..>> -> list, {..} -> frozenset-ish
(python list tagged as set via TlaSet), [a |-> v, ..] -> dict, (k :> v @@ ..) -> dict,
bare identifiers (model values) -> str.
"""
from __future__ import annotations

import re


class TlaSet(list):
    """A TLA+ set, kept as a list in TLC's print order."""


_TOK = re.compile(
    r"""\s*(?:
      (?P<int>-?\d+)
    | "(?P<str>(?:[^"\\]|\\.)*)"
    | (?P<sym><<|>>|\|->|:>|@@|\.\.|[\[\]{}(),])
    | (?P<id>[A-Za-z_][A-Za-z0-9_!]*)
    )""",
    re.X,
)


def _tokens(s: str):
    pos = 0
    n = len(s)
    while True:
        while pos < n and s[pos].isspace():
            pos += 1
        if pos >= n:
            return
        m = _TOK.match(s, pos)
        if not m:
            raise ValueError(f"cannot tokenise TLA value at {s[pos:pos+40]!r}")
        pos = m.end()
        if m.group("int") is not None:
            yield ("int", int(m.group("int")))
        elif m.group("str") is not None:
            yield ("str", m.group("str").replace('\\"', '"').replace("\\\\", "\\"))
        elif m.group("sym") is not None:
            yield ("sym", m.group("sym"))
        else:
            yield ("id", m.group("id"))


class _P:
    def __init__(self, s: str):
        self.t = list(_tokens(s))
        self.i = 0

    def peek(self):
        return self.t[self.i] if self.i < len(self.t) else (None, None)

    def next(self):
        tok = self.t[self.i]
        self.i += 1
        return tok

    def expect(self, sym):
        k, v = self.next()
        if k != "sym" or v != sym:
            raise ValueError(f"expected {sym} got {v!r}")

    def value(self):
        k, v = self.next()
        if k == "int":
            if self.peek() == ("sym", ".."):
                self.next()
                k2, hi = self.next()
                return TlaSet(range(v, hi + 1))
            return v
        if k == "str":
            return v
        if k == "id":
            if v == "TRUE":
                return True
            if v == "FALSE":
                return False
            return v
        if v == "<<":
            out = []
            if self.peek() == ("sym", ">>"):
                self.next()
                return out
            while True:
                out.append(self.value())
                k2, v2 = self.next()
                if v2 == ">>":
                    return out
                if v2 != ",":
                    raise ValueError(f"bad tuple sep {v2!r}")
        if v == "{":
            out = TlaSet()
            if self.peek() == ("sym", "}"):
                self.next()
                return out
            while True:
                out.append(self.value())
                k2, v2 = self.next()
                if v2 == "}":
                    return out
                if v2 != ",":
                    raise ValueError(f"bad set sep {v2!r}")
        if v == "[":
            out = {}
            if self.peek() == ("sym", "]"):
                self.next()
                return out
            while True:
                kk, name = self.next()
                self.expect("|->")
                out[name] = self.value()
                k2, v2 = self.next()
                if v2 == "]":
                    return out
                if v2 != ",":
                    raise ValueError(f"bad record sep {v2!r}")
        if v == "(":
            out = {}
            while True:
                key = self.value()
                self.expect(":>")
                val = self.value()
                out[_hashable(key)] = val
                k2, v2 = self.next()
                if v2 == ")":
                    return out
                if v2 != "@@":
                    raise ValueError(f"bad function sep {v2!r}")
        raise ValueError(f"unexpected token {v!r}")


def _hashable(x):
    if isinstance(x, list):
        return tuple(_hashable(i) for i in x)
    if isinstance(x, dict):
        return tuple(sorted((k, _hashable(v)) for k, v in x.items()))
    return x


def parse_value(s: str):
    p = _P(s)
    v = p.value()
    if p.i != len(p.t):
        raise ValueError(f"trailing tokens in TLA value: {p.t[p.i:p.i+5]}")
    return v


_CONJ = re.compile(r"^/\\ (\w+) = ", re.M)


def parse_state(block: str) -> dict:
    """Parse a block of '/\\ var = value' conjuncts (values may span lines)."""
    out = {}
    ms = list(_CONJ.finditer(block))
    for j, m in enumerate(ms):
        end = ms[j + 1].start() if j + 1 < len(ms) else len(block)
        out[m.group(1)] = parse_value(block[m.end():end])
    return out


_STATE_HDR = re.compile(r"^STATE_(\d+) ==\s*$", re.M)
_ACT = re.compile(r"^\\\* <(\w+) line", re.M)


def parse_sim_file(text: str) -> list[dict]:
    """Parse one '-simulate file=' behaviour module into a list of states
    (each a dict var -> value plus '_action')."""
    text = text.split("=====")[0]
    hdrs = list(_STATE_HDR.finditer(text))
    acts = [m.group(1) for m in _ACT.finditer(text)]
    states = []
    for j, h in enumerate(hdrs):
        end = hdrs[j + 1].start() if j + 1 < len(hdrs) else len(text)
        blk = text[h.end():end]
        # cut a trailing '\* <Action ...>' comment belonging to the next state
        cut = blk.find("\\* <")
        if cut >= 0:
            blk = blk[:cut]
        st = parse_state(blk)
        st["_action"] = acts[j] if j < len(acts) else None
        states.append(st)
    return states


_DUMP_HDR = re.compile(r"^State (\d+):\s*$", re.M)


def parse_dump(text: str) -> list[dict]:
    hdrs = list(_DUMP_HDR.finditer(text))
    out = []
    for j, h in enumerate(hdrs):
        end = hdrs[j + 1].start() if j + 1 < len(hdrs) else len(text)
        out.append(parse_state(text[h.end():end]))
    return out
