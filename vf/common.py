"""Verdict protocol, known findings, replay files and evidence for every check (DESIGN.md §2.2/2.3)."""
from __future__ import annotations

import hashlib
import json
import os
import random
import sys
import time

ROOT = os.path.dirname(os.path.dirname(os.path.abspath(__file__)))
EVIDENCE_DIR = os.path.join(ROOT, "evidence")
REPLAY_DIR = os.path.join(ROOT, "replays")
FINDINGS_FILE = os.path.join(ROOT, "known_findings.json")


def load_findings():
    """known_findings.json plus per-property files findings/Cxx.json (same format); read-only at run time."""
    out = {"findings": [], "fixed": []}
    files = [FINDINGS_FILE] if os.path.exists(FINDINGS_FILE) else []
    d = os.path.join(ROOT, "findings")
    if os.path.isdir(d):
        files += sorted(os.path.join(d, f) for f in os.listdir(d) if f.endswith(".json"))
    for fn in files:
        with open(fn) as f:
            j = json.load(f)
        out["findings"] += j.get("findings", [])
        out["fixed"] += j.get("fixed", [])
    return out


def _match(sig: dict, rec: dict) -> bool:
    """A finding signature is a dict of field -> required value (or list of allowed values, or
    {"min":..}/{"max":..}) over the flat `sig` record of a rejection."""
    for k, want in sig.items():
        if k not in rec:
            return False
        have = rec[k]
        if isinstance(want, dict):
            if "min" in want and not (isinstance(have, (int, float)) and have >= want["min"]):
                return False
            if "max" in want and not (isinstance(have, (int, float)) and have <= want["max"]):
                return False
            if "in" in want and have not in want["in"]:
                return False
        elif isinstance(want, list):
            if have not in want:
                return False
        elif have != want:
            return False
    return True


class Check:
    """One run of one property's check."""

    def __init__(self, pid: str, tier: str, seed: int, clear_replays: bool = False):
        self.pid = pid
        self.tier = tier
        self.seed = seed
        self.rng = random.Random(seed)
        self.t0 = time.time()
        self.violations = []  # (clause, sig, replay path)
        self.known_hits = {}  # finding id -> count
        self.divergences = {}
        self.vacuity = []
        self.cov = {
            "states": 0, "transitions": 0, "traces_validated_against_impl": 0, "samples": [],
            "evaluations": 0, "distinct_nontrivial": 0, "rule": "", "exhaustive": False,
            "tlc_runs": [], "action_coverage": {}, "clause_counts": {}, "trusted_base": [],
        }
        self.assumptions = []
        self._findings = [f for f in load_findings().get("findings", []) if f.get("property") == pid]
        d = os.path.join(REPLAY_DIR, pid)
        if clear_replays and os.path.isdir(d):   # replay files of earlier runs are stale
            for fn in os.listdir(d):
                if fn.endswith(".json"):
                    try:
                        os.unlink(os.path.join(d, fn))
                    except FileNotFoundError:      # another run of the same check is clearing the directory at the same moment
                        pass
        self._seen_viol = set()

    # ---- reporting -------------------------------------------------------------------------
    def note(self, msg):
        print(f"[{self.pid}] {msg}", flush=True)

    def add_mc(self, name, r):
        """Record an exhaustive TLC run."""
        self.cov["states"] += r.distinct
        self.cov["transitions"] += r.generated
        self.cov["tlc_runs"].append({"run": name, "cmd": r.cmd[-300:], "generated": r.generated,
                                     "distinct": r.distinct, "depth": r.depth, "wall_s": round(r.wall_s, 1)})
        for a, (d, t) in r.coverage.items():
            self.cov["action_coverage"][f"{name}.{a}"] = [d, t]
            if t == 0 and a not in ("Init",):
                self.vacuity.append(f"{name}.{a}")

    def add_tv(self, name, r):
        self.cov["states"] += r.states
        self.cov["transitions"] += r.generated
        self.cov["traces_validated_against_impl"] += r.traces
        self.cov["evaluations"] += r.events
        self.cov["tlc_runs"].append({"run": name, "kind": "trace-validation", "traces": r.traces,
                                     "events": r.events, "consumed": r.consumed, "distinct": r.states,
                                     "batches": r.batches, "rejected": len(r.rejects), "wall_s": round(r.wall_s, 1)})

    def count(self, clause, n=1):
        c = self.cov["clause_counts"]
        c[clause] = c.get(clause, 0) + n

    def sample(self, obj, limit=4):
        if len(self.cov["samples"]) < limit:
            self.cov["samples"].append(obj)

    def divergence(self, what, detail=None):
        d = self.divergences.setdefault(what, {"count": 0, "example": detail})
        d["count"] += 1

    def reject(self, clause: str, sig: dict, replay: dict):
        """A rejection of the real code by the specification.  Either matches a known finding
        (KNOWN-FINDING, exit code unaffected) or is a VIOLATION."""
        rec = dict(sig)
        rec["clause"] = clause
        for f in self._findings:
            if _match(f["signature"], rec):
                self.known_hits[f["id"]] = self.known_hits.get(f["id"], 0) + 1
                return "known"
        key = json.dumps(rec, sort_keys=True, default=str)
        h = hashlib.sha1(key.encode()).hexdigest()[:12]
        if h in self._seen_viol:
            return "dup"
        self._seen_viol.add(h)
        d = os.path.join(REPLAY_DIR, self.pid)
        os.makedirs(d, exist_ok=True)
        path = os.path.join(d, h + ".json")
        with open(path, "w") as f:
            json.dump({"property": self.pid, "clause": clause, "sig": rec, "seed": self.seed,
                       "tier": self.tier, "replay": replay}, f, indent=1, default=str)
        self.violations.append((clause, rec, path))
        if len(self.violations) <= 25:
            print(f"VIOLATION property={self.pid} replay={path}", flush=True)
            print(f"  clause={clause} sig={json.dumps(rec, default=str)[:400]}", flush=True)
        return "violation"

    # ---- finishing -------------------------------------------------------------------------
    def finish(self, level="model_checking") -> int:
        for f in self._findings:
            n = self.known_hits.get(f["id"], 0)
            if n:
                print(f"KNOWN-FINDING: property={self.pid} {f['id']}: {f['what']} (seen {n}x this run)", flush=True)
        for v in self.vacuity:
            print(f"VACUITY-WARNING: property={self.pid} {v} never taken", flush=True)
        for k, d in self.divergences.items():
            print(f"DIVERGENCE: property={self.pid} {k} x{d['count']} e.g. {json.dumps(d['example'], default=str)[:300]}",
                  flush=True)
        cov = self.cov
        cov["known_findings_hit"] = self.known_hits
        cov["divergences"] = {k: d["count"] for k, d in self.divergences.items()}
        cov["vacuity_warnings"] = self.vacuity
        if not cov["samples"]:
            cov["samples"] = ["(no sample recorded)"]
        ev = {
            "property_id": self.pid, "tier": self.tier, "seed": self.seed, "level": level,
            "coverage": cov, "assumptions": self.assumptions,
            "wall_s": round(time.time() - self.t0, 2), "violations": len(self.violations),
        }
        os.makedirs(EVIDENCE_DIR, exist_ok=True)
        with open(os.path.join(EVIDENCE_DIR, self.pid + ".json"), "w") as f:
            json.dump(ev, f, indent=1, default=str)
        self.note(f"done tier={self.tier} states={cov['states']} transitions={cov['transitions']} "
                  f"traces={cov['traces_validated_against_impl']} violations={len(self.violations)} "
                  f"wall={ev['wall_s']}s")
        return 1 if self.violations else 0


def main_wrapper(fn):
    try:
        return fn()
    except Exception as ex:  # machinery failure
        import traceback
        traceback.print_exc()
        print(f"MACHINERY-FAILURE: {type(ex).__name__}: {str(ex)[:2000]}", file=sys.stderr, flush=True)
        return 2
