"""Escape-stream tokeniser and canvas projection (trusted base shared by C04, C12, C15, C17).

Nothing here interprets terminal state: tokens are handed to Terminal.tla, which owns cursor,
charset shifts, SGR state and the grid.
"""
from __future__ import annotations

import re
import unicodedata

DEC = "▮◆▒␉␌␍␊°±␤␋┘┐┌└┼⎺⎻─⎼⎽├┤┴┬│≤≥π≠£·"
ALT = "_`abcdefghijklmnopqrstuvwxyz{|}~"
DEC_OF_ALT = dict(zip(ALT, DEC))

BASIC = ["black", "dark red", "dark green", "brown", "dark blue", "dark magenta", "dark cyan", "light gray",
         "dark gray", "light red", "light green", "yellow", "light blue", "light magenta", "light cyan", "white"]
FLAG = {"bold": 1, "italics": 3, "underline": 4, "blink": 5, "standout": 7, "strikethrough": 9}


def char_width(ch: str) -> int:
    """Display width from the Unicode database (independent of urwid's own tables)."""
    o = ord(ch)
    if o < 32 or 0x7F <= o < 0xA0:
        return 0
    cat = unicodedata.category(ch)
    if cat in ("Mn", "Me", "Cf") or 0x1160 <= o <= 0x11FF:
        return 0
    if unicodedata.east_asian_width(ch) in ("W", "F"):
        return 2
    return 1


_CSI = re.compile(r"\x1b\[([?>]?)([0-9;:]*)([@-~])")


def tokenize(s: str) -> list[dict]:
    """Split terminal output into tokens for Terminal.tla.  Unknown sequences become
    {'t': 'unknown', ...} (the trace spec rejects them) — the tokeniser never guesses."""
    out = []
    i = 0
    n = len(s)
    while i < n:
        ch = s[i]
        if ch == "\x1b":
            m = _CSI.match(s, i)
            if m:
                priv, params, fin = m.groups()
                ps = [int(p) if p else 0 for p in params.split(";")] if params else []
                i = m.end()
                if priv == "?" and fin in "hl":
                    for p in ps:
                        out.append({"t": "decset", "n": p, "on": fin == "h"})
                elif priv:
                    out.append({"t": "unknown", "s": m.group(0)})
                elif fin == "H" or fin == "f":
                    y = (ps[0] if len(ps) > 0 and ps[0] else 1) - 1
                    x = (ps[1] if len(ps) > 1 and ps[1] else 1) - 1
                    out.append({"t": "cup", "x": x, "y": y})
                elif fin == "m":
                    out.append({"t": "sgr", "ps": ps})
                elif fin == "K":
                    out.append({"t": "el", "n": ps[0] if ps else 0})
                elif fin == "J":
                    out.append({"t": "ed", "n": ps[0] if ps else 0})
                elif fin in "hl" and ps == [4]:
                    out.append({"t": "irm", "on": fin == "h"})
                elif fin in "ABCD":
                    out.append({"t": {"A": "cuu", "B": "cud", "C": "cuf", "D": "cub"}[fin], "n": (ps[0] if ps and ps[0] else 1)})
                elif fin == "@":
                    out.append({"t": "ich", "n": ps[0] if ps else 1})
                else:
                    out.append({"t": "unknown", "s": m.group(0)})
                continue
            if i + 2 < n and s[i + 1] in "()":
                out.append({"t": "desig", "g": 0 if s[i + 1] == "(" else 1, "set": s[i + 2]})
                i += 3
                continue
            if i + 1 < n and s[i + 1] in "=>":
                out.append({"t": "keypad", "app": s[i + 1] == "="})
                i += 2
                continue
            out.append({"t": "unknown", "s": s[i:i + 4]})
            i += 1
            continue
        if ch == "\x0e":
            out.append({"t": "so"})
        elif ch == "\x0f":
            out.append({"t": "si"})
        elif ch == "\b":
            out.append({"t": "bs"})
        elif ch == "\r":
            out.append({"t": "cr"})
        elif ch == "\n":
            out.append({"t": "lf"})
        elif ord(ch) < 32 or ord(ch) == 127:
            out.append({"t": "unknown", "s": repr(ch)})
        else:
            w = char_width(ch)
            if w == 0:
                out.append({"t": "zw", "c": ord(ch)})
            else:
                out.append({"t": "put", "c": ord(ch), "w": w})
        i += 1
    return out


def colour_index(desc: str, depth: int):
    """Expected terminal colour of a *simple* colour description (names, hN, #rrggbb on exact
    palette values only); -1 = default.  Written independently of urwid's parser."""
    if desc in ("default", ""):
        return -1
    if desc in BASIC:
        return BASIC.index(desc)
    if desc.startswith("h"):
        n = int(desc[1:])
        if depth == 2 ** 24 and n >= 16:
            # true-colour terminals are sent the RGB value xterm's 256-colour palette gives that index
            if n >= 232:
                v = 8 + 10 * (n - 232)
                r = g = b = v
            else:
                st = [0, 95, 135, 175, 215, 255]
                r, g, b = st[(n - 16) // 36], st[((n - 16) % 36) // 6], st[(n - 16) % 6]
            return 2 ** 24 + (r << 16) + (g << 8) + b
        return 1000 + n
    if desc.startswith("#") and len(desc) == 7:
        r, g, b = int(desc[1:3], 16), int(desc[3:5], 16), int(desc[5:7], 16)
        if depth == 2 ** 24:
            return 2 ** 24 + (r << 16) + (g << 8) + b
        steps = [0, 95, 135, 175, 215, 255] if depth == 256 else [0, 0x8B, 0xCD, 0xFF]
        k = len(steps)
        return 1000 + 16 + steps.index(r) * k * k + steps.index(g) * k + steps.index(b)
    raise ValueError(desc)


def spec_to_pen(fg: str, bg: str, depth: int):
    """(fg, bg, flags) a terminal should show for a comma separated foreground spec + background."""
    parts = [p.strip() for p in fg.split(",") if p.strip()]
    flags = sorted(FLAG[p] for p in parts if p in FLAG)
    cols = [p for p in parts if p not in FLAG]
    f = colour_index(cols[0], depth) if cols else -1
    b = colour_index(bg, depth)
    return [f, b, flags]


def project_row(row, encoding: str, pen_of):
    """One canvas content row [(attr, cs, bytes), ...] -> list of cells [c, fg, bg, flags, part]."""
    cells = []
    for attr, cs, bs in row:
        fg, bg, fl = pen_of(attr)
        text = bs.decode(encoding, "replace")
        for ch in text:
            if cs == "0":
                ch = DEC_OF_ALT.get(ch, ch)
            w = char_width(ch)
            if w == 2:
                cells.append([ord(ch), fg, bg, fl, 1])
                cells.append([ord(ch), fg, bg, fl, 2])
            elif w == 1:
                cells.append([ord(ch), fg, bg, fl, 0])
    return cells
