"""C19 — Containers partition the available space exactly and proportionally.

Spec: spec/PartitionOps.tla (relations, one per sentence of the property, + reference allocators),
spec/Partition.tla (TLC: the reference allocators satisfy the relations on every bounded configuration, wrong
allocators are refuted), trace spec spec/PartitionTrace.tla.

The driver builds real Columns / Pile / Padding / Filler / Overlay / GridFlow widgets around probe children that
record every size they are rendered at, asks the real code for its allocation (column_widths, get_item_rows,
padding_values, filler_values, calculate_padding_filler + top_w_size, the painted GridFlow canvas) and records
configuration + allocation as one event.  TLC judges every event against the relations (mode "weak" = the property;
mode "strong" = stronger readings, reported as DIVERGENCE only).  No verdict is computed here.
"""
from __future__ import annotations

import concurrent.futures as cf
import itertools
import json
import random
import threading
import time
import warnings

from .. import tlc

ALIGN_PCT = {"left": 0, "center": 50, "right": 100, "top": 0, "middle": 50, "bottom": 100}


# ------------------------------------------------------------------------------------------------------------
# probe children
# ------------------------------------------------------------------------------------------------------------
_PROBES = {}


def _mk(urwid):
    if "cls" in _PROBES:
        return _PROBES["cls"]
    class Box(urwid.Widget):
        """box + flow probe: as a flow widget it is `nrows` rows high, or ceil(area / cols) when area > 0 (like text)."""

        _sizing = frozenset(["box", "flow"])
        _selectable = False
        no_cache = ["render", "rows"]  # noqa: RUF012

        def __init__(self, log, idx, ch="x", nrows=1, area=0):
            super().__init__()
            self.log, self.idx, self.ch, self.nrows, self.area = log, idx, ch, nrows, area
            self.last_pack = None

        def nat_rows(self, cols):
            if self.area:
                return max(1, -(-self.area // max(cols, 1)))
            return self.nrows

        def rows(self, size, focus=False):
            return self.nat_rows(size[0])

        def render(self, size, focus=False):
            cols = size[0]
            r = size[1] if len(size) > 1 else self.nat_rows(cols)
            self.log.append((self.idx, tuple(size), (cols, r)))
            return urwid.SolidCanvas(self.ch, max(cols, 0), max(r, 0))

    class Fixed(urwid.Widget):
        """fixed-only probe of natural size (ncols, nrows)."""

        _sizing = frozenset(["fixed"])
        _selectable = False
        no_cache = ["render", "rows"]  # noqa: RUF012

        def __init__(self, log, idx, ncols, nrows=1, ch="p"):
            super().__init__()
            self.log, self.idx, self.ch, self.ncols, self.nrows = log, idx, ch, ncols, nrows
            self.last_pack = None

        def pack(self, size=(), focus=False):
            self.last_pack = (self.ncols, self.nrows)
            return self.last_pack

        def render(self, size, focus=False):
            self.log.append((self.idx, tuple(size), (self.ncols, self.nrows)))
            return urwid.SolidCanvas(self.ch, self.ncols, self.nrows)

    class FixedFlow(urwid.Widget):
        """fixed + flow probe (like Text): natural width ncols, narrower when less is offered."""

        _sizing = frozenset(["fixed", "flow"])
        _selectable = False
        no_cache = ["render", "rows"]  # noqa: RUF012

        def __init__(self, log, idx, ncols, nrows=1, ch="q"):
            super().__init__()
            self.log, self.idx, self.ch, self.ncols, self.nrows = log, idx, ch, ncols, nrows
            self.last_pack = None

        def pack(self, size=(), focus=False):
            self.last_offer = size[0] if size else -1
            self.last_pack = (self.ncols if not size else min(self.ncols, size[0]), self.nrows)
            return self.last_pack

        def rows(self, size, focus=False):
            return self.nrows

        def render(self, size, focus=False):
            cols = size[0] if size else self.ncols
            self.log.append((self.idx, tuple(size), (cols, self.nrows)))
            return urwid.SolidCanvas(self.ch, max(cols, 0), self.nrows)

    class RecText(urwid.Text):
        """a REAL text of one unbreakable word (natural width = its length, narrower when less is offered) that records what it is
        asked: the packed child of the Padding docs."""

        def __init__(self, log, idx, ncols):
            super().__init__("w" * ncols)
            self.log, self.idx, self.ncols = log, idx, ncols
            self.last_pack = None
            self.last_offer = -1

        def pack(self, size=(), focus=False):
            self.last_offer = size[0] if size else -1
            self.last_pack = super().pack(size, focus)
            return self.last_pack

        def render(self, size, focus=False):
            canv = super().render(size, focus)
            self.log.append((self.idx, tuple(size), (canv.cols(), canv.rows())))
            return canv

    _PROBES["cls"] = (Box, Fixed, FixedFlow)
    _PROBES["text"] = RecText
    return _PROBES["cls"]


def _ints(seq):
    """JSON-able list of ints; anything that is not an int is reported through `bad`."""
    out, bad = [], ""
    for x in seq:
        if isinstance(x, bool) or not isinstance(x, int):
            bad = f"not_int:{type(x).__name__}"
            out.append(-999)
        else:
            out.append(x)
    return out, bad


def _weight(a, b):
    return a if b == 1 else a / b


def _opts_json(opts):
    return [{"k": k, "a": a, "b": b} for k, a, b in opts]


# ------------------------------------------------------------------------------------------------------------
# rigs: one real widget per trace, one event per measurement
# ------------------------------------------------------------------------------------------------------------
class ColumnsRig:
    """opts: [(kind, a, b)]; pack columns are Fixed (pk 'f') or FixedFlow (pk 'q') probes of natural width a."""

    def __init__(self, opts, d, mw, box=None, pk="f", mode="flow"):
        import urwid

        Box, Fixed, FixedFlow = _mk(urwid)
        self.urwid = urwid
        box = [bool(f) and opts[i][0] != "pack" for i, f in enumerate(box or [])]      # packed probes are not box widgets
        if any(k == "pack" for k, _a, _b in opts):
            mode = "flow"                          # a box-sized Columns wants box children; packed probes are not
        self.cfg = {"opts": [list(o) for o in opts], "d": d, "mw": mw, "box": list(box or []), "pk": pk, "mode": mode}
        self.opts, self.d, self.mw, self.mode = opts, d, mw, mode
        self.log = []
        self.kids = []
        wl = []
        self.build_exc = ""
        for i, (k, a, b) in enumerate(opts):
            if k == "given":
                w = Box(self.log, i)
                wl.append(("given", a, w))
            elif k == "pack":
                w = (Fixed if pk == "f" else FixedFlow)(self.log, i, a)
                wl.append(("pack", w))
            else:
                w = Box(self.log, i)
                wl.append(("weight", _weight(a, b), w))
            self.kids.append(w)
        try:
            self.w = urwid.Columns(wl, dividechars=d, min_width=mw, box_columns=[i for i, f in enumerate(box or []) if f])
        except Exception as ex:  # noqa: BLE001
            self.w = None
            self.build_exc = type(ex).__name__

    def measure(self, f, avail):
        n = len(self.opts)
        e = {"t": "columns", "opts": _opts_json(self.opts), "own": [0] * n, "d": self.d, "mw": self.mw, "f": f + 1, "avail": avail,
             "exc": self.build_exc, "rexc": "", "widths": [], "rw": [0] * n, "rendered": 0, "sizes": []}
        size = (avail,) if self.mode == "flow" else (avail, 2)
        if self.w is not None:
            try:
                self.w.focus_position = f
                widths = list(self.w.column_widths(size, True))
                e["widths"], bad = _ints(widths)
                if bad:
                    e["exc"] = bad
            except Exception as ex:  # noqa: BLE001
                e["exc"] = type(ex).__name__
        for i, (k, a, _b) in enumerate(self.opts):
            if k == "given":
                e["own"][i] = a
            elif k == "pack":
                lp = self.kids[i].last_pack
                e["own"][i] = lp[0] if lp else a
        if e["exc"]:
            return e
        sizes = []
        try:
            _w, _h, args = self.w.get_column_sizes(size, True)
            sizes += [list(a) for a in args]
            del self.log[:]
            self.urwid.CanvasCache.invalidate(self.w)      # only the canvas: the cached widths stay in play
            self.w.render(size, True)
            e["rendered"] = 1
        except Exception as ex:  # noqa: BLE001
            e["rexc"] = type(ex).__name__
        for idx, sz, (cols, _r) in self.log:
            sizes.append(list(sz))
            if e["rendered"]:
                e["rw"][idx] = cols
        flat = [x for s in sizes for x in s]
        _chk, bad = _ints(flat)
        if bad:
            e["rexc"] = bad
            e["rendered"] = 0
            sizes = []
        e["sizes"] = sizes
        return e


class PileRig:
    """box-sized Pile: given -> box probe, pack -> flow probe of `a` rows (or area-based), weight -> box probe."""

    def __init__(self, opts, maxcol=3):
        import urwid

        Box, _Fixed, _FixedFlow = _mk(urwid)
        self.urwid = urwid
        self.cfg = {"opts": [list(o) for o in opts], "maxcol": maxcol}
        self.opts, self.maxcol = opts, maxcol
        self.log, self.kids, wl = [], [], []
        self.build_exc = ""
        for i, (k, a, b) in enumerate(opts):
            if k == "given":
                w = Box(self.log, i)
                wl.append(("given", a, w))
            elif k == "pack":
                w = Box(self.log, i, nrows=a)
                wl.append(("pack", w))
            else:
                w = Box(self.log, i)
                wl.append(("weight", _weight(a, b), w))
            self.kids.append(w)
        try:
            self.w = urwid.Pile(wl)
        except Exception as ex:  # noqa: BLE001
            self.w = None
            self.build_exc = type(ex).__name__

    def measure(self, f, avail):
        n = len(self.opts)
        e = {"t": "pile", "opts": _opts_json(self.opts), "own": [a if k != "weight" else 0 for k, a, _b in self.opts], "f": f + 1,
             "avail": avail, "exc": self.build_exc, "rexc": "", "rows": [], "rr": [0] * n, "rendered": 0, "sizes": []}
        size = (self.maxcol, avail)
        if self.w is None:
            return e
        try:
            self.w.focus_position = f
            rows = list(self.w.get_item_rows(size, True))
            e["rows"], bad = _ints(rows)
            if bad:
                e["exc"] = bad
        except Exception as ex:  # noqa: BLE001
            e["exc"] = type(ex).__name__
        if e["exc"]:
            return e
        sizes = []
        try:
            _w, _h, args = self.w.get_rows_sizes(size, True)
            sizes += [list(a) for a in args]
            del self.log[:]
            self.urwid.CanvasCache.invalidate(self.w)
            self.w.render(size, True)
            e["rendered"] = 1
        except Exception as ex:  # noqa: BLE001
            e["rexc"] = type(ex).__name__
        for idx, sz, (_c, r) in self.log:
            sizes.append(list(sz))
            if e["rendered"]:
                e["rr"][idx] = r
        _chk, bad = _ints([x for s in sizes for x in s])
        if bad:
            e["rexc"], e["rendered"], sizes = bad, 0, []
        e["sizes"] = sizes
        return e


def _align_arg(a):
    return a if isinstance(a, str) else ("relative", a)


def _align_pct(a):
    return ALIGN_PCT[a] if isinstance(a, str) else a


def _obsolete(align, L, R, names):
    """The obsolete spelling of a fixed margin: align=('fixed left', n) means align='left', left=n (likewise right / top / bottom).
    Returns (align argument, left argument, right argument, 1 when the obsolete spelling was used)."""
    if align in ("left", "top"):
        return (names[0], L), 0, R, 1
    if align in ("right", "bottom"):
        return (names[1], R), L, 0, 1
    return _align_arg(align), L, R, 0


def _axis(avail, align, kind, amt, own, mn, L, R, clip, l, r, child, nat=None, flex=False, trim=False):
    """trim: the decoration does not clip through negative margins, it lets the child overflow and trims its canvas (Filler);
    nat: the natural extent of a packed / fixed child (taken from the probe's configuration, NOT from what it answered when the
    decoration asked it with a size of the decoration's choosing); flex: a packed child that shrinks to what it is offered."""
    return {"c": {"avail": avail, "align": _align_pct(align), "kind": kind, "amt": amt, "own": own, "nat": own if nat is None else nat,
                  "flex": bool(flex), "min": -1 if mn is None else mn, "L": L, "R": R, "clip": bool(clip), "trim": bool(trim)}, "l": l, "r": r, "child": child}


def pad_event(p):
    """p: dict(widget='padding', align, kind, amt, min, L, R, avail, box) -> event from a real Padding."""
    import urwid

    Box, Fixed, FixedFlow = _mk(urwid)
    log = []
    kind, amt = p["kind"], p["amt"]
    if kind == "given":
        child, width = Box(log, 0), amt
    elif kind == "relative":
        child, width = Box(log, 0), ("relative", amt)
    elif kind == "pack":
        child, width = (_PROBES["text"] if p.get("child") == "text" else FixedFlow)(log, 0, amt), "pack"
    else:
        child, width = Fixed(log, 0, amt), "clip"
    e = {"t": "pad", "widget": "padding", "exc": "", "rexc": "", "sizes": [], "offer": -1, "fixed": 0, "obs": 0,
         "text_child": int(kind == "pack" and p.get("child") == "text")}
    size = (p["avail"], 2) if p.get("box") and kind in ("given", "relative") else (p["avail"],)
    l = r = 0
    own = amt
    avail = p["avail"]
    try:
        al, La, Ra = _align_arg(p["align"]), p["L"], p["R"]
        if p.get("obs"):
            al, La, Ra, e["obs"] = _obsolete(p["align"], p["L"], p["R"], ("fixed left", "fixed right"))
        w = urwid.Padding(child, al, width, p["min"], La, Ra)
        if p.get("fixed") and kind in ("given", "pack"):
            size = ()
            avail = w.pack(size, True)[0]      # the columns a fixed Padding claims for itself
            (avail,), bad = _ints([avail])
            if bad:
                e["exc"] = bad
            e["fixed"] = 1
        l, r = w.padding_values(size, True)
        (l, r), bad = _ints([l, r])
        if bad:
            e["exc"] = bad
        if kind in ("pack", "clip") and child.last_pack:
            own = child.last_pack[0]
            e["offer"] = getattr(child, "last_offer", -1)
    except Exception as ex:  # noqa: BLE001
        e["exc"] = type(ex).__name__
    got = avail - l - r if kind != "clip" else own
    if not e["exc"]:
        try:
            w.render(size, True)
        except Exception as ex:  # noqa: BLE001
            e["rexc"] = type(ex).__name__
        for _idx, sz, (cols, _rows) in log:
            e["sizes"].append(list(sz))
            got = cols
    # the requested size of a packed / clipped child is its natural width `amt`; `own` is only what it answered to the Padding
    e.update(_axis(avail, p["align"], kind, amt, own, p["min"], p["L"], p["R"], kind == "clip", l, r, got, nat=amt, flex=kind == "pack"))
    return e


def fill_event(p):
    """p: dict(widget='filler', align(valign), kind given|pack|relative, amt, min, L(top), R(bottom), avail, flow) -> event."""
    import urwid

    Box, _Fixed, _FixedFlow = _mk(urwid)
    log = []
    kind, amt = p["kind"], p["amt"]
    if kind == "given":
        child, height = Box(log, 0), amt
    elif kind == "relative":
        child, height = Box(log, 0), ("relative", amt)
    else:
        child, height = Box(log, 0, nrows=amt), "pack"
    e = {"t": "pad", "widget": "filler", "exc": "", "rexc": "", "sizes": [], "obs": 0}
    t = b = 0
    avail = p["avail"]
    try:
        al, La, Ra = _align_arg(p["align"]), p["L"], p["R"]
        if p.get("obs"):
            al, La, Ra, e["obs"] = _obsolete(p["align"], p["L"], p["R"], ("fixed top", "fixed bottom"))
        w = urwid.Filler(child, al, height, p["min"], La, Ra)
        if p.get("flow") and kind in ("given", "pack"):
            size = (3,)
            avail = w.rows(size, True)      # the space a flow Filler claims for itself
        else:
            size = (3, avail)
        t, b = w.filler_values(size, True)
        (t, b), bad = _ints([t, b])
        if bad:
            e["exc"] = bad
    except Exception as ex:  # noqa: BLE001
        e["exc"] = type(ex).__name__
    got = amt if kind == "pack" else avail - t - b
    if not e["exc"]:
        try:
            w.render(size, True)
        except Exception as ex:  # noqa: BLE001
            e["rexc"] = type(ex).__name__
        for _idx, sz, (_cols, rows) in log:
            e["sizes"].append(list(sz))
            got = rows
    e.update(_axis(avail, p["align"], kind, amt, amt, p["min"] if kind == "relative" else None, p["L"], p["R"], kind == "pack", t, b, got,
                   trim=kind == "pack"))
    return e


def overlay_event(p):
    """p: dict(W, H, align, wkind, wamt, minw, L, R, valign, hkind, hamt, minh, T, B, area) -> event from a real Overlay."""
    import urwid

    Box, Fixed, _FixedFlow = _mk(urwid)
    log = []
    wkind, hkind = p["wkind"], p["hkind"]
    if wkind == "pack":                         # fixed top widget: both extents are its own
        top = Fixed(log, 0, p["wamt"], max(1, p["hamt"]))
        width = height = "pack"
        hkind = "pack"
    else:
        width = p["wamt"] if wkind == "given" else ("relative", p["wamt"])
        if hkind == "pack":                     # flow top widget, rows depend on the width when area > 0
            top = Box(log, 0, nrows=max(1, p["hamt"]), area=p.get("area", 0))
            height = "pack"
        else:
            top = Box(log, 0)
            height = p["hamt"] if hkind == "given" else ("relative", p["hamt"])
    e = {"t": "overlay", "exc": "", "rexc": "", "sizes": [], "rows_dep": 0, "obs": 0}
    W, H = p["W"], p["H"]
    l = r = t = b = 0
    cw, chh = W, H
    ownw, ownh = p["wamt"], p["hamt"]
    try:
        al, La, Ra, val, Ta, Ba = _align_arg(p["align"]), p["L"], p["R"], _align_arg(p["valign"]), p["T"], p["B"]
        if p.get("obs"):
            al, La, Ra, o1 = _obsolete(p["align"], p["L"], p["R"], ("fixed left", "fixed right"))
            val, Ta, Ba, o2 = _obsolete(p["valign"], p["T"], p["B"], ("fixed top", "fixed bottom"))
            e["obs"] = o1 + o2
        w = urwid.Overlay(top, urwid.SolidFill("."), al, width, val, height, p["minw"], p["minh"], La, Ra, Ta, Ba)
        l, r, t, b = w.calculate_padding_filler((W, H), True)
        (l, r, t, b), bad = _ints([l, r, t, b])
        if bad:
            e["exc"] = bad
        ts = w.top_w_size((W, H), l, r, t, b)
        _chk, bad = _ints(ts)
        if bad:
            e["exc"] = bad
        else:
            e["sizes"].append(list(ts))
            if len(ts) == 0:
                cw, chh = top.ncols, top.nrows
                ownw, ownh = cw, chh
            elif len(ts) == 1:
                cw = ts[0]
                chh = top.nat_rows(cw)
                ownh = chh
                e["rows_dep"] = int(top.nat_rows(W) != chh)
            else:
                cw, chh = ts
    except Exception as ex:  # noqa: BLE001
        e["exc"] = type(ex).__name__
    if not e["exc"]:
        try:
            w.render((W, H), True)
        except Exception as ex:  # noqa: BLE001
            e["rexc"] = type(ex).__name__
        for _idx, sz, _dims in log:
            e["sizes"].append(list(sz))
    fixed_top = wkind == "pack"
    e["h"] = _axis(W, p["align"], "clip" if fixed_top else wkind, p["wamt"], ownw, None if fixed_top or wkind == "given" else p["minw"],
                   p["L"], p["R"], fixed_top, l, r, cw)
    e["v"] = _axis(H, p["valign"], "clip" if fixed_top else hkind, p["hamt"], ownh, p["minh"] if hkind == "relative" and not fixed_top else None,
                   p["T"], p["B"], fixed_top or hkind == "pack", t, b, chh)
    return e


def grid_event(p):
    """p: dict(n, cw, hsep, vsep, align, avail, focus, tall) -> event from a real GridFlow painted by letter probes."""
    import urwid

    Box, _Fixed, _FixedFlow = _mk(urwid)
    log = []
    n = p["n"]
    cells = [Box(log, i, ch=chr(65 + i), nrows=2 if (p.get("tall", 0) >> i) & 1 else 1) for i in range(n)]
    e = {"t": "grid", "n": n, "cw": p["cw"], "hsep": p["hsep"], "vsep": p["vsep"], "avail": p["avail"], "exc": "", "rexc": "",
         "cols": [-1] * n, "pw": [0] * n, "xs": [-1] * n, "ys": [-1] * n, "sizes": []}
    try:
        g = urwid.GridFlow(cells, p["cw"], p["hsep"], p["vsep"], p["align"])
        g.focus_position = p.get("focus", 0)
        canv = g.render((p["avail"],), True)
        text = [bytes(t).decode("ascii", "replace") for t in canv.text]
        for idx, sz, (cols, _r) in log:
            e["sizes"].append(list(sz))
            e["cols"][idx] = cols
        for i in range(n):
            ch = chr(65 + i)
            for y, line in enumerate(text):
                x = line.find(ch)
                if x >= 0:
                    e["xs"][i], e["ys"][i] = x, y
                    e["pw"][i] = len(line) - len(line.replace(ch, ""))
                    break
    except Exception as ex:  # noqa: BLE001
        e["exc"] = type(ex).__name__
    return e


# ------------------------------------------------------------------------------------------------------------
# domains
# ------------------------------------------------------------------------------------------------------------
def option_lists(n, amounts, kinds=("given", "pack", "weight")):
    one = [(k, a, 1) for k in kinds for a in amounts]
    return itertools.product(one, repeat=n)


def columns_trace(opts, d, mw, steps, box=None, pk="f", mode="flow"):
    rig = ColumnsRig(opts, d, mw, box=box, pk=pk, mode=mode)
    return {"kind": "columns", "cfg": rig.cfg, "steps": [list(s) for s in steps], "ev": [rig.measure(f, av) for f, av in steps]}


def pile_trace(opts, steps, maxcol=3):
    rig = PileRig(opts, maxcol)
    return {"kind": "pile", "cfg": rig.cfg, "steps": [list(s) for s in steps], "ev": [rig.measure(f, av) for f, av in steps]}


def single_trace(kind, params):
    fn = {"padding": pad_event, "filler": fill_event, "overlay": overlay_event, "grid": grid_event}[kind]
    return {"kind": kind, "cfg": {}, "steps": params, "ev": [fn(p) for p in params]}


def rand_opts(rng, n, maxamt, maxw, rational):
    out = []
    for _ in range(n):
        k = rng.choice(["given", "pack", "weight", "weight"])
        if k == "weight":
            out.append((k, rng.randint(1, maxw), rng.choice([1, 1, 2, 3, 4]) if rational else 1))
        else:
            out.append((k, rng.randint(1, maxamt), 1))
    return out


ALIGNS_H = ["left", "center", "right", 0, 25, 33, 50, 75, 100]
ALIGNS_V = ["top", "middle", "bottom", 0, 25, 33, 50, 75, 100]


def build_traces(chk):
    quick = chk.tier == "quick"
    rng = chk.rng

    # ---- Columns: exhaustive for <= 2 columns, every focus, every available width ---------------------------------
    amounts = range(0, 4) if quick else range(0, 5)
    avs = list(range(0, 10)) if quick else list(range(0, 13))
    i = 0
    for n in (1, 2):
        for opts in option_lists(n, amounts):
            for d in (0, 1, 2):
                for mw in (1, 2):
                    if quick and (d, mw) in ((0, 2), (2, 2)) and n == 2:
                        continue
                    i += 1
                    steps = [(f, av) for f in range(n) for av in avs]
                    steps.append(steps[-1])                       # the same question twice: cached answer
                    yield (columns_trace(opts, d, mw, steps, pk="fq"[i % 2], mode="box" if i % 5 == 0 else "flow",
                                      box=[(i >> k) & 1 for k in range(n)] if i % 3 == 0 else None))
    # ---- Columns: three columns, sampled in quick, exhaustive in thorough -----------------------------------------
    three = list(option_lists(3, amounts))
    if quick:
        three = rng.sample(three, 160)
    for opts in three:
        for d, mw in (rng.choice([(0, 1), (1, 1), (2, 1), (1, 2), (2, 2), (0, 2)]),):
            i += 1
            fs = range(3) if not quick else (rng.randrange(3),)
            steps = [(f, av) for f in fs for av in range(0, 13)]
            yield (columns_trace(opts, d, mw, steps, pk="fq"[i % 2], mode="box" if i % 5 == 0 else "flow",
                              box=[(i >> k) & 1 for k in range(3)] if i % 3 == 0 else None))
    # ---- Columns: random beyond (more columns, larger sizes, rational weights) ------------------------------------
    for _ in range(200 if quick else 8000):
        n = rng.randint(3, 6)
        opts = rand_opts(rng, n, 9, 20, True)
        if rng.random() < 0.15:      # zero sizes / zero weights (outside the statement: weak clauses only)
            j = rng.randrange(n)
            opts[j] = (opts[j][0], 0, 1)
        steps = [(rng.randrange(n), rng.choice([rng.randint(0, 20), rng.randint(0, 80)])) for _ in range(10)]
        yield (columns_trace(opts, rng.randint(0, 3), rng.randint(1, 3), steps, pk=rng.choice("fq"), mode=rng.choice(["flow", "flow", "box"]),
                          box=[rng.random() < 0.3 for _ in range(n)]))

    # ---- Pile: exhaustive for <= 3 rows (quick: <= 2 + sample of 3), random beyond ---------------------------------
    def worth(opts, idx):      # a box Pile without a positive weight raises the documented PileError: a few of those are enough
        return any(k == "weight" and a for k, a, _b in opts) or idx % 8 == 0

    for n in (1, 2):
        for idx, opts in enumerate(option_lists(n, amounts)):
            if worth(opts, idx):
                yield (pile_trace(opts, [(f, av) for f in range(n) for av in avs][:: n]))
    three = [o for idx, o in enumerate(option_lists(3, amounts)) if worth(o, idx)]
    if quick:
        three = rng.sample(three, 200)
    for opts in three:
        yield (pile_trace(opts, [(rng.randrange(3), av) for av in range(0, 13)]))
    for _ in range(150 if quick else 5000):
        n = rng.randint(2, 6)
        opts = rand_opts(rng, n, 6, 20, True)
        if rng.random() < 0.2:
            j = rng.randrange(n)
            opts[j] = (opts[j][0], 0, 1)
        yield (pile_trace(opts, [(rng.randrange(n), rng.choice([rng.randint(0, 15), rng.randint(0, 60)])) for _ in range(8)], maxcol=rng.randint(1, 5)))

    # ---- Padding / Filler: exhaustive small ranges ---------------------------------------------------------------
    pavs = range(0, 10) if quick else range(0, 13)
    margins = [(0, 0), (1, 0), (0, 2), (1, 1), (2, 2)] if quick else [(a, b) for a in range(3) for b in range(3)]
    kinds_amts = ([("given", a) for a in (0, 1, 3, 5)] + [("pack", a) for a in (1, 2, 4, 7)] + [("clip", a) for a in (1, 3, 6)]
                  + [("relative", a) for a in (0, 25, 50, 75, 100)])
    if not quick:
        kinds_amts = ([("given", a) for a in range(0, 8)] + [("pack", a) for a in range(1, 8)] + [("clip", a) for a in range(1, 8)]
                      + [("relative", a) for a in (0, 10, 25, 33, 50, 75, 90, 100)])
    mins = [None, 2] if quick else [None, 1, 2, 3]
    j = 0
    for (kind, amt) in kinds_amts:
        for mn in mins:
            for (L, R) in margins:
                j += 1
                aligns = [ALIGNS_H[(j + k) % len(ALIGNS_H)] for k in ((0, 4, 7) if quick else (0, 1, 2, 4, 5, 7))]
                yield (single_trace("padding", [dict(kind=kind, amt=amt, min=mn, L=L, R=R, align=al, avail=av, box=(j + av) % 4 == 0)
                                             for al in aligns for av in pavs]))
                if kind == "pack":       # the packed child is a real Text (one word): packed against the room beside the fixed margins
                    yield (single_trace("padding", [dict(kind=kind, amt=amt, min=mn, L=L, R=R, align=al, avail=av, child="text")
                                                 for al in aligns[:2] for av in pavs]))
                # the Padding as a fixed widget (size ()): the space is what it claims for itself.  Only without min_width: with one
                # render(()) puts the extra columns to the right of the child itself, padding_values(()) does not show them
                if kind in ("given", "pack") and mn is None:
                    yield (single_trace("padding", [dict(kind=kind, amt=amt, min=mn, L=L, R=R, align=al, avail=0, fixed=True,
                                                         child="text" if j % 2 else None) for al in aligns]))
                # the obsolete spellings ('fixed left', n) / ('fixed right', n) / ('fixed top', n) / ('fixed bottom', n): the same
                # configuration written differently, judged against the same record
                yield (single_trace("padding", [dict(kind=kind, amt=amt, min=mn, L=L, R=R, align=al, avail=av, obs=True)
                                                for al in ("left", "right") for av in list(pavs)[:: (2 if quick else 1)]]))
                if kind != "clip":
                    yield (single_trace("filler", [dict(kind=kind, amt=amt, min=mn, L=L, R=R, align=al, avail=av, obs=True)
                                                   for al in ("top", "bottom") for av in list(pavs)[:: (2 if quick else 1)]]))
                if kind != "clip":
                    valigns = [ALIGNS_V[(j + k) % len(ALIGNS_V)] for k in ((1, 5, 8) if quick else (0, 1, 3, 5, 6, 8))]
                    yield (single_trace("filler", [dict(kind=kind, amt=amt, min=mn, L=L, R=R, align=al, avail=av, flow=(j + av) % 7 == 0)
                                                for al in valigns for av in pavs]))
    # random beyond
    for _ in range(60 if quick else 2000):
        ps, fs = [], []
        for _k in range(25):
            kind = rng.choice(["given", "pack", "clip", "relative"])
            amt = rng.randint(0, 120) if kind == "relative" else rng.randint(0 if kind == "given" else 1, 40)
            base = dict(kind=kind, amt=amt, min=rng.choice([None, None, rng.randint(1, 12)]), L=rng.randint(0, 6), R=rng.randint(0, 6),
                        align=rng.choice(["left", "center", "right", rng.randint(0, 100)]), avail=rng.randint(0, 60))
            if kind in ("pack", "clip") and rng.random() < 0.5:
                # a packed / clipped child that fits into the line but not beside the (non-zero) fixed margins
                L, R = rng.choice([(rng.randint(1, 6), 0), (0, rng.randint(1, 6)), (rng.randint(1, 6), rng.randint(1, 6))])
                room = rng.randint(0, 30)
                avail = room + L + R
                base.update(L=L, R=R, avail=avail, amt=rng.randint(room + 1, avail + (2 if rng.random() < 0.2 else 0)),
                            min=rng.choice([None, None, None, rng.randint(1, avail + 1)]))
            if rng.random() < 0.15:
                base.update(obs=True, align=rng.choice(["left", "right"]))
            ps.append(dict(base, box=rng.random() < 0.3, child="text" if kind == "pack" and rng.random() < 0.4 else None,
                           fixed=kind in ("given", "pack") and base["min"] is None and rng.random() < 0.08))
            if kind != "clip":
                al = base["align"]
                fs.append(dict(base, align={"left": "top", "center": "middle", "right": "bottom"}.get(al, al), flow=rng.random() < 0.1))
        yield (single_trace("padding", ps))
        yield (single_trace("filler", fs))

    # ---- Overlay: both axes --------------------------------------------------------------------------------------
    ovs = []
    wspecs = [("given", 0), ("given", 2), ("given", 5), ("relative", 50), ("relative", 100), ("pack", 3)]
    hspecs = [("given", 1), ("given", 3), ("relative", 50), ("relative", 100), ("pack", 1), ("pack", 2)]
    sizes = [(W, H) for W in ((0, 1, 3, 4, 6, 9) if quick else range(0, 11)) for H in ((0, 1, 2, 4, 7) if quick else range(0, 9))]
    k = 0
    for (wk, wa) in wspecs:
        for (hk, ha) in hspecs:
            for (W, H) in sizes:
                for (mnw, mnh, L, R, T, B) in (((None, None, 0, 0, 0, 0), (3, 2, 1, 0, 0, 1), (None, 3, 1, 2, 1, 1), (4, None, 0, 1, 2, 0))[k % 2::2] if quick else
                                               ((None, None, 0, 0, 0, 0), (3, 2, 1, 0, 0, 1), (None, 3, 1, 2, 1, 1), (4, None, 0, 1, 2, 0))):
                    k += 1
                    al = ALIGNS_H[k % len(ALIGNS_H)]
                    val = ALIGNS_V[(k // 2) % len(ALIGNS_V)]
                    ovs.append(dict(W=W, H=H, align=al, wkind=wk, wamt=wa, minw=mnw, L=L, R=R, valign=val, hkind=hk, hamt=ha, minh=mnh,
                                    T=T, B=B, area=(6 if k % 2 else 0) if hk == "pack" else 0))
    # a fixed top widget (width='pack', height='pack') wider / taller than the space, with and without fixed margins, every alignment
    for (wa, ha) in ((5, 1), (3, 4), (7, 5)) if quick else ((5, 1), (3, 4), (7, 5), (12, 2), (2, 9)):
        for (W, H) in ((8, 3), (4, 3), (6, 2), (2, 1)) if quick else [(W, H) for W in (1, 2, 4, 6, 8) for H in (1, 2, 3, 6)]:
            for (L, R, T, B) in ((0, 0, 0, 0), (2, 0, 0, 1), (0, 1, 1, 0), (1, 1, 1, 1)):
                for al, val in zip(ALIGNS_H, ALIGNS_V):
                    ovs.append(dict(W=W, H=H, align=al, wkind="pack", wamt=wa, minw=None, L=L, R=R, valign=val, hkind="pack", hamt=ha,
                                    minh=None, T=T, B=B, area=0))
    # the obsolete ('fixed left' | 'fixed right' | 'fixed top' | 'fixed bottom', n) spellings of align / valign
    for (wk, wa) in wspecs:
        for (hk, ha) in hspecs[:: (2 if quick else 1)]:
            for (W, H) in ((6, 4), (9, 7), (3, 2)):
                for al in ("left", "right"):
                    for val in ("top", "bottom"):
                        k += 1
                        ovs.append(dict(W=W, H=H, align=al, wkind=wk, wamt=wa, minw=None, L=1 + k % 2, R=k % 3, valign=val, hkind=hk, hamt=ha,
                                        minh=None, T=k % 2, B=1 + k % 2, area=0, obs=True))
    for _ in range(600 if quick else 30000):
        wk = rng.choice(["given", "relative", "pack"])
        hk = rng.choice(["given", "relative", "pack"])
        ovs.append(dict(W=rng.randint(0, 40), H=rng.randint(0, 20), align=rng.choice(["left", "center", "right", rng.randint(0, 100)]),
                        wkind=wk, wamt=rng.randint(0, 110) if wk == "relative" else rng.randint(0 if wk == "given" else 1, 30),
                        minw=rng.choice([None, rng.randint(1, 10)]), L=rng.randint(0, 4), R=rng.randint(0, 4),
                        valign=rng.choice(["top", "middle", "bottom", rng.randint(0, 100)]), hkind=hk,
                        hamt=rng.randint(0, 110) if hk == "relative" else rng.randint(1, 12), minh=rng.choice([None, rng.randint(1, 6)]),
                        T=rng.randint(0, 3), B=rng.randint(0, 3), area=rng.choice([0, 0, rng.randint(2, 40)])))
        if rng.random() < 0.1:
            ovs[-1].update(obs=True, align=rng.choice(["left", "right"]), valign=rng.choice(["top", "bottom"]))
    for a in range(0, len(ovs), 40):
        yield (single_trace("overlay", ovs[a:a + 40]))

    # ---- GridFlow -------------------------------------------------------------------------------------------------
    gs = []
    for n in range(1, 6 if quick else 7):
        for cw in (1, 2, 3, 5):
            for hsep in (0, 1, 2):
                for vsep in (0, 1):
                    for av in (range(1, 13) if quick else range(1, 17)):
                        k += 1
                        gs.append(dict(n=n, cw=cw, hsep=hsep, vsep=vsep, align=["left", "center", "right"][k % 3], avail=av, focus=k % n,
                                       tall=k % (1 << n) if k % 3 == 0 else 0))
    for _ in range(200 if quick else 8000):
        n = rng.randint(1, 8)
        gs.append(dict(n=n, cw=rng.randint(1, 12), hsep=rng.randint(0, 4), vsep=rng.randint(0, 2), align=rng.choice(["left", "center", "right"]),
                       avail=rng.randint(1, 70), focus=rng.randrange(n), tall=rng.getrandbits(n)))
    for a in range(0, len(gs), 40):
        yield (single_trace("grid", gs[a:a + 40]))


# ------------------------------------------------------------------------------------------------------------
# verdict plumbing
# ------------------------------------------------------------------------------------------------------------
def _sig(tr, e, why):
    clause, _, where = why.partition("@")
    sig = {"widget": e.get("widget", e["t"]), "at": where or "-", "exc": e.get("exc", "")}
    if e["t"] in ("columns", "pile"):
        opts = e["opts"]
        shown = e["widths"] if e["t"] == "columns" else e["rows"]
        if where == "render":
            shown = e["rw"] if e["t"] == "columns" else e["rr"]
        if e["t"] == "columns":      # the columns that share: weighted and shown
            wsh = [i for i, o in enumerate(opts) if o["k"] == "weight" and i < len(shown) and shown[i] > 0]
        else:                        # a Pile keeps every item: all positively weighted rows share
            wsh = [i for i, o in enumerate(opts) if o["k"] == "weight" and o["a"] >= 1 and i < len(shown)]
        sig["n"] = len(opts)
        sig["n_weighted_shown"] = len(wsh)
        sig["zero_sized"] = int(any((o["k"] != "weight" and e["own"][i] == 0) or (o["k"] == "weight" and o["a"] == 0) for i, o in enumerate(opts)))
        # how far the worst column is from its exact share, in hundredths of a column (descriptor for finding signatures only)
        dev = 0
        if wsh:
            den = 1
            for i in wsh:
                den *= opts[i]["b"]
            wi = {i: opts[i]["a"] * den // opts[i]["b"] for i in wsh}
            tot = sum(wi.values())
            g = sum(shown[i] for i in wsh)
            if tot:
                dev = max(abs(shown[i] * tot - g * wi[i]) * 100 // tot for i in wsh)
        sig["dev_x100"] = dev
    elif e["t"] == "overlay":
        sig["wkind"], sig["hkind"] = e["h"]["c"]["kind"], e["v"]["c"]["kind"]
        sig["rows_dep"] = e["rows_dep"]
    elif e["t"] == "pad":
        sig["kind"] = e["c"]["kind"]
        sig["fits"] = int(e["child"] + e["c"]["L"] + e["c"]["R"] <= e["c"]["avail"])
    elif e["t"] == "grid":
        sig["narrow"] = int(e["avail"] < e["cw"])
    return clause, sig


def _handle(chk, traces, res):
    for ti, l, why in res.rejects:
        tr = traces[ti]
        e = tr["ev"][l - 1]
        clause, sig = _sig(tr, e, why)
        chk.reject(f"C19.{clause}", sig, {"kind": tr["kind"], "cfg": tr["cfg"], "steps": tr["steps"][:l], "observed": e})


def _divergences(chk, evs, jobs):
    """Second TLC pass with the stronger readings; every rejection is a DIVERGENCE, never a violation."""
    singles = [{"ev": [e]} for e in evs]
    res = tlc.validate("PartitionTrace", singles, batch_events=30000, jobs=jobs, timeout=1500, env={"C19_MODE": "strong"})
    chk.add_tv("TV_PartitionTrace_strong_readings", res)
    for ti, _l, why in res.rejects:
        e = evs[ti]
        chk.divergence(f"{e.get('widget', e['t'])}.{why}", {k: e[k] for k in e if k != "sizes"})


MC_CFG = """CONSTANTS MaxItems = {n} MaxAmount = {a} MaxDiv = {d} MaxMinWidth = 2 MaxAvail = {av} MaxMargin = 2
SPECIFICATION Spec
INVARIANT ColOK
INVARIANT PileOK
INVARIANT PadRefOK
INVARIANT OvlOK
INVARIANT GridRefOK
CHECK_DEADLOCK FALSE
"""


NEEDED = ("columns.trailing_columns_dropped", "columns.left_columns_dropped", "columns.proportional_judged", "columns.min_width_intervenes",
          "columns.dividers_between_visible", "columns.rendered", "columns.cached_answer", "pile.rendered", "pile.fixed_rows_overflow",
          "padding.given.does_not_fit", "padding.relative.fits", "padding.clip.does_not_fit", "padding.align_split_nontrivial",
          "filler.align_split_nontrivial", "filler.pack.does_not_fit", "overlay.flow_rows_depend_on_width", "overlay.clipxclip", "grid.multi_row",
          "padding.pack.natural_exceeds_room_beside_margins", "padding.pack.natural_exceeds_room_min_size_intervenes",
          "padding.clip.natural_exceeds_room_beside_margins", "filler.pack.natural_exceeds_room_beside_margins",
          "overlay.clip.natural_exceeds_room_beside_margins", "overlay.pack.natural_exceeds_room_beside_margins",
          "padding.pack.text_child", "padding.fixed_sizing",
          "padding.obsolete_fixed_left", "padding.obsolete_fixed_right", "filler.obsolete_fixed_top", "filler.obsolete_fixed_bottom",
          "filler.obsolete_fixed_bottom.spare_rows", "overlay.obsolete_fixed_margin_spelling", "overlay.fixed_top_wider_than_space",
          "overlay.fixed_top_taller_than_space", "padding.clip.wider_than_space", "filler.pack.taller_than_space")


def _beside_margins(c, widget, cc):
    """a packed / clipped child whose natural extent fits into the space but not beside the non-zero fixed margins"""
    if cc["kind"] in ("pack", "clip") and cc["L"] + cc["R"] > 0 and cc["avail"] - cc["L"] - cc["R"] < cc["nat"] <= cc["avail"]:
        c(f"{widget}.{cc['kind']}.natural_exceeds_room_beside_margins")
        if cc["flex"] and cc["min"] > max(0, cc["avail"] - cc["L"] - cc["R"]):
            c(f"{widget}.{cc['kind']}.natural_exceeds_room_min_size_intervenes")


def _coverage(counts, nontriv, traces):
    def c(k):
        counts[k] = counts.get(k, 0) + 1

    for tr in traces:
        if tr["kind"] == "columns":
            for a, b in zip(tr["steps"], tr["steps"][1:]):
                if a == b:
                    c("columns.cached_answer")
        for e in tr["ev"]:
            t = e["t"]
            c(f"{e.get('widget', t)}.events")
            if e.get("exc"):
                c(f"{e.get('widget', t)}.raised")
                continue
            if t == "columns":
                opts, w = e["opts"], e["widths"] + [0] * (len(e["opts"]) - len(e["widths"]))
                vis = [i for i, x in enumerate(w) if x > 0]
                wsh = [i for i in vis if opts[i]["k"] == "weight"]
                if len(e["widths"]) < len(opts):
                    c("columns.trailing_columns_dropped")
                if any(x == 0 for x in e["widths"][: e["f"] - 1]) and vis:
                    c("columns.left_columns_dropped")
                if w[e["f"] - 1] == 0:
                    c("columns.focus_not_shown")
                if wsh:
                    c("columns.fill_exactly_when_weighted_shown")
                if len(wsh) >= 2 and all(w[i] > e["mw"] for i in wsh):
                    c("columns.proportional_judged")
                    nontriv.add(hash(("c", json.dumps(opts), e["d"], e["mw"], e["avail"], e["f"])))
                if len(wsh) >= 2 and any(w[i] == e["mw"] for i in wsh):
                    c("columns.min_width_intervenes")
                if e["rendered"]:
                    c("columns.rendered")
                if len(vis) >= 2 and e["d"]:
                    c("columns.dividers_between_visible")
            elif t == "pile":
                if e["rendered"]:
                    c("pile.rendered")
                fixed = sum(e["own"])
                c("pile.fixed_rows_overflow" if fixed > e["avail"] else "pile.weighted_rows_share_remaining")
                if sum(1 for o in e["opts"] if o["k"] == "weight" and o["a"]) >= 2 and fixed < e["avail"]:
                    nontriv.add(hash(("p", json.dumps(e["opts"]), e["avail"])))
            elif t == "pad":
                cc = e["c"]
                fits = e["child"] + cc["L"] + cc["R"] <= cc["avail"]
                c(f"{e['widget']}.{cc['kind']}.{'fits' if fits else 'does_not_fit'}")
                if fits and cc["avail"] - cc["L"] - cc["R"] - e["child"] > 0 and 0 < cc["align"] < 100:
                    c(f"{e['widget']}.align_split_nontrivial")
                    nontriv.add(hash((e["widget"], json.dumps(cc))))
                _beside_margins(c, e["widget"], cc)
                if e["widget"] == "padding" and e.get("fixed"):
                    c("padding.fixed_sizing")
                if e["widget"] == "padding" and e.get("text_child"):
                    c("padding.pack.text_child")
                if e.get("obs"):
                    near = cc["align"] == 0
                    c(f"{e['widget']}.obsolete_fixed_" + {"padding": ("right", "left"), "filler": ("bottom", "top")}[e["widget"]][near])
                    if not near and fits and cc["avail"] - cc["L"] - cc["R"] - e["child"] > 0:
                        c(f"{e['widget']}.obsolete_fixed_" + ("right" if e["widget"] == "padding" else "bottom") + ".spare_rows")
                if cc["clip"] and e["child"] > cc["avail"]:
                    c("padding.clip.wider_than_space" if e["widget"] == "padding" else "filler.pack.taller_than_space")
            elif t == "overlay":
                c(f"overlay.{e['h']['c']['kind']}x{e['v']['c']['kind']}")
                _beside_margins(c, "overlay", e["h"]["c"])
                _beside_margins(c, "overlay", e["v"]["c"])
                if e["rows_dep"]:
                    c("overlay.flow_rows_depend_on_width")
                if e.get("obs"):
                    c("overlay.obsolete_fixed_margin_spelling")
                if e["h"]["c"]["clip"] and e["h"]["child"] > e["h"]["c"]["avail"]:
                    c("overlay.fixed_top_wider_than_space")
                if e["h"]["c"]["clip"] and e["v"]["child"] > e["v"]["c"]["avail"]:
                    c("overlay.fixed_top_taller_than_space")
                nontriv.add(hash(("o", json.dumps(e["h"]["c"]), json.dumps(e["v"]["c"]))))
            elif t == "grid":
                c("grid.multi_row" if len(set(e["ys"])) > 1 else "grid.single_row")
                if e["avail"] < e["cw"]:
                    c("grid.narrower_than_a_cell")
                nontriv.add(hash(("g", e["n"], e["cw"], e["hsep"], e["vsep"], e["avail"])))


def run(chk):
    warnings.simplefilter("ignore")
    quick = chk.tier == "quick"
    jobs = 4 if quick else 8
    chunk_events = 12000 if quick else 40000
    mc_box = {}

    def model():
        try:
            mc_box["r"] = tlc.mc("Partition", MC_CFG.format(n=3, a=3 if quick else 4, d=1 if quick else 2, av=6 if quick else 12), workers=6, timeout=1500)
        except Exception as ex:  # noqa: BLE001
            mc_box["err"] = ex

    th = threading.Thread(target=model)
    th.start()

    # pipeline: drive urwid chunk by chunk while TLC validates the previous chunks
    counts, nontriv = {}, set()
    pick = random.Random(chk.seed + 19)      # sampling for the DIVERGENCE pass must not disturb the driver's rng
    strong_pool, strong_cap = [], (12000 if quick else 120000)
    samples, seen_kinds = {}, {}
    pending = []
    total = {"events": 0, "rejected": 0, "wall": 0.0}

    def settle(fut, chunk):
        res = fut.result()
        chk.add_tv("TV_PartitionTrace", res)
        total["events"] += res.events
        total["rejected"] += len(res.rejects)
        total["wall"] += res.wall_s
        _handle(chk, chunk, res)

    with cf.ThreadPoolExecutor(jobs) as ex:
        def submit(chunk):
            _coverage(counts, nontriv, chunk)
            evs = [e for tr in chunk for e in tr["ev"]]
            share = max(1, strong_cap * len(evs) // (45000 if quick else 600000))
            strong_pool.extend(pick.sample(evs, min(len(evs), share)))
            for tr in chunk:          # the 8th trace of each kind is the sample (the first ones are the degenerate corner)
                seen_kinds[tr["kind"]] = seen_kinds.get(tr["kind"], 0) + 1
                if seen_kinds[tr["kind"]] in (1, 8):
                    samples[tr["kind"]] = tr
            pending.append((ex.submit(tlc.validate, "PartitionTrace", chunk, batch_events=chunk_events * 2, jobs=1, timeout=1500,
                                      env={"C19_MODE": "weak"}), chunk))
            while len(pending) > jobs:            # bounded memory: at most `jobs` chunks in flight
                settle(*pending.pop(0))

        chunk, n = [], 0
        for tr in build_traces(chk):
            chunk.append(tr)
            n += len(tr["ev"])
            if n >= chunk_events:
                submit(chunk)
                chunk, n = [], 0
        if chunk:
            submit(chunk)
        chk.note(f"drove {sum(v for k, v in counts.items() if k.endswith('.events'))} configurations through urwid in {time.time() - chk.t0:.1f}s")
        while pending:
            settle(*pending.pop(0))
    chk.note(f"TV_PartitionTrace {total['events']} events, {total['rejected']} rejected")
    th.join()
    if "err" in mc_box:
        raise mc_box["err"]
    r = mc_box["r"]
    chk.add_mc("MC_Partition", r)
    chk.note(f"MC_Partition {r.distinct} states in {r.wall_s:.1f}s")
    if not r.ok:
        chk.reject("C19.model." + str(r.violated), {"model": "Partition"}, {"tlc_trace": r.trace[-3:]})
    _divergences(chk, strong_pool[:strong_cap], jobs)

    chk.cov["clause_counts"] = counts
    chk.cov["distinct_nontrivial"] = len(nontriv)
    for need in NEEDED:
        if not counts.get(need):
            chk.vacuity.append("driver." + need)
    chk.cov["rule"] = ("one event = one configuration driven through the real Columns.column_widths/get_column_sizes/render, Pile.get_item_rows/"
                       "get_rows_sizes/render, Padding.padding_values, Filler.filler_values, Overlay.calculate_padding_filler/top_w_size, GridFlow.render "
                       "with size-recording probe children; exhaustive small ranges + seeded random beyond; non-trivial = distinct configurations with "
                       ">= 2 weighted shares judged for proportionality, a non-trivial alignment split, an Overlay axis pair or a GridFlow arrangement")
    chk.cov["exhaustive"] = True
    for kind in ("columns", "padding", "overlay", "grid"):
        tr = samples.get(kind)
        if tr:
            chk.sample({"kind": kind, "cfg": tr["cfg"], "event": {k: v for k, v in tr["ev"][len(tr["ev"]) // 2].items() if k != "sizes"}})
    chk.cov["trusted_base"] = ["TLC", "probe widgets (Box, Fixed, FixedFlow) and the rigs in vf/props/c19.py that copy configuration and the "
                               "real code's answers into events", "GridFlow canvas reader (first painted cell of each letter)"]
    chk.assumptions += [
        "a packed column's 'own size' is what the probe child itself returned from pack()",
        "'the remaining space otherwise' is judged in the weak reading (at least what the margins leave, at most min(requested, available)); "
        "the literal reading (exactly what the margins leave) is evaluated by TLC as DIVERGENCE: urwid gives up the fixed margins first",
        "a packed child's requested size is its natural extent (what the probe is configured with / a one-word Text is long), not what it "
        "answered when the decoration packed it against a width of the decoration's choosing; for a packed child that shrinks to what it is "
        "offered (Padding width='pack') 'the remaining space' is read literally - what the fixed margins leave, lifted to min_width when one "
        "is set - because nothing forces the decoration to give up its margins there; a fixed-size Padding (size ()) is judged without "
        "min_width only (render(()) puts the extra columns to the right of the child, padding_values(()) does not show them)",
        "'unless the minimum width intervenes' = some shown weighted column sits at min_width; the reading 'only when an exact share is below "
        "min_width' is evaluated as DIVERGENCE",
        "zero given sizes, zero packed sizes and zero weights are outside the statement's 'given (>= 1) ... positively weighted': only the "
        "clauses that do not depend on them are judged there; exact fill with hidden zero-sized columns is DIVERGENCE",
        "a box-sized Pile whose fixed rows overflow keeps every item and lets render trim: judged as 'weighted rows get nothing'; 'never exceed' "
        "for Pile is DIVERGENCE",
        "Columns.dividechars/min_width are not changed after construction (plain attributes, no cache invalidation)",
        "exceptions raised by render() of a container (not by the allocation methods) are DIVERGENCE: rendering is C01's subject",
    ]


def replay(chk, path):
    warnings.simplefilter("ignore")
    with open(path) as f:
        rp = json.load(f)["replay"]
    kind, cfg, steps = rp["kind"], rp["cfg"], rp["steps"]
    if kind == "columns":
        tr = columns_trace([tuple(o) for o in cfg["opts"]], cfg["d"], cfg["mw"], [tuple(s) for s in steps], box=cfg["box"], pk=cfg["pk"],
                           mode=cfg["mode"])
    elif kind == "pile":
        tr = pile_trace([tuple(o) for o in cfg["opts"]], [tuple(s) for s in steps], cfg["maxcol"])
    else:
        tr = single_trace(kind, steps)
    res = tlc.validate("PartitionTrace", [tr], env={"C19_MODE": "weak"}, timeout=600)
    chk.add_tv("replay", res)
    _handle(chk, [tr], res)
    chk.sample({k: v for k, v in tr["ev"][-1].items() if k != "sizes"})
    return chk.finish()
