"""X03 — LCD display protocol (urwid/display/lcd.py: CFLCDScreen / CF635Screen / KeyRepeatSimulator).

State machine: spec/LcdLink.tla (+LcdLinkOps); trace spec: spec/LcdLinkTrace.tla.

The REAL classes are driven without hardware: CF635Screen.__init__ imports `serial.Serial`; a fake `serial`
module is put in sys.modules for the construction, whose Serial object is a byte pipe owned by the harness
(write() collects what the host sends, read() hands out what the harness has "delivered"), and
`urwid.display.lcd.time` is replaced by a clock the harness moves (1 tick = 1/64 s, so every float the code
computes is exact).  The device and the line are scripted by the harness: a small device answers every packet
the host wrote (TLC compares each answer with the reference CFA-635 of the specification), key reports,
noise and corrupted bytes are put on the line, and bytes are delivered in chosen cuts.  One event per public
call and per line step is recorded; TLC (LcdLinkTrace) judges all of them.  No verdict is computed here.
"""
from __future__ import annotations

import concurrent.futures as cf
import itertools
import json
import sys
import time
import types

from .. import tlc
from ..tlc import MachineryError

TICK = 1.0 / 64
T0 = 1024.0
SIZE = (20, 4)
KEYMAP = ["up", "down", "left", "right", "enter", "esc"]


# ------------------------------------------------------------------------------------------------
# the harness' own packet arithmetic (independent of urwid's; TLC compares both with the specification)
# ------------------------------------------------------------------------------------------------
def crc_x25(data):
    crc = 0xFFFF
    for b in data:
        crc ^= b
        for _ in range(8):
            crc = (crc >> 1) ^ 0x8408 if crc & 1 else crc >> 1
    return crc ^ 0xFFFF


def packet(c, d):
    head = bytes([c, len(d)]) + bytes(d)
    crc = crc_x25(head)
    return head + bytes([crc & 0xFF, crc >> 8])


def device_reply(pkt):
    """The scripted device: acknowledge a valid command, answer an invalid one with an error response, ignore a
    malformed packet.  (The trace specification recomputes this from its reference CFA-635.)"""
    if len(pkt) < 4 or pkt[1] > 22 or len(pkt) != pkt[1] + 4:
        return b""
    crc = crc_x25(pkt[:-2])
    if pkt[-2] != crc & 0xFF or pkt[-1] != crc >> 8:
        return b""
    c, d = pkt[0], pkt[2:-2]
    n = len(d)
    valid = {31: n >= 3 and d[0] < 20 and d[1] < 4 and d[0] + n - 2 <= 20, 11: n == 2 and d[0] < 20 and d[1] < 4,
             12: n == 1 and d[0] <= 4, 13: n in (1, 2), 14: n in (1, 2) and d[0] <= 100,
             34: n == 2 and d[0] <= 12 and d[1] <= 100, 9: n == 9 and d[0] <= 7, 0: True, 6: n == 0}.get(c, False)
    if not valid:
        return packet(0xC0 + c, b"")
    return packet(0x40 + c, d if c == 0 else b"")


class Clock:
    def __init__(self):
        self.ticks = 0

    def time(self):
        return T0 + self.ticks * TICK


class FakeSerial:
    """Stand-in for serial.Serial(device_path, baud, timeout=0).  mode "byte": read(size=1) returns at most `size`
    bytes (pyserial's contract); mode "chunk": read() returns everything that has arrived."""
    last = None
    mode = "chunk"

    def __init__(self, device_path, baud, timeout=None):
        self.args = (device_path, baud, timeout)
        self.fd = 99
        self.rx = bytearray()
        self.taken = bytearray()
        self.writes = []
        self.mode = FakeSerial.mode
        FakeSerial.last = self

    def write(self, buf):
        self.writes.append(bytes(buf))
        return len(buf)

    def read(self, size=1):
        n = len(self.rx) if self.mode == "chunk" else min(size, len(self.rx))
        out = bytes(self.rx[:n])
        del self.rx[:n]
        self.taken += out
        return out

    def fileno(self):
        return self.fd


def lcd_module():
    from urwid.display import lcd

    return lcd


class Rig:
    """One CF635Screen on a fake line; every method records one event."""

    def __init__(self, delay=32, nxt=8, mode="chunk", same=1, tnone=1, driver="directed"):
        lcd = lcd_module()
        self.clock = Clock()
        lcd.time = self.clock                      # KeyRepeatSimulator / _send_next_command call time.time()
        fake = types.ModuleType("serial")
        fake.Serial = FakeSerial
        FakeSerial.mode = mode
        old = sys.modules.get("serial")
        sys.modules["serial"] = fake
        try:
            self.s = lcd.CF635Screen("/dev/null-lcd", repeat_delay=delay * TICK, repeat_next=nxt * TICK)
        finally:
            if old is None:
                del sys.modules["serial"]
            else:
                sys.modules["serial"] = old
        self.port = self.s._device
        if not isinstance(self.port, FakeSerial) or self.port.args != ("/dev/null-lcd", 115200, 0):
            raise MachineryError(f"x03: CF635Screen did not open the fake serial port as expected ({getattr(self.port, 'args', None)})")
        self.transit = bytearray()
        self.h2d = []
        self.trace = {"kind": "link", "delay": delay, "nxt": nxt, "keymap": list(self.s.key_map), "same": same, "tnone": tnone,
                      "mode": mode, "driver": driver, "fds": list(self.s.get_input_descriptors()), "ev": []}
        self.ev = self.trace["ev"]

    # -- projections ------------------------------------------------------------------------------
    def _wrote(self):
        w = self.port.writes
        self.port.writes = []
        self.h2d += w
        return [b for p in w for b in p]

    def _state(self):
        s = self.s
        return {"queue": [{"c": int(c), "d": list(d)} for c, d in s._command_queue],
                "infl": -1 if s._last_command is None else int(s._last_command)}

    # -- host calls ------------------------------------------------------------------------------------
    def call(self, op, a):
        s = self.s
        exc = ""
        try:
            if op == "backlight":
                s.set_backlight(a[0])
            elif op == "contrast":
                s.set_lcd_contrast(a[0])
            elif op == "led":
                s.set_led_pin(a[0], a[1], a[2])
            elif op == "cgram":
                s.program_cgram(a[0], a[1:])
            elif op == "cursor_style":
                s.set_cursor_style(a[0])
            elif op == "queue":
                s.queue_command(a[0], bytearray(a[1:]))
            else:
                raise MachineryError(f"x03: unknown call {op}")
        except MachineryError:
            raise
        except Exception as ex:  # noqa: BLE001
            exc = type(ex).__name__
        e = {"t": "call", "op": op, "a": list(a), "exc": exc, "wrote": self._wrote()}
        e.update(self._state())
        self.ev.append(e)
        return e

    def draw(self, canvas, size=SIZE):
        rows = [list(b"".join(run for _a, _cs, run in row)) for row in canvas.content()]
        cur = list(canvas.cursor) if canvas.cursor is not None else []
        exc = ""
        try:
            self.s.draw_screen(tuple(size), canvas)
        except Exception as ex:  # noqa: BLE001
            exc = type(ex).__name__
        e = {"t": "draw", "size": list(size), "rows": rows, "cur": cur, "exc": exc, "wrote": self._wrote()}
        e.update(self._state())
        self.ev.append(e)
        return e

    def poll(self):
        self.port.taken = bytearray()
        exc, ret = "", (None, [], [])
        try:
            ret = self.s.get_input_nonblocking()
        except Exception as ex:  # noqa: BLE001
            exc = type(ex).__name__
        tmo, keys, raw = ret
        if tmo is None:
            t = -1
        else:
            t = tmo / TICK
            t = int(round(t)) if abs(t - round(t)) < 1e-9 else -2
        kr = self.s.key_repeat
        e = {"t": "poll", "took": list(self.port.taken), "wrote": self._wrote(), "keys": list(keys), "raw": [int(x) for x in raw],
             "timeout": t, "exc": exc, "unproc": list(self.s._unprocessed), "held": sorted(kr.pressed),
             "multi": int(bool(kr.multiple_pressed))}
        e.update(self._state())
        self.ev.append(e)
        return e

    # -- device and line -------------------------------------------------------------------------------
    def can_dev(self):
        return bool(self.h2d)

    def dev(self):
        pkt = self.h2d.pop(0)
        emit = device_reply(pkt)
        self.transit += emit
        self.ev.append({"t": "dev", "emit": list(emit)})

    def devkey(self, code):
        emit = packet(0x80, [code])
        self.transit += emit
        self.ev.append({"t": "devkey", "code": code, "emit": list(emit)})

    def junk(self, bs):
        self.transit += bytes(bs)
        self.ev.append({"t": "junk", "bytes": list(bs)})

    def corrupt(self, idx, val):
        self.transit[idx - 1] = val
        self.ev.append({"t": "corrupt", "idx": idx, "val": val})

    def deliver(self, n):
        n = min(n, len(self.transit))
        self.port.rx += self.transit[:n]
        del self.transit[:n]
        self.ev.append({"t": "deliver", "n": n})

    def time(self, dt):
        self.clock.ticks += dt
        self.ev.append({"t": "time", "dt": dt})

    def settled(self):
        self.ev.append({"t": "settled"})

    def drain(self, limit=200):
        """Let the device answer and the host read until the line is quiet (fault-free continuation)."""
        for _ in range(limit):
            if self.h2d:
                self.dev()
            elif self.transit or self.port.rx:
                self.deliver(len(self.transit))
                self.poll()
            else:
                break
        self.settled()

    def close(self):
        return self.trace


# ------------------------------------------------------------------------------------------------
# canvases
# ------------------------------------------------------------------------------------------------
def model_canvas(i, w=20, h=4):
    """CanvasOf(i, W, H) of LcdLinkOps."""
    import urwid

    rows = []
    for y in range(1, h + 1):
        if i == 0:
            rows.append(bytes([32] * w))
        elif i in (2, 3) and y == h:
            rows.append(bytes([66] * w))
        else:
            rows.append(bytes(65 + ((x + y) % 2) for x in range(1, w + 1)))
    cur = (0, 0) if i in (1, 2) else (w - 1, h - 1) if i == 3 else None
    return urwid.TextCanvas(rows, cursor=cur, maxcol=w)


def widget_canvases():
    """Canvases rendered by real widgets at 20x4: plain text, attributes (several runs per row), an Edit with a cursor."""
    import urwid

    def r(w, focus=False):
        return urwid.Filler(w, "top").render(SIZE, focus=focus)

    out = {
        "text": r(urwid.Text("hello lcd\nsecond row")),
        "text2": r(urwid.Text("hello lcd\nsecond ROW")),
        "attr": r(urwid.Text([("a", "HELLO"), " lcd\n", ("b", "SECOND"), " row"])),
        "attr2": r(urwid.Text([("a", "HEL"), ("b", "LO lcd\nSECOND row")])),
        "edit0": r(urwid.Edit("> ", "abc", edit_pos=0), True),
        "edit3": r(urwid.Edit("> ", "abc", edit_pos=3), True),
        "edit3b": r(urwid.Edit("> ", "abd", edit_pos=3), True),
        "editnf": r(urwid.Edit("> ", "abc", edit_pos=3), False),
        "full": urwid.TextCanvas([bytes(48 + (x + 3 * y) % 40 for x in range(20)) for y in range(4)], cursor=(19, 3), maxcol=20),
        "blank": urwid.SolidCanvas(" ", 20, 4),
    }
    return out


# ------------------------------------------------------------------------------------------------
# history generators (code -> spec)
# ------------------------------------------------------------------------------------------------
ALPHABET = ["Q", "G", "D1", "D2", "A", "Kp1", "Kr1", "Kp2", "Kr2", "dl1", "dlA", "P", "T", "J", "C"]


def apply_letter(r, a, cvs):
    """One letter of the short-history alphabet; False when it is not applicable in the current situation."""
    if a == "Q":
        r.call("backlight", [50])
    elif a == "G":
        r.call("queue", [0, 7])
    elif a == "D1":
        r.draw(cvs["edit3"])
    elif a == "D2":
        r.draw(cvs["text"])
    elif a == "A":
        if not r.can_dev():
            return False
        r.dev()
    elif a in ("Kp1", "Kp2"):
        r.devkey(int(a[2]))
    elif a in ("Kr1", "Kr2"):
        r.devkey(int(a[2]) + 6)
    elif a == "dl1":
        if not r.transit:
            return False
        r.deliver(1)
    elif a == "dlA":
        if not r.transit:
            return False
        r.deliver(len(r.transit))
    elif a == "P":
        r.poll()
    elif a == "T":
        r.time(8)
    elif a == "J":
        r.junk([5, 3])
    elif a == "C":
        if not r.transit:
            return False
        r.corrupt(1, (r.transit[0] + 1) % 256)
    return True


def hist_short(seq, cvs, mode, tail=True):
    r = Rig(delay=8, nxt=8, mode=mode, driver="exhaustive-short")
    for a in seq:
        if not apply_letter(r, a, cvs):
            return None
    if tail:
        # continuation: the rest of the line is delivered and polled, time passes, polled again
        r.deliver(len(r.transit))
        r.poll()
        r.time(8)
        r.poll()
    return r.close()


def hist_repeat_timeline(delay, nxt, mode, same=1, tnone=1, second=None, step=1, driver="repeat-timeline"):
    """A key is held: poll at every tick through the delay and a few repeat periods, release, keep polling."""
    r = Rig(delay=delay, nxt=nxt, mode=mode, same=same, tnone=tnone, driver=driver)
    r.devkey(1)
    r.deliver(len(r.transit))
    while r.port.rx:
        r.poll()
    for t in range(0, delay + 3 * nxt + 2, step):
        if second is not None and t == second[0]:
            r.devkey(second[1])
            r.deliver(len(r.transit))
        r.time(step)
        r.poll()
        while r.port.rx:
            r.poll()
    r.devkey(7)
    r.deliver(len(r.transit))
    r.poll()
    while r.port.rx:
        r.poll()
    for _ in range(nxt + 2):
        r.time(1)
        r.poll()
    if second is not None:
        r.devkey(second[1] + 6 if second[1] <= 6 else second[1])
        r.deliver(len(r.transit))
        r.poll()
        while r.port.rx:
            r.poll()
        r.devkey(2)
        r.deliver(len(r.transit))
        r.poll()
        while r.port.rx:
            r.poll()
        r.time(delay)
        r.poll()
    return r.close()


def hist_all_keys(mode, keymap=None):
    """Every button pressed and released in turn, with a repeat in between; also the codes of other models (ignored by a 635)."""
    r = Rig(delay=4, nxt=2, mode=mode, driver="all-keys")
    if keymap:
        r.s.key_map = tuple(keymap)
        r.trace["keymap"] = list(keymap)
    for k in range(1, 7):
        r.devkey(k)
        r.deliver(len(r.transit))
        r.poll()
        while r.port.rx:
            r.poll()
        r.time(4)
        r.poll()
        r.devkey(k + 6)
        r.deliver(len(r.transit))
        r.poll()
        while r.port.rx:
            r.poll()
        r.time(1)
        r.poll()
    for code in (0, 13, 14, 16, 17, 20, 21, 255):
        r.devkey(code)
    r.deliver(len(r.transit))
    r.poll()
    while r.port.rx:
        r.poll()
    return r.close()


def hist_cuts(stream_builder, cuts, mode, driver="every-cut"):
    """The same byte stream delivered in the given cuts, polled after every delivery and once more at the end."""
    r = Rig(mode=mode, driver=driver)
    stream_builder(r)
    total = len(r.transit)
    pos = 0
    for c in list(cuts) + [total]:
        if c > pos:
            r.deliver(c - pos)
            pos = c
            r.poll()
            while r.port.rx:
                r.poll()
    r.poll()
    r.drain()
    return r.close()


def stream_ack_keys(r):
    r.call("backlight", [10])
    r.call("contrast", [99])
    r.dev()
    r.devkey(3)
    r.devkey(9)


def stream_noise(noise, corrupt_at=None):
    def build(r):
        r.call("backlight", [10])
        r.call("led", [1, 1, 20])
        if noise:
            r.junk(noise)
        r.dev()
        r.devkey(5)
        if corrupt_at is not None and corrupt_at <= len(r.transit):
            r.corrupt(corrupt_at, r.transit[corrupt_at - 1] ^ 0x10)
        r.devkey(11)
    return build


NOISE = [[255], [5, 3], [0x4E, 0], [0x80, 1, 1], [0x40], [0x80], [0, 22], [31, 22, 0, 0], [0x4E, 0, 0x11], [7, 1], [200, 23, 1]]


def hist_error_reply(mode, bad):
    """A command the device refuses: its error response (type = command | 0xC0) is not an acknowledgement."""
    r = Rig(mode=mode, driver="error-reply")
    r.call("backlight", [5])
    r.call("queue", bad)
    r.call("contrast", [9])
    for _ in range(3):
        if r.can_dev():
            r.dev()
        r.deliver(len(r.transit))
        r.poll()
        while r.port.rx:
            r.poll()
    r.settled()
    return r.close()


def hist_setters(mode):
    r = Rig(mode=mode, driver="setters")
    for v in (-1, 0, 1, 50, 100, 101, 255):
        r.call("backlight", [v])
        r.drain()
    for v in (-1, 0, 128, 255, 256):
        r.call("contrast", [v])
    r.drain()
    for led in (-1, 0, 1, 2, 3, 4):
        for rg in (-1, 0, 1, 2):
            for v in (0, 100) if 0 <= led <= 3 and rg in (0, 1) else (-1, 50, 101):
                r.call("led", [led, rg, v])
    r.call("led", [0, 0, 101])
    r.call("led", [3, 1, -1])
    r.drain()
    for idx in (-1, 0, 7, 8):
        r.call("cgram", [idx, 1, 2, 4, 8, 16, 32, 63, 0])
    r.call("cgram", [1, 1, 2, 3])
    r.call("cgram", [1] + [0] * 9)
    for st in (0, 1, 2, 3, 4, 5):
        r.call("cursor_style", [st])
    r.drain()
    return r.close()


def hist_draws(seq, cvs, mode, ack_between, styles=(), driver="draw-sequence"):
    r = Rig(mode=mode, driver=driver)
    for j, name in enumerate(seq):
        if j < len(styles) and styles[j]:
            r.call("cursor_style", [styles[j]])
        if name == "badsize":
            r.draw(cvs["text"], size=(16, 2))
        else:
            r.draw(cvs[name])
        if ack_between == "all":
            r.drain()
        elif ack_between == "one":
            if r.can_dev():
                r.dev()
            r.deliver(len(r.transit))
            r.poll()
            while r.port.rx:
                r.poll()
    r.drain()
    return r.close()


def hist_random(rng, n, cvs, mode, faults=True):
    delay, nxt = rng.choice([(32, 8), (8, 8), (4, 2), (6, 1), (16, 4)])
    r = Rig(delay=delay, nxt=nxt, mode=mode, driver="random")
    names = [c for c in cvs if c != "attr2"]          # same text in other attribute runs: one directed history
    down = set()
    for _ in range(n):
        x = rng.random()
        if x < 0.12:
            k = rng.random()
            if k < 0.3:
                r.call("backlight", [rng.choice([0, 30, 100, 101, -1])])
            elif k < 0.5:
                r.call("contrast", [rng.choice([0, 77, 255, 256])])
            elif k < 0.7:
                r.call("led", [rng.randint(0, 3), rng.randint(0, 1), rng.choice([0, 50, 100])])
            elif k < 0.8:
                r.call("cgram", [rng.randint(0, 7)] + [rng.randint(0, 63) for _ in range(8)])
            elif k < 0.88:
                r.call("queue", [0] + [rng.randint(0, 255) for _ in range(rng.randint(0, 4))])
            elif k < 0.9:
                r.call("queue", rng.choice([[11, 20, 0], [12, 9], [33, 1], [6, 0]]))      # refused by the device
            else:
                r.call("cursor_style", [rng.randint(0, 5)])
        elif x < 0.22:
            r.draw(cvs[rng.choice(names)])
        elif x < 0.42:
            if r.can_dev():
                r.dev()
        elif x < 0.52:
            k = rng.randint(1, 6)
            if k in down and rng.random() < 0.85:
                down.discard(k)
                r.devkey(k + 6)
            elif k not in down and len(down) < 2:
                down.add(k)
                r.devkey(k)
            elif rng.random() < 0.1:
                r.devkey(rng.choice([0, 13, 16, 20, 200]))      # codes of other models / nonsense: ignored by a 635 host
        elif x < 0.70:
            if r.transit:
                r.deliver(rng.choice([1, 1, 2, 3, 4, len(r.transit), len(r.transit)]))
        elif x < 0.88:
            r.poll()
        elif x < 0.95:
            r.time(rng.choice([1, 1, 2, nxt, nxt, delay, delay - 1]))
        elif faults and x < 0.975:
            r.junk(rng.choice(NOISE) if rng.random() < 0.7 else [rng.randint(0, 255) for _ in range(rng.randint(1, 5))])
        elif faults and r.transit:
            i = rng.randint(1, len(r.transit))
            r.corrupt(i, r.transit[i - 1] ^ (1 << rng.randint(0, 7)))
    if not faults:
        for k in sorted(down):
            r.devkey(k + 6)
        r.drain()
    return r.close()


# ---- KeyRepeatSimulator alone ---------------------------------------------------------------------
KRS_ALPHA = ["pa", "pb", "ra", "rb", "t1", "tD", "tN", "n", "s"]


def hist_krs(seq, delay, nxt, same):
    lcd = lcd_module()
    clock = Clock()
    lcd.time = clock
    k = lcd.KeyRepeatSimulator(delay * TICK, nxt * TICK)
    ev = []
    for a in seq:
        e = {"op": "", "key": "", "dt": 0, "res": []}
        if a[0] == "p":
            e["op"], e["key"] = "press", a[1]
            k.press(a[1])
        elif a[0] == "r":
            e["op"], e["key"] = "release", a[1]
            k.release(a[1])
        elif a[0] == "t":
            e["op"], e["dt"] = "time", {"1": 1, "D": delay, "N": nxt}[a[1]]
            clock.ticks += e["dt"]
        elif a == "n":
            e["op"] = "next"
            res = k.next_event()
            if res is not None:
                t = res[0] / TICK
                e["res"] = [int(round(t)) if abs(t - round(t)) < 1e-9 else -2, res[1]]
        else:
            e["op"] = "sent"
            k.sent_event()
        e["held"] = sorted(k.pressed)
        e["multi"] = int(bool(k.multiple_pressed))
        ev.append(e)
    # the pending event after the history, now and after the delay
    for dt in (0, nxt, delay):
        clock.ticks += dt
        if dt:
            ev.append({"op": "time", "key": "", "dt": dt, "res": [], "held": sorted(k.pressed), "multi": int(bool(k.multiple_pressed))})
        res = k.next_event()
        rr = []
        if res is not None:
            t = res[0] / TICK
            rr = [int(round(t)) if abs(t - round(t)) < 1e-9 else -2, res[1]]
        ev.append({"op": "next", "key": "", "dt": 0, "res": rr, "held": sorted(k.pressed), "multi": int(bool(k.multiple_pressed))})
    return {"kind": "krs", "delay": delay, "nxt": nxt, "keymap": KEYMAP, "same": same, "tnone": 1, "mode": "-", "driver": "krs-exhaustive", "ev": ev}


# ---- _parse_data / get_crc -------------------------------------------------------------------------
def parse_event(buf):
    lcd = lcd_module()
    e = {"buf": list(buf), "k": "", "c": 0, "d": [], "rest": []}
    try:
        c, d, rest = lcd.CFLCDScreen._parse_data(bytearray(buf))
        e.update(k="pkt", c=int(c), d=list(d), rest=list(rest))
    except lcd.CFLCDScreen.MoreDataRequired:
        e["k"] = "more"
    except lcd.CFLCDScreen.InvalidPacket:
        e["k"] = "bad"
    except Exception as ex:  # noqa: BLE001
        e["k"] = type(ex).__name__
    return e


def parse_traces(rng, n_random):
    good = [packet(0x4E, b""), packet(0x80, [5]), packet(0x40, [1, 2, 3]), packet(31, [0, 1] + list(b"abcdefghijklmnopqrst")),
            packet(0, b""), packet(0xC9, b""), packet(255, [255] * 22)]
    bufs = []
    for p in good:
        for i in range(len(p) + 1):
            bufs.append(p[:i])                                    # every truncation
        for i in range(len(p)):
            for x in (1, 0x80):
                q = bytearray(p)
                q[i] ^= x
                bufs.append(bytes(q))                             # one corrupted byte anywhere
        bufs.append(p + p[:3])
        bufs.append(p + b"\xff")
    for ln in (22, 23, 24, 255):
        bufs.append(bytes([31, ln]) + bytes(ln + 2))
        head = bytes([31, ln]) + bytes(min(ln, 253))
        crc = crc_x25(head)
        bufs.append(head + bytes([crc & 0xFF, crc >> 8]))         # well-formed but longer than the protocol allows
    for _ in range(n_random):
        k = rng.random()
        if k < 0.5:
            bufs.append(bytes(rng.randint(0, 255) for _ in range(rng.randint(0, 30))))
        else:
            p = bytearray(packet(rng.randint(0, 255), [rng.randint(0, 255) for _ in range(rng.randint(0, 22))]))
            if rng.random() < 0.4:
                p[rng.randrange(len(p))] ^= 1 << rng.randint(0, 7)
            bufs.append(bytes(p) + bytes(rng.randint(0, 255) for _ in range(rng.randint(0, 3))))
    ev = [parse_event(b) for b in bufs]
    out = []
    for i in range(0, len(ev), 200):
        out.append({"kind": "parse", "delay": 1, "nxt": 1, "keymap": KEYMAP, "same": 1, "tnone": 1, "mode": "-", "driver": "parse", "ev": ev[i:i + 200]})
    return out


def crc_traces(rng, n_random):
    lcd = lcd_module()
    bufs = [b"", b"123456789", b"\x00", b"\xff", bytes(range(24)), b"\x00\x00\x00\x00"] + [bytes([b]) for b in range(0, 256, 5)]
    for _ in range(n_random):
        bufs.append(bytes(rng.randint(0, 255) for _ in range(rng.randint(1, 24))))
    ev = [{"buf": list(b), "crc": list(lcd.CFLCDScreen.get_crc(b))} for b in bufs]
    return [{"kind": "crc", "delay": 1, "nxt": 1, "keymap": KEYMAP, "same": 1, "tnone": 1, "mode": "-", "driver": "crc", "ev": ev[i:i + 300]}
            for i in range(0, len(ev), 300)]


# ------------------------------------------------------------------------------------------------
# model checking
# ------------------------------------------------------------------------------------------------
INVS = ["TypeOK", "PacketsWellFormed", "OneInFlight", "InOrderExactlyOnce", "NoIdleWaiting", "ResyncNoLoss", "HeldBackBound",
        "DrainedComplete", "KeysInOrder", "RepeatOnlySingleHeld", "RepeatSpacing", "RepeatPrompt", "TimeoutIsNextRepeat",
        "ScreenConverges", "QuietMeansApplied"]
ACTION_PROPS = ["NoRedundantRows"]


def mc_cfg(variant="ok", W=2, H=2, md=4, delay=2, nxt=1, keys=(1,), cmds=(1, 2), cvs=(), styles=(), junk=(), maxcmd=0, maxdraw=0,
           maxstyle=0, maxkey=0, maxjunk=0, maxcor=0, maxtime=0, maxdt=2, cuts=True, props=(), invs=None, spec="Spec"):
    def S(xs):
        return "{" + ", ".join(str(x) for x in xs) + "}"

    return (f"CONSTANTS\n W = {W}\n H = {H}\n MaxData = {md}\n Delay = {delay}\n Nxt = {nxt}\n KeyCodes = {S(keys)}\n CmdIds = {S(cmds)}\n"
            f" CanvasIds = {S(cvs)}\n Styles = {S(styles)}\n JunkIds = {S(junk)}\n MaxCmd = {maxcmd}\n MaxDraw = {maxdraw}\n"
            f" MaxStyle = {maxstyle}\n MaxKey = {maxkey}\n MaxJunk = {maxjunk}\n MaxCor = {maxcor}\n MaxTime = {maxtime}\n MaxDt = {maxdt}\n EveryCut = {'TRUE' if cuts else 'FALSE'}\n"
            f" Variant = \"{variant}\"\nSPECIFICATION {spec}\n" + "".join(f"INVARIANT {i}\n" for i in (INVS if invs is None else invs))
            + "".join(f"PROPERTY {p}\n" for p in props) + "CHECK_DEADLOCK FALSE\n")


def mc_plan(quick):
    Q = dict(maxcmd=3, cmds=(1, 2, 3))
    K = dict(keys=(1, 2), maxkey=3, maxtime=4, cuts=False)
    K1 = dict(keys=(1,), maxkey=2, maxcor=1, maxtime=3, cuts=False)
    D = dict(cvs=(0, 1, 2, 3, 4), maxdraw=2, styles=(2,), maxstyle=1)
    D3 = dict(cvs=(1, 2), maxdraw=3)
    F = dict(maxcmd=1, cmds=(1,), keys=(1,), maxkey=1, junk=(1, 2, 3, 4, 5), maxjunk=1, maxcor=1)
    base = {
        "queue": dict(Q, props=("QueueDrains", "EventuallyQuiet")),
        "draw": D,
        "keys": K,
        "noise": dict(maxcmd=1, cmds=(1,), keys=(1,), maxkey=1, junk=(2, 3), maxjunk=1),
        "corrupt": dict(maxcmd=1, cmds=(1,), keys=(1,), maxkey=1, maxcor=1),
        "lostrelease": K1,
        "error": dict(maxcmd=3, cmds=(1, 9)),
    }
    if not quick:
        base.update({
            "queue": dict(maxcmd=4, cmds=(1, 2, 3), props=("QueueDrains", "EventuallyQuiet")),
            "draw": dict(cvs=(0, 1, 2, 3, 4), maxdraw=3, styles=(2,), maxstyle=1),
            "keys": dict(keys=(1, 2), maxkey=4, maxtime=6, cuts=False),
            "keys_cuts": dict(keys=(1,), maxkey=2, maxtime=3),
            "noise": dict(maxcmd=1, cmds=(1,), keys=(1,), maxkey=1, junk=(1, 2, 3, 4, 5), maxjunk=1),
            "noise2": dict(maxcmd=1, cmds=(1,), keys=(1,), maxkey=1, junk=(2, 3, 5), maxjunk=2),
            "lostrelease": dict(keys=(1,), maxkey=2, maxcor=1, maxtime=3),
            "queue_draw_live": dict(maxcmd=2, cmds=(1, 2), cvs=(1, 2), maxdraw=2, props=("QueueDrains", "EventuallyQuiet")),
            "corrupt": dict(maxcmd=2, cmds=(1, 2), keys=(1,), maxkey=1, maxcor=1),
            "faults": dict(maxcmd=1, cmds=(1,), keys=(1,), maxkey=1, junk=(2, 3), maxjunk=1, maxcor=1),
            "all": dict(maxcmd=1, cmds=(2,), cvs=(1, 3), maxdraw=1, keys=(1,), maxkey=1, junk=(2,), maxjunk=1, maxcor=1, maxtime=2, cuts=False),
            "queue_draw": dict(maxcmd=2, cmds=(1, 9), cvs=(1, 2, 3), maxdraw=2, styles=(2,), maxstyle=1),
        })
    # wrong variant -> (configuration, invariant / property that must refute it)
    wrong = {
        "send_without_wait": (Q, "OneInFlight"), "lifo": (Q, "InOrderExactlyOnce"), "ack_drops_next": (Q, "InOrderExactlyOnce"),
        "ack_sends_twice": (Q, "InOrderExactlyOnce"), "never_send_next": (Q, "QueueDrains"),
        "error_is_ack": (dict(maxcmd=2, cmds=(1, 9)), "OneInFlight"),
        "resync_flush": (F, "DrainedComplete"), "no_crc": (F, "ResyncNoLoss"),
        "repeat_no_delay": (K, "RepeatSpacing"), "repeat_after_release": (K, "RepeatOnlySingleHeld"),
        "repeat_while_multi": (K, "RepeatOnlySingleHeld"), "timeout_none_after_fire": (K, "TimeoutIsNextRepeat"),
        "same_key_twice_is_multi": (K1, "RepeatPrompt"),
        "draw_all_rows": (D, "NoRedundantRows"), "draw_diff_stale": (D3, "ScreenConverges"), "style_change_ignored": (D, "ScreenConverges"),
    }
    return base, wrong


def mc_run(cfg_text, workers, timeout):
    """tlc.mc, plus recognition of TLC's message for a violated liveness property (r.violated = the property's name)."""
    import os
    import re
    import shutil
    import tempfile

    tmp = tempfile.mkdtemp(prefix="vf-x03-")
    try:
        cfg = os.path.join(tmp, "model.cfg")
        with open(cfg, "w") as f:
            f.write(cfg_text)
        rc, out, wall, cmd = tlc._java(["-workers", str(workers), "-metadir", os.path.join(tmp, "m"), "-noGenerateSpecTE", "-config", cfg,
                                        "LcdLink.tla"], timeout=timeout, heap="4g")
        r = tlc.MCResult(ok=False, wall_s=wall, out=out[-3000:], cmd="tlc " + cmd)
        m = None
        for m in tlc._GEN.finditer(out):
            pass
        if m:
            r.generated, r.distinct = int(m.group(1)), int(m.group(2))
        d = tlc._DEPTH.search(out)
        if d:
            r.depth = int(d.group(1))
        vi = tlc._ERR_INV.search(out) or tlc._ERR_ACT.search(out) or re.search(r"Error: Temporal property (\w+) was violated", out)
        if vi:
            r.violated = vi.group(1)
            return r
        if "Temporal properties were violated" in out:
            r.violated = "TEMPORAL"
            return r
        if "Model checking completed. No error has been found." in out and m:
            r.ok = True
            return r
        raise MachineryError("TLC did not complete:\n" + out[-3000:])
    finally:
        shutil.rmtree(tmp, ignore_errors=True)


QUICK_WRONG = ("send_without_wait", "lifo", "never_send_next", "error_is_ack", "resync_flush", "no_crc", "repeat_no_delay", "repeat_after_release",
               "timeout_none_after_fire", "draw_diff_stale")


def model_checking(chk, quick, pool):
    base, wrong = mc_plan(quick)
    if quick:
        wrong = {v: wrong[v] for v in QUICK_WRONG}
    futs = {}
    for name, kw in base.items():
        kw = dict(kw)
        props = tuple(kw.pop("props", ())) + tuple(ACTION_PROPS)
        futs[name] = pool.submit(mc_run, mc_cfg(**kw, props=props), 2 if quick else 4, 1500)
    wf = {}
    for v, (kw, by) in wrong.items():
        isprop = by in ("QueueDrains", "EventuallyQuiet") or by in ACTION_PROPS
        wf[v] = pool.submit(mc_run, mc_cfg(variant=v, **kw, invs=[] if isprop else [by], props=(by,) if isprop else ()), 1, 900)
    # a line with noise may hold an acknowledgement back for ever (no time-out in the protocol engine): liveness needs a clean line
    if not quick:
        wf["(noise on the line)"] = pool.submit(mc_run, mc_cfg(maxcmd=2, cmds=(1, 2), junk=(2,), maxjunk=1, invs=[], props=("QueueDrains",)), 1, 900)
    return futs, wf


def collect_mc(chk, futs, wf):
    for name, f in futs.items():
        r = f.result()
        chk.add_mc("MC_LcdLink_" + name, r)
        if not r.ok:
            raise MachineryError(f"x03: the LcdLink model ({name}) violates its own law {r.violated}: {json.dumps(r.trace[-2:], default=str)[:1500]}")
    refuted = {}
    _, wrong = mc_plan(True)
    for v, f in wf.items():
        r = f.result()
        chk.add_mc("MC_LcdLink_wrong_" + v.strip("()").replace(" ", "_"), r)
        want = wrong[v][1] if v in wrong else "QueueDrains"
        got = r.violated or ""
        if got == "TEMPORAL":
            got = want
        refuted[v] = got
        if r.ok or got != want:
            chk.vacuity.append(f"wrong variant {v} not refuted by {want} (got {got or 'no violation'})")
    chk.cov["wrong_variants_refuted"] = refuted


# ------------------------------------------------------------------------------------------------
# spec -> code: behaviours chosen by TLC replayed on the real screen
# ------------------------------------------------------------------------------------------------
SIM = dict(W=20, H=4, md=22, delay=4, nxt=2, keys=(1, 2, 5), cmds=(1, 2, 3, 9, 77), cvs=(0, 1, 2, 3, 4), styles=(1, 2, 4), junk=(1, 2, 3, 4, 5),
           maxcmd=4, maxdraw=3, maxstyle=2, maxkey=4, maxjunk=2, maxcor=1, maxtime=40, variant="urwid", invs=["TypeOK"])
JUNK = {1: [255], 2: [5, 3], 3: [64 + 14, 0], 4: [128, 1, 1]}


def user_call(r, i):
    if i == 1:
        return r.call("backlight", [50])
    if i == 2:
        return r.call("queue", [0, 7])
    if i == 3:
        return r.call("led", [0, 0, 100])
    if i == 9:
        return r.call("queue", [11, 20, 0])
    return r.call("contrast", [i])


def replay_behaviour(beh):
    r = Rig(delay=SIM["delay"], nxt=SIM["nxt"], mode="chunk", driver="tlc-simulate")
    agree, diff = 0, None
    for st in beh[1:]:
        la = st["last"]
        op, a = la["op"], la["a"]
        got, want = {}, {}
        if op == "queue":
            e = user_call(r, a)
            got["wrote"], want["wrote"] = e["wrote"], list(la["wrote"])
        elif op == "draw":
            e = r.draw(model_canvas(a))
            got["wrote"], want["wrote"] = e["wrote"], list(la["wrote"])
        elif op == "style":
            r.call("cursor_style", [a])
        elif op == "ack":
            r.dev()
        elif op == "press":
            r.devkey(a)
        elif op == "release":
            r.devkey(a + 6)
        elif op == "junk":
            r.junk(JUNK.get(a, [64]))
        elif op == "corrupt":
            r.corrupt(a, (r.transit[a - 1] + 1) % 256)
        elif op == "poll":
            r.deliver(a)
            e = r.poll()
            got.update(wrote=e["wrote"], keys=e["keys"], raw=e["raw"], timeout=e["timeout"])
            want.update(wrote=list(la["wrote"]), keys=list(la["keys"]), raw=list(la["raw"]), timeout=la["timeout"])
        elif op == "time":
            r.time(a)
        else:
            raise MachineryError(f"x03: unknown model action {op}")
        h = st["h"]
        s = r.s
        got.update(queue=[[int(c), list(d)] for c, d in s._command_queue], infl=-1 if s._last_command is None else int(s._last_command),
                   buf=list(s._unprocessed), held=sorted(s.key_repeat.pressed), multi=bool(s.key_repeat.multiple_pressed),
                   transit=list(r.transit), style=s.cursor_style)
        want.update(queue=[[q["c"], list(q["d"])] for q in h["queue"]], infl=h["infl"], buf=list(h["buf"]), held=sorted(h["kr"]["held"]),
                    multi=bool(h["kr"]["multi"]), transit=list(st["transit"]), style=h["style"])
        if got == want:
            agree += 1
        else:
            diff = {"action": op, "a": a, "differs": sorted(k for k in got if got[k] != want[k]),
                    "spec": {k: want[k] for k in got if got[k] != want[k]}, "code": {k: got[k] for k in got if got[k] != want[k]}}
            break
    return r.close(), agree, diff


# ------------------------------------------------------------------------------------------------
def _detail(tr, l):
    e = tr["ev"][l - 1]
    d = {"driver": tr.get("driver"), "mode": tr.get("mode"), "delay": tr["delay"], "nxt": tr["nxt"],
         "event": {k: (v if not isinstance(v, list) or len(v) <= 30 else v[:30] + ["..."]) for k, v in e.items() if k != "rows"},
         "history": [(x.get("t") or x.get("op") or "") + (":" + str(x["op"]) if x.get("t") == "call" else "") for x in tr["ev"][:l]][-10:]}
    return d


def _handle(chk, traces, res):
    for ti, l, why in res.rejects:
        if why.startswith("HARNESS_"):
            raise MachineryError(f"x03 harness error {why}: {json.dumps(_detail(traces[ti], l))[:800]}")
        chk.divergence(why, _detail(traces[ti], l))


class Sink:
    """Recorded traces on their way to TLC: validated in chunks (and dropped) so that the thorough tier stays in memory."""

    def __init__(self, chk, quick):
        self.chk, self.quick = chk, quick
        self.buf = []
        self.n_ev = 0
        self.kinds = {}
        self.nontriv = set()
        self.samples = {}
        self.total = tlc.TVResult()

    def append(self, t):
        self.buf.append(t)
        self.n_ev += len(t["ev"]) + 1
        if not self.quick and self.n_ev > 160000:
            self.flush()

    def __iadd__(self, ts):
        for t in ts:
            self.append(t)
        return self

    def last(self):
        return self.buf[-1]

    def flush(self):
        traces, self.buf, self.n_ev = self.buf, [], 0
        if not traces:
            return
        res = tlc.validate("LcdLinkTrace", traces, batch_events=13000 if self.quick else 40000, jobs=4, timeout=1500)
        _handle(self.chk, traces, res)
        tot = self.total
        for f in ("traces", "events", "consumed", "states", "generated", "wall_s", "batches"):
            setattr(tot, f, getattr(tot, f) + getattr(res, f))
        tot.rejects += res.rejects
        for t in traces:
            self.samples.setdefault(t["driver"], t)
            self._count(t)

    def _count(self, t):
        kinds, nontriv = self.kinds, self.nontriv
        for e in t["ev"]:
            if t["kind"] != "link":
                c = t["kind"] + "." + (e.get("op") or e.get("k") or "crc")
            elif e["t"] == "poll":
                tags = []
                if e["wrote"]:
                    tags.append("sends_next")
                if e["keys"]:
                    tags.append("keys")
                if e["unproc"]:
                    tags.append("holds_back")
                if e["timeout"] >= 0:
                    tags.append("timeout")
                c = "poll." + ("+".join(tags) or "idle")
                if e["took"] or e["keys"]:
                    nontriv.add(hash((tuple(e["took"]), tuple(e["keys"]), e["timeout"], e["infl"], len(e["queue"]))))
            elif e["t"] == "call":
                c = "call." + e["op"] + (".refused" if e["exc"] else "")
            elif e["t"] == "draw":
                c = "draw." + ("refused" if e["exc"] else "in_flight" if not e["wrote"] else "idle_line")
                nontriv.add(hash((tuple(map(tuple, e["rows"])), tuple(e["cur"]), tuple(e["wrote"]), len(e["queue"]))))
            else:
                c = e["t"]
            if t["driver"] == "tlc-simulate":
                c += ".tlc-simulate"
            kinds[c] = kinds.get(c, 0) + 1


def run(chk):
    import urwid

    quick = chk.tier == "quick"
    rng = chk.rng
    urwid.set_encoding("utf8")
    lcd = lcd_module()
    real_time = lcd.time
    t_start = time.time()
    try:
        import serial  # noqa: F401
        have_serial = True
    except ImportError:
        have_serial = False
    chk.cov["pyserial_installed"] = have_serial

    pool = cf.ThreadPoolExecutor(5 if quick else 6)
    futs, wf = model_checking(chk, quick, pool)
    f_sim = pool.submit(tlc.simulate, "LcdLink", mc_cfg(**SIM), num=80 if quick else 1500, depth=36, seed=chk.seed,
                        jobs=1 if quick else 3, timeout=1200)
    traces = Sink(chk, quick)
    counts = {}
    try:
        cvs = widget_canvases()

        # ---- every short history over the alphabet ------------------------------------------------------
        n_short = 0
        maxlen = 3 if quick else 4
        for n in range(1, maxlen + 1):
            for seq in itertools.product(ALPHABET, repeat=n):
                if quick and n < maxlen and n > 1:
                    continue
                t = hist_short(seq, cvs, "byte" if n_short % 2 else "chunk")
                if t is not None:
                    traces.append(t)
                    n_short += 1
        counts["short_histories"] = n_short

        # ---- key repeat time lines ----------------------------------------------------------------------
        n_rep = 0
        for delay, nxt in ((32, 8), (4, 2), (8, 8), (3, 1)):
            for mode in ("chunk", "byte"):
                traces.append(hist_repeat_timeline(delay, nxt, mode))
                traces.append(hist_repeat_timeline(delay, nxt, mode, step=nxt))
                traces.append(hist_repeat_timeline(delay, nxt, mode, second=(delay // 2, 2)))       # a second key goes down
                traces.append(hist_repeat_timeline(delay, nxt, mode, second=(delay // 2, 1)))       # the same key reported again
                n_rep += 4
        # the two known divergences, judged strictly by the documentation (same = 0 / tnone = 0)
        traces.append(hist_repeat_timeline(4, 2, "chunk", same=1, tnone=0, driver="documented-timeout"))
        traces.append(hist_repeat_timeline(4, 2, "chunk", same=0, tnone=1, second=(2, 1), driver="documented-same-key"))
        for mode in ("chunk", "byte"):
            traces.append(hist_all_keys(mode))
            traces.append(hist_all_keys(mode, keymap=("k", "j", "h", "l", " ", "q")))
        counts["repeat_timelines"] = n_rep + 2
        counts["all_keys_histories"] = 4

        # ---- every cut of a reply stream; noise and corruption in front of good packets ---------------
        n_cut = 0
        probe = Rig()
        stream_ack_keys(probe)
        total = len(probe.transit)
        for a in range(0, total + 1):
            for b in range(a, total + 1):
                if quick and (a + b) % 2:
                    continue
                traces.append(hist_cuts(stream_ack_keys, (a, b), "byte" if (a + b) % 4 == 0 else "chunk"))
                n_cut += 1
        for ni, noise in enumerate(NOISE):
            for cuts in ((), (1,), (len(noise),), (len(noise) + 2,), tuple(range(1, 16))):
                traces.append(hist_cuts(stream_noise(noise), cuts, "byte" if ni % 2 else "chunk", driver="noise"))
                n_cut += 1
        for at in range(1, 10):
            for cuts in ((), tuple(range(1, 14))):
                traces.append(hist_cuts(stream_noise([], corrupt_at=at), cuts, "chunk" if at % 2 else "byte", driver="corruption"))
                n_cut += 1
        counts["cut_noise_corruption_histories"] = n_cut

        # ---- setters, draw sequences --------------------------------------------------------------------
        for bad in ([11, 20, 0], [11, 0, 4], [12, 5], [33], [31, 0, 0], [14, 101], [34, 13, 0], [6, 1]):
            traces.append(hist_error_reply("chunk", bad))
            traces.append(hist_error_reply("byte", bad))
        traces.append(hist_setters("chunk"))
        traces.append(hist_setters("byte"))
        names = list(cvs)
        n_draw = 0
        pairs = list(itertools.product(names, repeat=2))
        for i, (a, b) in enumerate(pairs):
            if a == "attr2" or b == "attr2":
                continue                      # same text in other attribute runs: one directed history below
            traces.append(hist_draws([a, b, a], cvs, "chunk", ("all", "one", "none")[i % 3]))
            n_draw += 1
        for st in ((0, 2, 0), (1, 0, 3), (4, 4, 4), (2, 2, 0)):
            for seq in (("edit3", "edit3", "edit3"), ("edit0", "edit3", "editnf"), ("editnf", "editnf", "edit0"), ("full", "badsize", "full")):
                traces.append(hist_draws(list(seq), cvs, "byte", "all", styles=st))
                traces.append(hist_draws(list(seq), cvs, "chunk", "none", styles=st))
                n_draw += 2
        traces.append(hist_draws(["attr", "attr2", "text"], cvs, "chunk", "all", driver="same-text-other-runs"))
        counts["draw_histories"] = n_draw + 1

        # ---- KeyRepeatSimulator alone: every history over its alphabet ---------------------------------------
        n_krs = 0
        klen = 4 if quick else 5
        for seq in itertools.product(KRS_ALPHA, repeat=klen):
            if seq[0][0] not in "p":
                continue                      # histories start with a press (shorter ones are contained as suffix-free prefixes)
            # pressing a key that is already down is judged with urwid's behaviour adopted, except in the strict runs below
            traces.append(hist_krs(seq, 4, 2, 1))
            n_krs += 1
        traces.append(hist_krs(("pa", "t1", "pa", "tD", "n"), 4, 2, 0))
        traces.last()["driver"] = "documented-same-key"
        counts["krs_histories"] = n_krs + 1

        # ---- parser and CRC -----------------------------------------------------------------------------
        pt = parse_traces(rng, 300 if quick else 20000)
        ct = crc_traces(rng, 200 if quick else 5000)
        traces += pt + ct
        counts["parse_buffers"] = sum(len(t["ev"]) for t in pt)
        counts["crc_buffers"] = sum(len(t["ev"]) for t in ct)

        # ---- seeded random long histories ------------------------------------------------------------------
        n_rand = 60 if quick else 3000
        for i in range(n_rand):
            traces.append(hist_random(rng, 60 if quick else 90, cvs, "byte" if i % 2 else "chunk", faults=i % 3 != 0))
        counts["random_histories"] = n_rand

        # ---- spec -> code ----------------------------------------------------------------------------------
        behs = f_sim.result()
        agree = steps = 0
        for b in behs:
            tr, a, diff = replay_behaviour(b)
            traces.append(tr)
            agree += a
            steps += len(b) - 1
            if diff:
                chk.divergence(f"spec_to_code_state_differs.{diff['action']}.{diff['differs'][0]}", diff)
        chk.cov["spec_to_code_behaviours"] = len(behs)
        chk.cov["spec_to_code_steps"] = steps
        chk.cov["spec_to_code_steps_agreeing"] = agree
    finally:
        lcd.time = real_time
    drive_s = time.time() - t_start
    chk.cov["histories"] = counts

    # ---- TLC judges every recorded event ------------------------------------------------------------------
    traces.flush()
    chk.add_tv("TV_LcdLinkTrace", traces.total)

    collect_mc(chk, futs, wf)
    pool.shutdown()

    # ---- coverage bookkeeping -----------------------------------------------------------------------------
    kinds, nontriv = traces.kinds, traces.nontriv
    chk.cov["clause_counts"] = dict(sorted(kinds.items()))
    chk.cov["distinct_nontrivial"] = len(nontriv)
    for need in ("poll.sends_next", "poll.keys", "poll.holds_back", "poll.keys+timeout", "call.backlight.refused", "draw.in_flight",
                 "draw.idle_line", "draw.refused", "junk", "corrupt", "settled", "krs.next", "parse.pkt", "parse.bad", "parse.more",
                 "poll.keys.tlc-simulate", "draw.idle_line.tlc-simulate", "corrupt.tlc-simulate"):
        if not kinds.get(need):
            chk.vacuity.append("driver." + need)
    chk.cov["rule"] = (f"every history of length <= {maxlen} over a 15-letter alphabet (queue, draw, device answer, key reports, delivery of one / all "
                       "bytes, poll, time, noise, corruption) with a fault-free continuation; key held through delay and repeats polled at every tick; "
                       "every two-cut delivery of a reply stream; 11 noise patterns and every single corrupted byte in front of good packets; all "
                       "setter boundary values; every ordered pair of 9 canvases drawn a-b-a with all / one / no acknowledgement in between; every "
                       f"KeyRepeatSimulator history of length {klen} over 9 letters; truncations / single-byte corruptions of packets through "
                       "_parse_data; get_crc on fixed and random buffers; seeded random histories; TLC -simulate behaviours replayed.  "
                       "non-trivial = distinct (bytes read, keys, timeout, queue situation) of a poll or (canvas, packets) of a draw")
    chk.cov["exhaustive"] = True
    chk.cov["drive_wall_s"] = round(drive_s, 1)
    for d in ("repeat-timeline", "tlc-simulate", "noise"):
        if d in traces.samples:
            chk.sample(traces.samples[d])
    chk.cov["trusted_base"] = ["TLC", "CommunityModules Bitwise (xor) / Json / IOUtils",
                               "vf/props/x03.py: FakeSerial (byte pipe in place of serial.Serial), Clock (in place of the time module), "
                               "device_reply / packet (scripted device; every answer is re-derived by the reference device of the trace spec), "
                               "projection of _command_queue / _last_command / _unprocessed / key_repeat"]
    chk.assumptions += [
        "pyserial is " + ("installed but not used" if have_serial else "not installed") + ": the serial port is a byte pipe with pyserial's read(size=1) "
        "contract (mode byte) or one that returns everything that arrived (mode chunk)",
        "clock values are multiples of 1/64 s so that the floating-point arithmetic of KeyRepeatSimulator is exact",
        "host -> device direction is reliable (the protocol engine has no retransmission; lost acknowledgements stall the queue: shown by TLC)",
        "canvas text is ASCII in a single-byte-per-cell encoding (the class sends canvas bytes unchanged; CGROM is documentation only)",
        "sent_event() restarts the period from the moment the repeat was sent (time between repeats = repeat_next measured at the poll)",
        "known divergences adopted in all but the strict histories: pressing a key already down counts as a second key; timeout None after a sent repeat",
    ]


def replay(chk, path):
    with open(path) as f:
        rp = json.load(f)
    tr = rp["replay"]["trace"]
    res = tlc.validate("LcdLinkTrace", [tr])
    chk.add_tv("replay", res)
    _handle(chk, [tr], res)
    chk.sample(tr)
    return chk.finish()
