"""C10 — the Edit widget behaves as a text editor model for any key sequence.
Reference editor: spec/EditOps.tla (Ref; RefInt = the integer variant: digits only, zeros in front of the number left of the cursor dropped
after every key); model: spec/Edit.tla (every alignment, wrap any / clip, the view of the focused widget shifted to the cursor, the integer
variant; wrong designs refuted); trace spec: spec/EditTrace.tla.

The driver records key / click sequences on real widgets in worker processes (snapshot after every key: text, offset, cursor from
get_cursor_coords and from the focused canvas, the cursor stops of the layout the widget reports, signals) and TLC judges every event:
cursor inside the widget, cursor on the stop of the offset (every alignment, every wrap mode incl. clip), text / offset / handled equal to the
reference, signal pairs.  Families: exhaustive short sequences on small configurations, narrow widths with double-width characters, align
right / center x wrap space / any / clip at widths around the row length, rows mixing double-width and zero-width characters (clicks on every
column, every preferred column carried in), seeded random sequences, IntEdit / IntegerEdit / FloatEdit random and exhaustive sequences,
IntEdit with numbers holding zeros (judged by RefInt)."""
from __future__ import annotations

import hashlib
import json
import multiprocessing

from .. import term, tlc

KEYNAMES = ["left", "right", "up", "down", "home", "end", "backspace", "delete", "enter", "tab", "f5", "page up", "ctrl x", "esc"]


def stops_of(layout, full, is_bytes, enc, w=None):
    """Cursor stops per display row from the layout the widget reports (segments of caption+text)."""
    rows = []
    if is_bytes:
        # byte offsets -> character indices
        bmap = {}
        ci = 0
        bo = 0
        text = full.decode(enc)
        for ch in text:
            bmap[bo] = ci
            bo += len(ch.encode(enc))
            ci += 1
        bmap[bo] = ci
        chars = text

        def idx(o):
            return bmap[o]  # KeyError = offset inside a character (caught by caller)
    else:
        chars = full

        def idx(o):
            return o
    for line in layout:
        row = []
        col = 0
        endpos = None
        endcol = 0
        for seg in line:
            if len(seg) == 3 and isinstance(seg[1], int) and isinstance(seg[2], int):
                s, e = idx(seg[1]), idx(seg[2])
                for p in range(s, e):
                    cw = term.char_width(chars[p])
                    # a zero-width (combining) character has no cell of its own: it is drawn into the cell of the character in front of
                    # it.  Its offset is a stop of width 0 (left / right move by one character) that no column designates: a click on
                    # the cell, or a preferred column inside it, belongs to the base character's stop.
                    row.append([p, col, cw, 1 if cw == 0 else 0])
                    col += cw
                endpos = e
                endcol = col
            elif len(seg) == 2:
                if seg[1] is not None and endpos is None:
                    endpos = idx(seg[1])
                    endcol = col
                col += seg[0]
            else:  # inserted text (ellipsis): occupies columns, belongs to no offset
                col += seg[0]
        if endpos is None:
            endpos = 0
        row.append([endpos, endcol, 0, 0])
        rows.append(row)
    # a soft-wrapped row (filled to the last column, or followed by a wide character that did not fit into the cells left) has no
    # end-of-row stop of its own: that offset is the first stop of the next row, and the layout has no end marker for it
    if w is not None:
        for r in range(len(rows) - 1):
            end = rows[r][-1]
            if len(rows[r]) > 1 and rows[r + 1][0][0] == end[0]:
                rows[r].pop()
    return rows


def snapshot(e, w, caplen, is_bytes, enc):
    full = e.get_text()[0]
    et = e.edit_text
    aligned = True
    if is_bytes:
        try:
            et[: e.edit_pos].decode(enc)
            et[e.edit_pos:].decode(enc)
            pos = len(et[: e.edit_pos].decode(enc))
            text = [ord(c) for c in et.decode(enc)]
        except UnicodeDecodeError:
            aligned = False
            pos = e.edit_pos
            text = list(et)
    else:
        pos = e.edit_pos
        text = [ord(c) for c in et]
    cur = list(e.get_cursor_coords((w,)))
    canv = e.render((w,), True)
    rcur = list(canv.cursor) if canv.cursor is not None else [-1, -1]
    try:
        st = stops_of(e.get_line_translation(w), full, is_bytes, enc, w)
    except KeyError:
        st = [[[0, 0, 0, 0]]]
        aligned = False
    return {"text": text, "pos": pos, "cur": cur, "rcur": rcur, "stops": st, "aligned": aligned}


DUMMY = {"text": [], "pos": 0, "cur": [0, 0], "rcur": [0, 0], "stops": [[[0, 0, 0, 0]]], "aligned": True}


def keyrec(k, c=0, x=0, y=0):
    return {"k": k, "c": c, "x": x, "y": y}


def run_edit(cfg, keys):
    """cfg: caption, text, w, wrap, align, multiline, allow_tab, bytes(bool), enc.  keys: list of key records."""
    import urwid

    enc = cfg.get("enc", "utf-8")
    urwid.set_encoding(enc)
    cap, txt = cfg["caption"], cfg["text"]
    is_bytes = cfg.get("bytes", False)
    if is_bytes:
        cap, txt = cap.encode(enc), txt.encode(enc)
    if cfg.get("kind") == "IntEdit":
        e = urwid.IntEdit(cap, cfg["opts"].get("default"))
        kind, numeric, allowed = "int", 1, [ord(c) for c in "0123456789"]
    else:
        e = urwid.Edit(cap, txt, multiline=cfg["multiline"], allow_tab=cfg["allow_tab"], wrap=cfg["wrap"], align=cfg["align"],
                       mask=cfg.get("mask") if not is_bytes else None)
        kind, numeric, allowed = "edit", 0, []
    if cfg.get("pos") is not None:
        e.set_edit_pos(cfg["pos"])
    w = cfg["w"]
    head = {"caplen": len(cfg["caption"]), "numeric": numeric, "kind": kind, "w": w, "allowed": allowed, "neg": 0,
            "opt": {"multiline": cfg["multiline"], "allow_tab": cfg["allow_tab"]}, "cfg": cfg, "keys": keys}
    caplen = len(cfg["caption"])
    sigs = []
    if cfg.get("validator"):
        # an application handler connected earlier that answers with a value (a validator): the signals must still reach every handler
        urwid.connect_signal(e, "change", lambda wd, new: True)
        urwid.connect_signal(e, "postchange", lambda wd, old: 1)
    urwid.connect_signal(e, "change", lambda wd, new: sigs.append(("change", new, wd.edit_text)))
    urwid.connect_signal(e, "postchange", lambda wd, old: sigs.append(("postchange", old, wd.edit_text)))

    def codes(t):
        if isinstance(t, bytes):
            try:
                return [ord(c) for c in t.decode(enc)]
            except UnicodeDecodeError:
                return list(t)
        return [ord(c) for c in t]

    ev = []
    judge = 1 if cfg.get("judge", True) else 0
    try:
        pre = snapshot(e, w, caplen, is_bytes, enc)
    except Exception as ex:  # noqa: BLE001
        return {**head, "init": DUMMY, "ev": [{"exc": "snapshot:" + type(ex).__name__, "key": keyrec("f5"), "judge": 0}]}
    head["init"] = pre
    for k in keys:
        del sigs[:]
        rec = {"key": k, "exc": "", "ret": 0, "judge": 0 if (k["k"] == "tab" and is_bytes) else judge, "pre": pre}
        try:
            if k["k"] == "click":
                r = e.mouse_event((w,), "mouse press", 1, k["x"], k["y"], True)
                rec["ret"] = 0 if r else 1
            else:
                key = chr(k["c"]) if k["k"] == "char" else k["k"]
                r = e.keypress((w,), key)
                rec["ret"] = 0 if r is None else 1
                if r is not None and r != key:
                    rec["exc"] = "returned_key_changed"
            post = snapshot(e, w, caplen, is_bytes, enc)
        except Exception as ex:  # noqa: BLE001
            rec["exc"] = type(ex).__name__
            post = pre
        rec["post"] = post
        rec["sig"] = [{"name": n, "arg": codes(a), "cur": codes(c)} for n, a, c in sigs]
        ev.append(rec)
        pre = post
        if rec["exc"]:
            break
    return {**head, "ev": ev}


def int_cfg(default, w=24, caption="n ", pos=None):
    """IntEdit recorded like an Edit (stops, cursor, signals) and judged by the integer reference (EditOps.RefInt)."""
    return {"kind": "IntEdit", "opts": {"default": default}, "caption": caption, "text": "", "w": w, "wrap": "space", "align": "left",
            "multiline": False, "allow_tab": False, "pos": pos}


def run_numeric(kind, opts, keys):
    import urwid
    from urwid import numedit

    if kind == "IntEdit":
        return run_edit(int_cfg(opts.get("default")), keys)
    urwid.set_encoding("utf-8")
    neg = 0
    if kind == "IntegerEdit":
        base = opts.get("base", 10)
        neg = 1 if opts.get("neg") else 0
        e = numedit.IntegerEdit("n ", opts.get("default"), base=base, allow_negative=bool(neg))
        allowed = "0123456789ABCDEFGHIJKLMNOPQRSTUVWXYZ"[:base]
        allowed += allowed.lower()
    else:
        neg = 1 if opts.get("neg") else 0
        sep = opts.get("sep", ".")
        e = numedit.FloatEdit("n ", opts.get("default"), preserveSignificance=opts.get("sig", True), decimalSeparator=sep, allow_negative=bool(neg))
        allowed = "0123456789" + sep
    ev = []
    w = 12
    dummy = DUMMY
    for k in keys:
        rec = {"key": k, "exc": "", "ret": 0, "judge": 0, "pre": dummy, "sig": []}
        try:
            key = chr(k["c"]) if k["k"] == "char" else k["k"]
            r = e.keypress((w,), key)
            rec["ret"] = 0 if r is None else 1
            e.render((w,), True)
        except Exception as ex:  # noqa: BLE001
            rec["exc"] = type(ex).__name__
        t = e.edit_text
        rec["post"] = {"text": [ord(c) for c in t], "pos": e.edit_pos, "cur": [0, 0], "rcur": [0, 0], "stops": [[[0, 0, 0, 0]]], "aligned": True}
        ev.append(rec)
        if rec["exc"]:
            break
    return {"init": DUMMY, "caplen": 2, "numeric": 1, "kind": "num", "w": w, "allowed": [ord(c) for c in allowed], "neg": neg, "opt": {"multiline": False, "allow_tab": False},
            "cfg": {"kind": kind, "opts": opts}, "keys": keys, "ev": ev}


def random_keys(rng, n, w, chars, rows=4):
    out = []
    for _ in range(n):
        r = rng.random()
        if r < 0.35:
            out.append(keyrec("char", ord(rng.choice(chars))))
        elif r < 0.9:
            out.append(keyrec(rng.choice(KEYNAMES[:10] + ["left", "right", "up", "down", "backspace", "home", "end"] + KEYNAMES[10:])))
        else:
            out.append(keyrec("click", 0, rng.randint(0, w - 1), rng.randint(0, rows)))
    return out


MC_CFG = """CONSTANTS Chars = {chars} W = {w} Depth = {d} Multiline = {ml} Align = "{align}" Wrap = "{wrap}" Kind = "{kind}" View = "{view}" Trim = "{trim}"
Caption <- {cap}
Start <- {start}
SPECIFICATION Spec
INVARIANT PosInRange
INVARIANT CursorOnChar
INVARIANT CursorInsideWidget
INVARIANT ClickOnCursorKeepsOffset
INVARIANT HomeEndStayOnRow
INVARIANT VerticalKeepsText
INVARIANT UnusedKeyNoChange
INVARIANT IntDigitsOnly
INVARIANT IntNoZeroLeftOfCursor
INVARIANT IntTrimKeepsDigits
CHECK_DEADLOCK FALSE
"""


def mc_cfg(**kw):
    d = {"chars": "{97, 98, 32}", "w": 3, "d": 4, "ml": "TRUE", "align": "left", "wrap": "any", "kind": "edit", "view": "shift", "trim": "trim",
         "cap": "CaptionDef", "start": "StartEmpty"}
    d.update(kw)
    return MC_CFG.format(**d)


def mc_runs(quick):
    """(name, cfg, the invariant a wrong design must be refuted by or None) of the model runs."""
    dd = 0 if quick else 1
    return [
        ("MC_Edit_reference_editor", mc_cfg(d=4 + 2 * dd), None),
        ("MC_Edit_right_aligned", mc_cfg(align="right", d=3 + 3 * dd), None),
        ("MC_Edit_centred", mc_cfg(align="center", w=4, d=3 + dd), None),
        ("MC_Edit_clip_right", mc_cfg(align="right", wrap="clip", start="StartAbc", d=3 + dd, chars="{97, 32}"), None),
        ("MC_Edit_clip_centred", mc_cfg(align="center", wrap="clip", start="StartAbc", d=3 + dd, chars="{97, 32}"), None),
        ("MC_IntEdit_reference", mc_cfg(kind="int", chars="{48, 55, 97}", w=5 + 3 * dd, d=4 + dd, ml="FALSE", start="Start502", cap="NoCaption"), None),
        # wrong designs: the view does not follow the cursor; a view shift that cancels the alignment padding is dropped; zeros are dropped
        # from the text before the cursor is moved (the cursor is pulled back twice at the end of the text)
        ("MC_refute_view_never_shifted", mc_cfg(view="noshift"), "CursorInsideWidget"),
        ("MC_refute_shift_dropped_when_it_cancels_alignment", mc_cfg(align="right", view="keepOnCancel"), "CursorInsideWidget"),
        ("MC_refute_zeros_dropped_before_cursor_moved",
         mc_cfg(kind="int", chars="{48, 55}", w=5, d=4, ml="FALSE", start="Start502", cap="NoCaption", trim="clampFirst"), "IntTrimKeepsDigits"),
    ]


def situations(t):
    """Vacuity counters of one recorded trace: which keys were judged, which of the situations the families are built for occurred."""
    out = {}

    def hit(name):
        out[name] = out.get(name, 0) + 1

    cfg = t["cfg"]
    for e in t["ev"]:
        hit(("numeric." if t["numeric"] else "edit.") + e["key"]["k"] + (".judged" if e.get("judge") else ""))
        if t["kind"] == "num" or "post" not in e or e["exc"]:
            continue
        post, pre = e["post"], e["pre"]
        row = post["stops"][post["cur"][1]] if 0 <= post["cur"][1] < len(post["stops"]) else [[0, 0, 0, 0]]
        at = post["pos"] + t["caplen"]
        if t["kind"] == "edit":
            narrow = row[-1][1] - row[0][1] < t["w"]
            if cfg["align"] != "left" and row[0][1] > 0:
                hit("situation.cursor_on_row_moved_by_alignment." + cfg["align"])
            if cfg["align"] != "left" and narrow and row[0][1] == 0 and row[-1][0] == at and len(row) > 1:
                hit("situation.view_shift_cancels_alignment_padding." + cfg["align"])
            if cfg["wrap"] == "clip" and row[0][1] < 0:
                hit("situation.clip_view_shifted_left")
            if cfg["wrap"] == "clip" and row[-1][1] > t["w"] and post["cur"][0] == 0:
                hit("situation.clip_cursor_at_hidden_row_start" if row[0][0] == at else "situation.clip_row_overflows_right")
            zw = any(s[2] == 0 for s in row[:-1])
            if zw and any(s[2] == 2 for s in row) and e["key"]["k"] in ("click", "up", "down") and e["judge"]:
                hit("situation.column_into_row_mixing_wide_and_zero_width." + e["key"]["k"])
            if zw and any(s[2] == 0 and s[0] == at for s in row[:-1]):
                hit("situation.cursor_on_zero_width_character")
        else:
            used = e["ret"] == 0
            dropped = len(pre["text"]) + (1 if e["key"]["k"] == "char" and used else 0) - (1 if e["key"]["k"] in ("backspace", "delete") and used else 0) - len(post["text"])
            if pre["text"][:1] == [48] and pre["pos"] == 0:
                hit("situation.intedit.leading_zero_at_cursor_start")
            if dropped > 0:
                hit("situation.intedit.zeros_dropped")
                if post["pos"] == len(post["text"]) and post["text"]:
                    hit("situation.intedit.zeros_dropped_cursor_at_end")
                if 0 < post["pos"] < len(post["text"]):
                    hit("situation.intedit.zeros_dropped_cursor_inside")
    return out


NEED = ["cursor_on_row_moved_by_alignment.right", "cursor_on_row_moved_by_alignment.center", "view_shift_cancels_alignment_padding.right",
        "view_shift_cancels_alignment_padding.center", "clip_view_shifted_left", "clip_cursor_at_hidden_row_start",
        "column_into_row_mixing_wide_and_zero_width.click", "column_into_row_mixing_wide_and_zero_width.up", "column_into_row_mixing_wide_and_zero_width.down",
        "cursor_on_zero_width_character", "intedit.leading_zero_at_cursor_start", "intedit.zeros_dropped", "intedit.zeros_dropped_cursor_at_end",
        "intedit.zeros_dropped_cursor_inside"]
FAMILIES = ("small", "wide", "aligned", "mixed_width", "mixed_keys", "random", "numeric_random", "numeric_exhaustive", "intedit_zeros", "numeric_digit_like")


def record(cfg, keys):
    if "kind" in cfg and cfg["kind"] != "IntEdit":
        return run_numeric(cfg["kind"], cfg["opts"], keys)
    if cfg.get("kind") == "IntEdit" and "w" not in cfg:
        cfg = int_cfg(cfg["opts"].get("default"))
    return run_edit(cfg, keys)


def _record(job):
    """Worker process: one key sequence on a fresh widget -> (family, trace for TLC, what stays with the driver, vacuity counters)."""
    family, cfg, keys = job
    try:
        tr = record(cfg, keys)
    except Exception as ex:  # noqa: BLE001  (constructor of a numeric variant rejected the option combination)
        if "kind" in cfg and cfg["kind"] != "IntEdit":
            return family, "numeric_constructor_rejected." + type(ex).__name__, None, None
        raise
    return family, slim(tr), {"cfg": tr["cfg"], "keys": tr["keys"]}, situations(tr)


def _handle(chk, traces, res):
    for ti, l, why in res.rejects:
        tr = traces[ti]
        if "ev" not in tr:      # the driver kept configuration and keys only: record the (deterministic) sequence again for the replay file
            tr = record(tr["cfg"], tr["keys"])
        e = tr["ev"][l - 1]
        cfg = tr["cfg"]
        sig = {"key": e["key"]["k"], "exc": e["exc"], "wrap": cfg.get("wrap", ""), "align": cfg.get("align", ""), "kind": cfg.get("kind", "Edit"),
               "bytes": bool(cfg.get("bytes", False)), "w": cfg.get("w", 0)}
        # where the layout the widget reports has no place for the cursor offset (findings: a display row of zero-width characters only)
        post = e.get("post") or {}
        at = post.get("pos", 0)
        sig["offset_in_layout"] = any(s[0] == at + tr["caplen"] for row in post.get("stops", []) for s in row)
        sig["zero_width_at_offset"] = bool(tr["kind"] == "edit" and post.get("aligned") and at < len(post.get("text", []))
                                           and post["text"][at] != 10 and term.char_width(chr(post["text"][at])) == 0)
        chk.reject(f"C10.{why}", sig, {"cfg": cfg, "keys": tr["keys"][:l], "observed": {k: e[k] for k in ("key", "exc", "ret", "pre", "post", "sig") if k in e}})


TLC_FIELDS = ("caplen", "numeric", "kind", "w", "allowed", "neg", "opt", "init")


def slim(tr):
    """What the trace specification reads: no configuration / key list, and the snapshot before an event only once (it is the snapshot
    after the event in front of it)."""
    out = {k: tr[k] for k in TLC_FIELDS}
    out["ev"] = [{k: v for k, v in e.items() if k != "pre"} for e in tr["ev"]]
    return out


class _Validator:
    """Trace validation overlapped with the recording: full batches go to TLC while the worker processes record the next sequences."""

    def __init__(self, batch_events, jobs, timeout):
        import concurrent.futures as cf

        self.cf = cf
        self.pool = cf.ThreadPoolExecutor(jobs)
        self.batch_events, self.timeout, self.jobs = batch_events, timeout, jobs
        self.batch, self.futs, self.count, self.n = [], [], 0, 0

    def add(self, tr):
        self.batch.append(tr)
        self.count += 1
        self.n += len(tr["ev"]) + 1
        if self.n >= self.batch_events:
            self.flush()

    def flush(self):
        if self.batch:
            pending = [f for _, f in self.futs if not f.done()]
            if len(pending) >= self.jobs + 2:          # do not pile up batches in memory faster than TLC takes them
                self.cf.wait(pending, return_when=self.cf.FIRST_COMPLETED)
            self.futs.append((self.count - len(self.batch),
                              self.pool.submit(tlc.validate, "EditTrace", self.batch, batch_events=10 ** 9, jobs=1, timeout=self.timeout)))
            self.batch, self.n = [], 0

    def result(self):
        self.flush()
        res = tlc.TVResult()
        for off, f in self.futs:
            r = f.result()
            res.traces += r.traces
            res.events += r.events
            res.consumed += r.consumed
            res.states += r.states
            res.generated += r.generated
            res.batches += 1
            res.wall_s += r.wall_s
            res.rejects += [(off + ti, l, why) for ti, l, why in r.rejects]
        self.pool.shutdown()
        return res


ZW = "́"      # a combining (zero-width) character
WIDE = "字"    # a double-width character


def words(alphabet, lengths):
    import itertools

    return ["".join(t) for n in lengths for t in itertools.product(alphabet, repeat=n)]


def run(chk):
    import concurrent.futures as cf
    import itertools
    import time

    quick = chk.tier == "quick"
    rng = chk.rng
    t_start = time.time()
    # the recording (real widgets) runs in forked worker processes, the model checking and the trace validation (TLC) beside it
    rec_pool = multiprocessing.get_context("fork").Pool(4 if quick else 6)          # forked before any thread exists
    mc_pool = cf.ThreadPoolExecutor(2)
    mc_jobs = [(name, want, mc_pool.submit(tlc.mc, "Edit", cfg, timeout=2400, workers=2 if quick else 4)) for name, cfg, want in mc_runs(quick)]
    tv = _Validator(batch_events=15000, jobs=4, timeout=2400)
    fam = {}
    jobs = []

    def job(family, cfg, keys):
        jobs.append((family, cfg, keys))

    # ---- exhaustive short key sequences on small configurations ----
    base_keys = [keyrec("char", 97), keyrec("char", 32), keyrec("left"), keyrec("right"), keyrec("up"), keyrec("down"), keyrec("home"),
                 keyrec("end"), keyrec("backspace"), keyrec("delete"), keyrec("enter"), keyrec("f5"), keyrec("click", 0, 1, 1), keyrec("click", 0, 3, 0)]
    depth = 2 if quick else 3
    for wrap in ("space", "any"):
        for (cap, txt, w) in (("", "ab cd", 3), ("? ", "abc\nd", 4), ("c\n", "ab", 2)):
            cfg = {"caption": cap, "text": txt, "w": w, "wrap": wrap, "align": "left", "multiline": True, "allow_tab": False, "validator": w == 4}
            for seq in itertools.product(base_keys, repeat=depth):
                job("small", cfg, list(seq))
    # narrow widths with double-width characters: rows that end early because the next character does not fit, a cursor behind a
    # character that fills the row (found by the thorough tier's larger sample; exhaustive pairs here)
    wide_keys = [*base_keys, keyrec("char", 0x5B57), keyrec("click", 0, 1, 2), keyrec("click", 0, 0, 3)]
    for wrap in ("space", "any"):
        for (cap, txt, w) in (("字 ", "a", 2), ("", "字a\U0001f600a", 2), ("c\n", "字a", 3), ("字 ", " a", 2)):
            cfg = {"caption": cap, "text": txt, "w": w, "wrap": wrap, "align": "left", "multiline": True, "allow_tab": False}
            for seq in itertools.product(wide_keys, repeat=2):
                job("wide", cfg, list(seq))
            if not quick:
                for seq in itertools.product(wide_keys, repeat=3):
                    job("wide", cfg, list(seq))
    # ---- every alignment and wrap mode at widths around the row length: rows one or two columns narrower than the widget (the cursor
    # behind the last character needs the row moved by exactly its alignment padding), rows that fill it, rows that overflow (clip: the
    # view follows the cursor to the hidden start / end of the row).  Every pair (thorough: triple) of keys.
    for (cap, txt) in (("", "abcd"), ("? ", "ab\ncdef")):
        rowlen = 4
        for w in (rowlen - 1, rowlen, rowlen + 1, rowlen + 2):
            al_keys = [keyrec("char", 97), keyrec("left"), keyrec("right"), keyrec("up"), keyrec("down"), keyrec("home"), keyrec("end"),
                       keyrec("backspace"), keyrec("delete"), keyrec("enter"), keyrec("click", 0, 0, 0), keyrec("click", 0, w - 1, 1)]
            for align in ("right", "center") if quick else ("right", "center", "left"):
                for wrap in ("space", "any", "clip"):
                    cfg = {"caption": cap, "text": txt, "w": w, "wrap": wrap, "align": align, "multiline": True, "allow_tab": False}
                    for seq in itertools.product(al_keys, repeat=2 if quick or wrap == "space" else 3):
                        job("aligned", cfg, list(seq))
    # ---- rows mixing double-width and zero-width (combining) characters: every row over {a, wide, combining} up to a length, between two
    # plain rows.  A click on every column of the row; every preferred column carried into the row from above and from below, and through it.
    mixed_rows = words("a" + WIDE + ZW, (1, 2, 3) if quick else (1, 2, 3, 4))
    for r in mixed_rows:
        plain = "a" * (2 * max(len(x) for x in mixed_rows))
        w = len(plain) + 1
        for is_bytes in ((False,) if quick else (False, True)):
            for align in ("left", "right"):
                cfg = {"caption": "", "text": plain + "\n" + r + "\n" + plain, "w": w, "wrap": "space", "align": align, "multiline": True, "allow_tab": False,
                       "bytes": is_bytes}
                for x in range(w):
                    job("mixed_width", cfg, [keyrec("click", 0, x, 1)])
                    job("mixed_width", cfg, [keyrec("click", 0, x, 0), keyrec("down"), keyrec("down")])
                    job("mixed_width", cfg, [keyrec("click", 0, x, 2), keyrec("up"), keyrec("up")])
    # every pair of keys (incl. typing a combining character, moving by one character onto it, deleting next to it) on mixed texts
    mixed_keys = [*wide_keys, keyrec("char", ord(ZW))]
    for wrap in ("space", "any"):
        for (cap, txt, w) in (("", WIDE + "e" + ZW + "x", 3), ("? ", "e" + ZW + WIDE + "\nx" + ZW, 5)):
            cfg = {"caption": cap, "text": txt, "w": w, "wrap": wrap, "align": "left", "multiline": True, "allow_tab": False}
            for seq in itertools.product(mixed_keys, repeat=2 if quick else 3):
                job("mixed_keys", cfg, list(seq))
    # ---- seeded random sequences over the option space ----
    n_rand = 1800 if quick else 90000
    alph_simple = "ab c"
    for i in range(n_rand):
        wrap = rng.choice(["space", "any", "any", "space", "clip"])
        wide = rng.random() < 0.3
        chars = alph_simple + ("字" if wide else "") + ("\U0001F600" if wide and rng.random() < 0.5 else "")   # 3- and 4-byte characters
        if rng.random() < 0.25:
            chars += ZW
        is_bytes = rng.random() < 0.2
        enc = "utf-8"
        cfg = {"caption": rng.choice(["", "? ", "cap ", "c\n", "字 " if wide else "x"]),
               "text": "".join(rng.choice(chars + "\n") for _ in range(rng.randint(0, 8))),
               "w": rng.randint(1 if not wide else 2, 8), "wrap": wrap, "align": rng.choice(["left", "center", "right"]),
               "multiline": rng.random() < 0.7, "allow_tab": rng.random() < 0.3, "bytes": is_bytes, "enc": enc,
               "mask": "*" if (not is_bytes and rng.random() < 0.15) else None,     # hidden text: one mask character per character
               "validator": rng.random() < 0.3}
        if not cfg["multiline"]:
            cfg["text"] = cfg["text"].replace("\n", " ")
        job("random", cfg, random_keys(rng, rng.randint(2, 10), cfg["w"], chars + ("é" if is_bytes else "")))
    # ---- numeric variants ----
    for i in range(600 if quick else 20000):
        kind = ["IntEdit", "IntegerEdit", "FloatEdit"][i % 3]
        base = rng.choice([2, 8, 10, 16])
        opts = {"default": rng.choice([None, 0, 7, 120, "005", 1000, 3050]) if kind == "IntEdit" else rng.choice([None, 0, 1, 10, 11 if base > 2 else 1]),
                "base": base, "neg": rng.random() < 0.5, "sep": rng.choice([".", ","]), "sig": rng.random() < 0.5}
        if kind == "FloatEdit" and opts["default"] is not None:
            opts["default"] = rng.choice([None, "1.5" if opts["sep"] == "." else None, 2])
        keys = []
        for _ in range(rng.randint(1, 12)):
            r = rng.random()
            if r < 0.6:
                keys.append(keyrec("char", ord(rng.choice("0123456789-.,aAfFxz +e²٣５"))))
            elif r < 0.95 or kind != "IntEdit":
                keys.append(keyrec(rng.choice(["left", "right", "home", "end", "backspace", "delete", "enter", "up"])))
            else:
                keys.append(keyrec("click", 0, rng.randint(0, 9), 0))
        job("numeric_random", {"kind": kind, "opts": opts}, keys)
    # ---- numeric variants: every key sequence of length <= L over a small alphabet (sign, digits, separator, moves, deletes) ----
    nkeys = [keyrec("char", ord(c)) for c in "-10."] + [keyrec(k) for k in ("home", "end", "left", "backspace", "delete")]
    L = 4 if quick else 5
    for kind, opts in (("IntegerEdit", {"default": None, "base": 10, "neg": True}), ("FloatEdit", {"default": None, "neg": True, "sep": ".", "sig": True}),
                       ("IntegerEdit", {"default": 10, "base": 10, "neg": False}), ("IntEdit", {"default": None})):
        for seq in itertools.product(nkeys, repeat=L):
            job("numeric_exhaustive", {"kind": kind, "opts": opts}, list(seq))
    # IntEdit with a number that has zeros inside: every key sequence up to a length over digits (a zero, a non-zero), moves and deletes.
    # Deleting in front of inner zeros exposes them as leading zeros, with the cursor in front of, inside or behind them.
    zkeys = [keyrec("char", ord(c)) for c in "07"] + [keyrec(k) for k in ("home", "end", "left", "right", "backspace", "delete")]
    # Numbers over {a zero, a non-zero digit} (given as text: leading zeros included, the cursor starts behind them).
    long_defaults = words("50", (4,))
    if quick:
        long_defaults = rng.sample(long_defaults, 2)
    for d in [*words("50", (3,) if quick else (2, 3)), *long_defaults]:
        for seq in itertools.product(zkeys, repeat=3 if quick or len(d) > 3 else 4):
            job("intedit_zeros", int_cfg(d), list(seq))
        for pos in range(len(d) + 1):                 # the same, started by a click on every digit
            for seq in itertools.product(zkeys, repeat=2):
                job("intedit_zeros", int_cfg(d), [keyrec("click", 0, 2 + pos, 0), *seq])
    # digit-like characters outside the ASCII alphabet, alone and after a digit, on every numeric variant
    for kind, opts in (("IntEdit", {"default": None}), ("IntEdit", {"default": 7}), ("IntegerEdit", {"default": None, "base": 10, "neg": True}),
                       ("IntegerEdit", {"default": None, "base": 16, "neg": False}), ("FloatEdit", {"default": None, "neg": True, "sep": ".", "sig": True})):
        for ch in "²٣５①५½ＡΑ":
            for pre in ([], [keyrec("char", ord("1"))], [keyrec("char", ord("1")), keyrec("home")]):
                job("numeric_digit_like", {"kind": kind, "opts": opts}, pre + [keyrec("char", ord(ch)), keyrec("char", ord("2"))])
    t_gen = time.time()
    traces, counts, nontriv = [], {}, set()
    window = 20000      # sequences handed to the workers at a time: what they recorded ahead of TLC stays bounded
    for start in range(0, len(jobs), window):
        for family, tr, kept, sit in rec_pool.imap(_record, jobs[start:start + window], chunksize=150):
            if isinstance(tr, str):       # the constructor of a numeric variant rejected the option combination
                chk.count(tr)
                continue
            fam[family] = fam.get(family, 0) + 1
            for k, v in sit.items():
                counts[k] = counts.get(k, 0) + v
            nontriv.add(hashlib.blake2b(json.dumps([kept["cfg"], kept["keys"]], sort_keys=True, default=str).encode(), digest_size=8).digest())
            traces.append(kept)
            tv.add(tr)
    rec_pool.close()
    rec_pool.join()
    t_rec = time.time()
    res = tv.result()
    chk.add_tv("TV_EditTrace", res)
    _handle(chk, traces, res)
    t_tv = time.time()
    # ---- the model: the reference on every alignment / wrap mode / the integer variant; wrong designs refuted ----
    for name, want, fut in mc_jobs:
        r = fut.result()
        chk.add_mc(name, r)
        if want is None:
            if not r.ok:
                chk.reject("C10.model." + str(r.violated), {"model": "Edit", "run": name}, {"tlc_trace": r.trace[-5:]})
        else:
            chk.count("model.wrong_design_refuted." + name, 1 if r.violated == want else 0)
            if r.violated != want:
                chk.vacuity.append(f"model.{name}: wrong design not refuted by {want} (got {r.violated})")
    mc_pool.shutdown()
    chk.cov["phase_wall_s"] = {"generate_sequences": round(t_gen - t_start, 1), "record_on_real_widgets": round(t_rec - t_gen, 1),
                               "wait_for_trace_validation": round(t_tv - t_rec, 1), "wait_for_model_checking": round(time.time() - t_tv, 1),
                               "tlc_seconds_trace_validation": round(res.wall_s, 1)}
    chk.note(f"phases: {chk.cov['phase_wall_s']}")
    kinds = dict(chk.cov["clause_counts"])
    for k, v in counts.items():
        kinds[k] = kinds.get(k, 0) + v
    for f, c in fam.items():
        kinds["family." + f] = c
    for nm in NEED:
        if not counts.get("situation." + nm):
            chk.vacuity.append("situation." + nm)
    for f in FAMILIES:
        if not fam.get(f):
            chk.vacuity.append("family." + f)
    chk.cov["clause_counts"] = kinds
    chk.cov["distinct_nontrivial"] = len(nontriv)
    chk.cov["rule"] = ("key/click sequences on real Edit widgets: every sequence of length 2/3 over 14 keys on six small configurations (+ narrow widths with "
                       "double-width characters); every pair/triple of 12 keys for align right/center x wrap space/any/clip at widths rowlength-1..+2; a click "
                       "on every column of, and every preferred column carried into, every row over {narrow, double-width, zero-width} up to length 3/4; "
                       "seeded random sequences over caption/text/width/wrap/align/multiline/allow_tab/str|bytes; random sequences on "
                       "IntEdit/IntegerEdit/FloatEdit, every sequence of length 4/5 over 9 keys on four numeric configurations, every sequence of length 3/4 "
                       "over 8 keys on IntEdit with numbers holding inner zeros (judged by the integer reference); distinct = distinct (configuration, key sequence)")
    chk.sample({"cfg": traces[0]["cfg"], "keys": traces[0]["keys"]})
    chk.sample({"cfg": traces[-1]["cfg"], "keys": traces[-1]["keys"]})
    chk.cov["trusted_base"] = ["TLC", "stops_of(): cursor stops derived from the widget's own layout (layout contract = C03)", "vf/term.char_width"]
    chk.assumptions += ["IntegerEdit / FloatEdit: alphabet and robustness clauses only (no reference for their value-preserving rewrites)",
                        "a zero-width character is a cursor stop of its own (urwid moves by code point); no column designates it",
                        "highlight is dead code; mask only affects rendering"]


def replay(chk, path):
    with open(path) as f:
        rp = json.load(f)["replay"]
    cfg = rp["cfg"]
    if cfg.get("kind") == "IntEdit":
        tr = run_edit(cfg, rp["keys"])
    elif "kind" in cfg:
        tr = run_numeric(cfg["kind"], cfg["opts"], rp["keys"])
    else:
        tr = run_edit(cfg, rp["keys"])
    res = tlc.validate("EditTrace", [slim(tr)])
    chk.add_tv("replay", res)
    _handle(chk, [tr], res)
    chk.sample({"cfg": cfg, "keys": rp["keys"]})
    return chk.finish()
