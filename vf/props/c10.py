"""C10 — the Edit widget behaves as a text editor model for any key sequence.
Reference editor: spec/EditOps.tla; model: spec/Edit.tla; trace spec: spec/EditTrace.tla."""
from __future__ import annotations

import json

from .. import term, tlc

KEYNAMES = ["left", "right", "up", "down", "home", "end", "backspace", "delete", "enter", "tab", "f5", "page up", "ctrl x", "esc"]


def stops_of(layout, full, is_bytes, enc, w=None):
    """Cursor stops per display row from the layout the widget reports (segments of caption+text)."""
    rows = []
    if is_bytes:
        # byte offsets -> character indices
        bmap = {}
        ci = 0
        bo = 0
        text = full.decode(enc)
        for ch in text:
            bmap[bo] = ci
            bo += len(ch.encode(enc))
            ci += 1
        bmap[bo] = ci
        chars = text

        def idx(o):
            return bmap[o]  # KeyError = offset inside a character (caught by caller)
    else:
        chars = full

        def idx(o):
            return o
    for line in layout:
        row = []
        col = 0
        endpos = None
        endcol = 0
        for seg in line:
            if len(seg) == 3 and isinstance(seg[1], int) and isinstance(seg[2], int):
                s, e = idx(seg[1]), idx(seg[2])
                for p in range(s, e):
                    w = term.char_width(chars[p])
                    if w > 0:
                        row.append([p, col, w])
                        col += w
                endpos = e
                endcol = col
            elif len(seg) == 2:
                if seg[1] is not None and endpos is None:
                    endpos = idx(seg[1])
                    endcol = col
                col += seg[0]
            else:  # inserted text (ellipsis): occupies columns, belongs to no offset
                col += seg[0]
        if endpos is None:
            endpos = 0
        row.append([endpos, endcol, 0])
        rows.append(row)
    # a soft-wrapped row (filled to the last column, or followed by a wide character that did not fit into the cells left) has no
    # end-of-row stop of its own: that offset is the first stop of the next row, and the layout has no end marker for it
    if w is not None:
        for r in range(len(rows) - 1):
            end = rows[r][-1]
            if len(rows[r]) > 1 and rows[r + 1][0][0] == end[0]:
                rows[r].pop()
    return rows


def snapshot(e, w, caplen, is_bytes, enc):
    full = e.get_text()[0]
    et = e.edit_text
    aligned = True
    if is_bytes:
        try:
            et[: e.edit_pos].decode(enc)
            et[e.edit_pos:].decode(enc)
            pos = len(et[: e.edit_pos].decode(enc))
            text = [ord(c) for c in et.decode(enc)]
        except UnicodeDecodeError:
            aligned = False
            pos = e.edit_pos
            text = list(et)
    else:
        pos = e.edit_pos
        text = [ord(c) for c in et]
    cur = list(e.get_cursor_coords((w,)))
    canv = e.render((w,), True)
    rcur = list(canv.cursor) if canv.cursor is not None else [-1, -1]
    try:
        st = stops_of(e.get_line_translation(w), full, is_bytes, enc, w)
    except KeyError:
        st = [[[0, 0, 0]]]
        aligned = False
    return {"text": text, "pos": pos, "cur": cur, "rcur": rcur, "stops": st, "aligned": aligned}


def keyrec(k, c=0, x=0, y=0):
    return {"k": k, "c": c, "x": x, "y": y}


def run_edit(cfg, keys):
    """cfg: caption, text, w, wrap, align, multiline, allow_tab, bytes(bool), enc.  keys: list of key records."""
    import urwid

    enc = cfg.get("enc", "utf-8")
    urwid.set_encoding(enc)
    cap, txt = cfg["caption"], cfg["text"]
    is_bytes = cfg.get("bytes", False)
    if is_bytes:
        cap, txt = cap.encode(enc), txt.encode(enc)
    e = urwid.Edit(cap, txt, multiline=cfg["multiline"], allow_tab=cfg["allow_tab"], wrap=cfg["wrap"], align=cfg["align"],
                   mask=cfg.get("mask") if not is_bytes else None)
    w = cfg["w"]
    caplen = len(cfg["caption"])
    sigs = []
    if cfg.get("validator"):
        # an application handler connected earlier that answers with a value (a validator): the signals must still reach every handler
        urwid.connect_signal(e, "change", lambda wd, new: True)
        urwid.connect_signal(e, "postchange", lambda wd, old: 1)
    urwid.connect_signal(e, "change", lambda wd, new: sigs.append(("change", new, wd.edit_text)))
    urwid.connect_signal(e, "postchange", lambda wd, old: sigs.append(("postchange", old, wd.edit_text)))

    def codes(t):
        if isinstance(t, bytes):
            try:
                return [ord(c) for c in t.decode(enc)]
            except UnicodeDecodeError:
                return list(t)
        return [ord(c) for c in t]

    ev = []
    judge = 1 if (cfg["wrap"] in ("space", "any") and cfg.get("judge", True)) else 0
    try:
        pre = snapshot(e, w, caplen, is_bytes, enc)
    except Exception as ex:  # noqa: BLE001
        return {"caplen": caplen, "numeric": 0, "allowed": [], "neg": 0, "opt": {"multiline": cfg["multiline"], "allow_tab": cfg["allow_tab"]},
                "cfg": cfg, "keys": keys, "ev": [{"exc": "snapshot:" + type(ex).__name__, "key": keyrec("f5"), "judge": 0}]}
    for k in keys:
        del sigs[:]
        rec = {"key": k, "exc": "", "ret": 0, "judge": 0 if (k["k"] == "tab" and is_bytes) else judge, "pre": pre}
        try:
            if k["k"] == "click":
                r = e.mouse_event((w,), "mouse press", 1, k["x"], k["y"], True)
                rec["ret"] = 0 if r else 1
            else:
                key = chr(k["c"]) if k["k"] == "char" else k["k"]
                r = e.keypress((w,), key)
                rec["ret"] = 0 if r is None else 1
                if r is not None and r != key:
                    rec["exc"] = "returned_key_changed"
            post = snapshot(e, w, caplen, is_bytes, enc)
        except Exception as ex:  # noqa: BLE001
            rec["exc"] = type(ex).__name__
            post = pre
        rec["post"] = post
        rec["sig"] = [{"name": n, "arg": codes(a), "cur": codes(c)} for n, a, c in sigs]
        ev.append(rec)
        pre = post
        if rec["exc"]:
            break
    return {"caplen": caplen, "numeric": 0, "allowed": [], "neg": 0, "opt": {"multiline": cfg["multiline"], "allow_tab": cfg["allow_tab"]},
            "cfg": cfg, "keys": keys, "ev": ev}


def run_numeric(kind, opts, keys):
    import urwid
    from urwid import numedit

    urwid.set_encoding("utf-8")
    neg = 0
    if kind == "IntEdit":
        e = urwid.IntEdit("n ", opts.get("default"))
        allowed = "0123456789"
    elif kind == "IntegerEdit":
        base = opts.get("base", 10)
        neg = 1 if opts.get("neg") else 0
        e = numedit.IntegerEdit("n ", opts.get("default"), base=base, allow_negative=bool(neg))
        allowed = "0123456789ABCDEFGHIJKLMNOPQRSTUVWXYZ"[:base]
        allowed += allowed.lower()
    else:
        neg = 1 if opts.get("neg") else 0
        sep = opts.get("sep", ".")
        e = numedit.FloatEdit("n ", opts.get("default"), preserveSignificance=opts.get("sig", True), decimalSeparator=sep, allow_negative=bool(neg))
        allowed = "0123456789" + sep
    ev = []
    w = 12
    dummy = {"text": [], "pos": 0, "cur": [0, 0], "rcur": [0, 0], "stops": [[[0, 0, 0]]], "aligned": True}
    for k in keys:
        rec = {"key": k, "exc": "", "ret": 0, "judge": 0, "pre": dummy, "sig": []}
        try:
            key = chr(k["c"]) if k["k"] == "char" else k["k"]
            r = e.keypress((w,), key)
            rec["ret"] = 0 if r is None else 1
            e.render((w,), True)
        except Exception as ex:  # noqa: BLE001
            rec["exc"] = type(ex).__name__
        t = e.edit_text
        rec["post"] = {"text": [ord(c) for c in t], "pos": e.edit_pos, "cur": [0, 0], "rcur": [0, 0], "stops": [[[0, 0, 0]]], "aligned": True}
        ev.append(rec)
        if rec["exc"]:
            break
    return {"caplen": 2, "numeric": 1, "allowed": [ord(c) for c in allowed], "neg": neg, "opt": {"multiline": False, "allow_tab": False},
            "cfg": {"kind": kind, "opts": opts}, "keys": keys, "ev": ev}


def random_keys(rng, n, w, chars, rows=4):
    out = []
    for _ in range(n):
        r = rng.random()
        if r < 0.35:
            out.append(keyrec("char", ord(rng.choice(chars))))
        elif r < 0.9:
            out.append(keyrec(rng.choice(KEYNAMES[:10] + ["left", "right", "up", "down", "backspace", "home", "end"] + KEYNAMES[10:])))
        else:
            out.append(keyrec("click", 0, rng.randint(0, w - 1), rng.randint(0, rows)))
    return out


MC_CFG = """CONSTANTS Chars = {chars} W = {w} Depth = {d} Multiline = {ml}
Caption <- CaptionDef
SPECIFICATION Spec
INVARIANT PosInRange
INVARIANT CursorOnChar
INVARIANT HomeEndStayOnRow
INVARIANT VerticalKeepsText
INVARIANT UnusedKeyNoChange
CHECK_DEADLOCK FALSE
"""


def _handle(chk, traces, res):
    for ti, l, why in res.rejects:
        tr = traces[ti]
        e = tr["ev"][l - 1]
        cfg = tr["cfg"]
        sig = {"key": e["key"]["k"], "exc": e["exc"], "wrap": cfg.get("wrap", ""), "align": cfg.get("align", ""), "kind": cfg.get("kind", "Edit"),
               "bytes": bool(cfg.get("bytes", False)), "w": cfg.get("w", 0)}
        chk.reject(f"C10.{why}", sig, {"cfg": cfg, "keys": tr["keys"][:l], "observed": {k: e[k] for k in ("key", "exc", "ret", "pre", "post", "sig") if k in e}})


def run(chk):
    quick = chk.tier == "quick"
    rng = chk.rng
    r = tlc.mc("Edit", MC_CFG.format(chars="{97, 98, 32}", w=3, d=4 if quick else 5, ml="TRUE"), timeout=2400, workers=8)
    chk.add_mc("MC_Edit_reference_editor", r)
    if not r.ok:
        chk.reject("C10.model." + str(r.violated), {"model": "Edit"}, {"tlc_trace": r.trace[-5:]})
    traces = []
    # ---- exhaustive short key sequences on small configurations ----
    base_keys = [keyrec("char", 97), keyrec("char", 32), keyrec("left"), keyrec("right"), keyrec("up"), keyrec("down"), keyrec("home"),
                 keyrec("end"), keyrec("backspace"), keyrec("delete"), keyrec("enter"), keyrec("f5"), keyrec("click", 0, 1, 1), keyrec("click", 0, 3, 0)]
    depth = 2 if quick else 3
    import itertools

    for wrap in ("space", "any"):
        for (cap, txt, w) in (("", "ab cd", 3), ("? ", "abc\nd", 4), ("c\n", "ab", 2)):
            cfg = {"caption": cap, "text": txt, "w": w, "wrap": wrap, "align": "left", "multiline": True, "allow_tab": False, "validator": w == 4}
            for seq in itertools.product(base_keys, repeat=depth):
                traces.append(run_edit(cfg, list(seq)))
    # narrow widths with double-width characters: rows that end early because the next character does not fit, a cursor behind a
    # character that fills the row (found by the thorough tier's larger sample; exhaustive pairs here)
    wide_keys = [*base_keys, keyrec("char", 0x5B57), keyrec("click", 0, 1, 2), keyrec("click", 0, 0, 3)]
    for wrap in ("space", "any"):
        for (cap, txt, w) in (("\u5b57 ", "a", 2), ("", "\u5b57a\U0001f600a", 2), ("c\n", "\u5b57a", 3), ("\u5b57 ", " a", 2)):
            cfg = {"caption": cap, "text": txt, "w": w, "wrap": wrap, "align": "left", "multiline": True, "allow_tab": False}
            for seq in itertools.product(wide_keys, repeat=2):
                traces.append(run_edit(cfg, list(seq)))
            if not quick:
                for seq in itertools.product(wide_keys, repeat=3):
                    traces.append(run_edit(cfg, list(seq)))
    # ---- seeded random sequences over the option space ----
    n_rand = 2500 if quick else 120000
    alph_simple = "ab c"
    for i in range(n_rand):
        wrap = rng.choice(["space", "any", "any", "space", "clip"])
        wide = rng.random() < 0.3
        chars = alph_simple + ("字" if wide else "") + ("\U0001F600" if wide and rng.random() < 0.5 else "")   # 3- and 4-byte characters
        is_bytes = rng.random() < 0.2
        enc = "utf-8"
        cfg = {"caption": rng.choice(["", "? ", "cap ", "c\n", "字 " if wide else "x"]),
               "text": "".join(rng.choice(chars + "\n") for _ in range(rng.randint(0, 8))),
               "w": rng.randint(1 if not wide else 2, 8), "wrap": wrap, "align": rng.choice(["left", "center", "right"]),
               "multiline": rng.random() < 0.7, "allow_tab": rng.random() < 0.3, "bytes": is_bytes, "enc": enc,
               "mask": "*" if (not is_bytes and rng.random() < 0.15) else None,     # hidden text: one mask character per character
               "validator": rng.random() < 0.3}
        if not cfg["multiline"]:
            cfg["text"] = cfg["text"].replace("\n", " ")
        traces.append(run_edit(cfg, random_keys(rng, rng.randint(2, 10), cfg["w"], chars + ("é" if is_bytes else ""))))
    # ---- numeric variants ----
    for i in range(600 if quick else 20000):
        kind = ["IntEdit", "IntegerEdit", "FloatEdit"][i % 3]
        base = rng.choice([2, 8, 10, 16])
        opts = {"default": rng.choice([None, 0, 7, 120, "005"]) if kind == "IntEdit" else rng.choice([None, 0, 1, 10, 11 if base > 2 else 1]),
                "base": base, "neg": rng.random() < 0.5, "sep": rng.choice([".", ","]), "sig": rng.random() < 0.5}
        if kind == "FloatEdit" and opts["default"] is not None:
            opts["default"] = rng.choice([None, "1.5" if opts["sep"] == "." else None, 2])
        keys = []
        for _ in range(rng.randint(1, 12)):
            r = rng.random()
            if r < 0.6:
                keys.append(keyrec("char", ord(rng.choice("0123456789-.,aAfFxz +e\u00b2\u0663\uff15"))))
            else:
                keys.append(keyrec(rng.choice(["left", "right", "home", "end", "backspace", "delete", "enter", "up"])))
        try:
            traces.append(run_numeric(kind, opts, keys))
        except Exception as ex:  # noqa: BLE001  (constructor rejected the option combination)
            chk.count("numeric_constructor_rejected." + type(ex).__name__)
    # ---- numeric variants: every key sequence of length <= L over a small alphabet (sign, digits, separator, moves, deletes) ----
    nkeys = [keyrec("char", ord(c)) for c in "-10."] + [keyrec(k) for k in ("home", "end", "left", "backspace", "delete")]
    L = 4 if quick else 5
    for kind, opts in (("IntegerEdit", {"default": None, "base": 10, "neg": True}), ("FloatEdit", {"default": None, "neg": True, "sep": ".", "sig": True}),
                       ("IntegerEdit", {"default": 10, "base": 10, "neg": False}), ("IntEdit", {"default": None})):
        for seq in itertools.product(nkeys, repeat=L):
            traces.append(run_numeric(kind, opts, list(seq)))
    # digit-like characters outside the ASCII alphabet, alone and after a digit, on every numeric variant
    for kind, opts in (("IntEdit", {"default": None}), ("IntEdit", {"default": 7}), ("IntegerEdit", {"default": None, "base": 10, "neg": True}),
                       ("IntegerEdit", {"default": None, "base": 16, "neg": False}), ("FloatEdit", {"default": None, "neg": True, "sep": ".", "sig": True})):
        for ch in "\u00b2\u0663\uff15\u2460\u096b\u00bd\uff21\u0391":
            for pre in ([], [keyrec("char", ord("1"))], [keyrec("char", ord("1")), keyrec("home")]):
                traces.append(run_numeric(kind, opts, pre + [keyrec("char", ord(ch)), keyrec("char", ord("2"))]))
    res = tlc.validate("EditTrace", traces, batch_events=6000, timeout=2400)
    chk.add_tv("TV_EditTrace", res)
    _handle(chk, traces, res)
    kinds = dict(chk.cov["clause_counts"])
    nontriv = set()
    for t in traces:
        for e in t["ev"]:
            k = ("numeric." if t["numeric"] else "edit.") + e["key"]["k"] + (".judged" if e.get("judge") else "")
            kinds[k] = kinds.get(k, 0) + 1
        nontriv.add(json.dumps([t["cfg"], t["keys"]], sort_keys=True, default=str))
    chk.cov["clause_counts"] = kinds
    chk.cov["distinct_nontrivial"] = len(nontriv)
    chk.cov["rule"] = ("key/click sequences on real Edit widgets: every sequence of length 2/3 over 14 keys on six small configurations, seeded random "
                       "sequences over caption/text/width/wrap/align/multiline/allow_tab/str|bytes, and random sequences on IntEdit/IntegerEdit/FloatEdit; "
                       "distinct = distinct (configuration, key sequence)")
    chk.sample({"cfg": traces[0]["cfg"], "keys": traces[0]["keys"]})
    chk.sample({"cfg": traces[-1]["cfg"], "keys": traces[-1]["keys"]})
    chk.cov["trusted_base"] = ["TLC", "stops_of(): cursor stops derived from the widget's own layout (layout contract = C03)", "vf/term.char_width"]
    chk.assumptions += ["clip mode and texts with zero-width characters: robustness, cursor and signal clauses only (reference not applied)",
                        "highlight is dead code; mask only affects rendering"]


def replay(chk, path):
    with open(path) as f:
        rp = json.load(f)["replay"]
    cfg = rp["cfg"]
    if "kind" in cfg:
        tr = run_numeric(cfg["kind"], cfg["opts"], rp["keys"])
    else:
        tr = run_edit(cfg, rp["keys"])
    res = tlc.validate("EditTrace", [tr])
    chk.add_tv("replay", res)
    _handle(chk, [tr], res)
    chk.sample({"cfg": cfg, "keys": rp["keys"]})
    return chk.finish()
