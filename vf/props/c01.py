"""C01 — every widget renders a canvas of exactly the size its container asked for.
Generator model: spec/WidgetTree.tla (+ WidgetTreeOps.tla); trace spec: spec/RenderTrace.tla;
term -> widget builder and observation: vf/wtree.py.  TLC enumerates the terms and judges every event."""
from __future__ import annotations

import concurrent.futures as cf
import json
import os

from .. import tlc, wtree

ENCS = ["utf8", "wide", "narrow"]
NONASCII_TEXTS = {"cjk", "cjk1", "acjk", "comb", "comb0", "dec", "mixed", "mk2", "nlw", "nlwb", "nlz"}
MULTILINE_TEXTS = {"nl", "nlw", "nlwb", "nlz"}
ENC_SENSITIVE_KINDS = {"LineBox", "BigText", "ProgressBar", "BarGraph", "ScrollBar", "CheckBox", "RadioButton", "Button"}

GEN_CFG = """CONSTANTS Profile = "{profile}" LeafSet = "{leaf}" MaxDepth = {d} MaxKids = {kids} SibDepth = {sib} MaxNodes = {nodes} Sim = {sim} Kinds = "{kinds}"
SPECIFICATION Spec
INVARIANT TypeOK
INVARIANT SizingLaws
CHECK_DEADLOCK FALSE
"""


def strip(t):
    """Annotated TLC term -> raw term (k, o, c)."""
    return {"k": t["k"], "o": _plain(t["o"]), "c": [strip(x) for x in t["c"]]}


def _plain(o):
    if isinstance(o, (list, tuple)):
        return [_plain(x) for x in o]
    return o


def enumerate_terms(chk, name, workers=6, **kw):
    kw.setdefault("kinds", "all")
    states, r = tlc.dump_states("WidgetTree", GEN_CFG.format(sim="FALSE", **kw), workers=workers, timeout=1500)
    chk.add_mc(name, r)
    seen, terms = set(), []
    for s in states:
        if len(s["stack"]) == 1:
            t = strip(s["stack"][0])
            key = json.dumps(t, sort_keys=True)
            if key not in seen:
                seen.add(key)
                terms.append(t)
    terms.sort(key=lambda t: json.dumps(t, sort_keys=True))
    return terms


def simulate_terms(chk, num, seed, depth, jobs, min_depth=2, **kw):
    kw.setdefault("kinds", "all")
    behs = tlc.simulate("WidgetTree", GEN_CFG.format(sim="TRUE", **kw).replace("INVARIANT TypeOK\nINVARIANT SizingLaws\n", ""),
                        num=num, depth=depth, seed=seed, jobs=jobs, timeout=900)
    seen, terms = set(), []
    for b in behs:
        cands = [s["stack"][0] for s in b if len(s.get("stack", [])) == 1]
        keep = [c for c in cands if c["d"] >= min_depth] or cands[-1:]
        for c in keep:
            t = strip(c)
            key = json.dumps(t, sort_keys=True)
            if key not in seen:
                seen.add(key)
                terms.append(t)
    return terms


# ---------------------------------------------------------------------------------------------------
def text_ids(t):
    out = []
    if t["k"] in ("Text", "Button", "CheckBox", "RadioButton", "SelectableIcon"):
        out.append(t["o"][0])
    elif t["k"] == "Edit":
        out += [t["o"][0], t["o"][1]]
    elif t["k"] == "LineBox":
        out.append(t["o"][0])
    for x in t["c"]:
        out += text_ids(x)
    return out


def sub(t):
    yield t
    for x in t["c"]:
        yield from sub(x)


def encodings_for(t, i, quick):
    ks = set(wtree.kinds(t))
    if wtree.depth(t) == 0 and (set(text_ids(t)) & NONASCII_TEXTS or ks & ENC_SENSITIVE_KINDS):
        return ENCS
    if quick:
        return [ENCS[i % 3]]
    if set(text_ids(t)) & NONASCII_TEXTS or ks & ENC_SENSITIVE_KINDS:
        return [ENCS[i % 3], ENCS[(i + 1) % 3]]
    return [ENCS[i % 3]]


def observe_term(job):
    """Runs in a worker process: build the term under the encoding and record one trace."""
    t, enc, cols, rows = job
    wtree.set_enc(enc)
    wd = wtree.World()
    tr = {"term": t, "enc": enc, "build_exc": "", "sizing": [], "ev": []}
    try:
        w = wd.build(t, enc)
        modes = sorted(str(getattr(m, "value", m)) for m in w.sizing())
    except Exception as ex:  # noqa: BLE001  (ill-formed composition rejected by the constructor: not a C01 event)
        tr["build_exc"] = f"{type(ex).__name__}: {str(ex)[:120]}"
        return tr
    tr["sizing"] = modes
    for size in wtree.sizes_for(modes, cols, rows):
        for focus in (False, True):
            tr["ev"].append(wtree.observe_render(w, size, focus, enc))
    tr["ev"].append({"t": "sizing", "got": modes})
    return tr


def observe_history(job):
    """Runs in a worker process: one history with held canvases (wtree.observe_frames) of the term at one size it supports."""
    import random

    t, enc, cols, rows, max_sub, seed = job
    wtree.set_enc(enc)
    wd = wtree.World()
    tr = {"term": t, "enc": enc, "build_exc": "", "sizing": [], "ev": [], "hist": {"max_sub": max_sub, "seed": seed}}
    try:
        w = wd.build(t, enc)
        modes = sorted(str(getattr(m, "value", m)) for m in w.sizing())
    except Exception as ex:  # noqa: BLE001
        tr["build_exc"] = f"{type(ex).__name__}: {str(ex)[:120]}"
        return tr
    tr["sizing"] = modes
    rng = random.Random(seed)
    sizes = wtree.sizes_for(modes, cols, rows)
    if not sizes:
        return tr
    size = rng.choice(sizes)
    focus = rng.random() < 0.7
    tr["hist"].update(size=list(size), focus=1 if focus else 0)
    tr["ev"] = wtree.observe_frames(t, w, size, focus, enc, max_sub, seed)
    return tr


ZW_IDS = {"comb", "comb0", "mixed", "nlz"}
AMB_IDS = {"dec", "mixed"}          # contain East Asian Ambiguous characters (box drawing)


def _modes(w):
    return {str(getattr(m, "value", m)) for m in w.sizing()}


def features(t, enc, e):
    """Flat description of a rejected event for known-finding signatures: labels only, never a verdict.
    Markers (m_*) are structural facts about the term / the real widgets / the recorded numbers."""
    wtree.set_enc(enc)
    pairs = []
    try:
        pairs = list(wtree.walk(t, wtree.World().build(t, enc)))
    except Exception:  # noqa: BLE001
        pass
    subs = list(sub(t))

    def str_text_ids(x):
        k, o = x["k"], x["o"]
        if k == "Text":
            return [] if o[3] else [o[0]]
        if k in ("Button", "CheckBox", "RadioButton", "SelectableIcon", "LineBox"):
            return [o[0]]
        if k == "Edit":
            return [o[0], o[1]]
        return []

    str_ids = {i for x in subs for i in str_text_ids(x)}
    bytes_ids = {x["o"][0] for x in subs if x["k"] == "Text" and x["o"][3]}
    f = {"root": t["k"], "mode": e.get("mode", ""), "enc": enc, "exc": e.get("exc", ""), "calc_exc": e.get("calc_exc", ""),
         "cols_le": 1 if 0 < e.get("c", 0) <= 3 else 0}
    m = {}
    m["m_padding_clip"] = any(x["k"] == "Padding" and x["o"][1] == "clip" for x in subs)
    m["m_zw_str_nonutf8"] = enc != "utf8" and bool(str_ids & ZW_IDS)
    m["m_amb_wide"] = enc == "wide" and (any(x["k"] == "Text" and x["o"][1] == "ellipsis" for x in subs) or bool(bytes_ids & AMB_IDS))
    m["m_zw_only_line"] = "comb0" in (str_ids | bytes_ids)
    m["m_progress_satt"] = any(x["k"] == "ProgressBar" and x["o"][1] for x in subs)
    m["m_pile_fixed_only_item"] = any(st["k"] == "Pile" and any(_modes(c) == {"fixed"} for c in wtree.children_of(st, sw)) for st, sw in pairs)
    m["m_columns_fixed_only_item"] = any(st["k"] == "Columns" and any(_modes(c) == {"fixed"} for c in wtree.children_of(st, sw)) for st, sw in pairs)
    m["m_columns_zero_weight"] = any(st["k"] == "Columns" and any(op[0] == "weight" and op[1] == 0 for op in st["o"][3]) for st in subs)
    m["m_columns_box_column_zero_rows"] = (e.get("mode") == "flow" and e.get("cr") == 0 and e.get("rows_call") == 1
                                           and any(st["k"] == "Columns" and any(op[2] for op in st["o"][3]) for st in subs))
    m["m_padding_given_lt_min_fixed"] = e.get("mode") == "fixed" and any(x["k"] == "Padding" and x["o"][1] == "g1" and x["o"][2] == 2 for x in subs)
    m["m_overlay_pack_height"] = any(x["k"] == "Overlay" and x["o"][3] == "pack" and x["o"][1] != "pack" for x in subs)
    m["m_padding_rel_fixed"] = e.get("mode") == "fixed" and any(
        x["k"] == "Padding" and (x["o"][1] in ("rel60", "rel30") or (x["o"][1] == "rel100" and x["o"][2] > 0)) for x in subs)
    m["m_linebox_fixed_only"] = any(st["k"] == "LineBox" and "fixed" in _modes(sw.original_widget) and "flow" not in _modes(sw.original_widget) for st, sw in pairs)
    m["m_scrollbar"] = any(x["k"] == "ScrollBar" for x in subs)
    m["m_columns_box_column"] = any(st["k"] == "Columns" and any(op[2] for op in st["o"][3]) for st in subs)
    m["m_zero_width_fixed_leaf"] = (e.get("mode") == "fixed" or m["m_padding_clip"]) and (
        any(x["k"] in ("Text", "SelectableIcon", "Button") and x["o"][0] in ("empty", "comb0") for x in subs) or m["m_columns_zero_weight"]
        or any(x["k"] == "Pile" and x["o"][1] and all(op[0] == "weight" and op[1] == 0 for op in x["o"][1]) for x in subs))
    m["m_scrollbar_no_room"] = any(x["k"] == "ScrollBar" for x in subs) and e.get("exc_msg") == "0" and 0 < e.get("c", 0) <= 2
    m["m_overlay_pack_width"] = any(x["k"] == "Overlay" and x["o"][1] == "pack" for x in subs)
    msg = e.get("exc_msg", "")
    m["m_filler_margins_use_all_rows"] = any(x["k"] == "Filler" and x["o"][1] != "pack" and x["o"][3] + x["o"][4] >= 1 for x in subs) and (
        (e.get("mode") == "box" and e.get("r", 9) <= 2) or any(x["k"] == "BoxAdapter" and x["o"][0] <= 2 for x in subs) or msg.startswith("Widget <Filler"))
    m["m_padding_margins_use_all_cols"] = 0 < e.get("c", 0) <= 3 and any(x["k"] == "Padding" and x["o"][3] + x["o"][4] >= e.get("c", 0) for x in subs)
    m["m_scrollable_zero_size"] = any(x["k"] == "Scrollable" for x in subs) and (
        msg == "0" or "cannot trim" in msg or "trim shards out of existence" in msg)
    # precise form of "the fixed top widget of an Overlay(width='pack') does not fit" (the real top widget's pack() against the size of the event):
    # zero-sized top, or wider than the columns of the event (a nested overlay has at most as many), or - for the root - taller than its rows
    def top_exceeds(st, sw, is_root):
        try:
            tw, th = sw.top_w.pack((), bool(e.get("focus")))
        except Exception:  # noqa: BLE001
            return False
        left, right, top, bottom = st["o"][6:10]
        if tw <= 0 or th <= 0:
            return True
        if e.get("mode") in ("box", "flow") and tw + left + right > e.get("c", 0):
            return True
        return bool(is_root and e.get("mode") == "box" and th + top + bottom > e.get("r", 0))

    m["m_overlay_fixed_top_exceeds"] = any(st["k"] == "Overlay" and st["o"][1] == "pack" and top_exceeds(st, sw, i == 0) for i, (st, sw) in enumerate(pairs))
    # a LineBox with a title around a ListBox: at a width too narrow for the title the title line wraps and the body gets no rows
    m["m_linebox_title_over_listbox"] = msg.startswith("Invalid offset_inset") and any(
        x["k"] == "LineBox" and x["o"][0] != "empty" and "ListBox" in wtree.kinds(x) for x in subs)
    cur = e.get("cur") or []
    m["m_cursor_below"] = len(cur) == 2 and 0 <= cur[0] < e.get("cc", 0) and cur[1] >= e.get("cr", 0)
    m["m_cursor_side"] = len(cur) == 2 and not (0 <= cur[0] < e.get("cc", 0)) and 0 <= cur[1] < e.get("cr", 0)
    m["m_side_clipper"] = m["m_padding_clip"] or m["m_overlay_pack_width"]
    m["m_gridflow_nested"] = any(x["k"] == "GridFlow" for x in subs[1:])
    m["m_listbox_columns"] = t["k"] in ("ListBox", "ScrollBar", "Frame", "Filler", "AttrMap", "WidgetPlaceholder", "WidgetDisable", "LineBox", "BoxAdapter", "Padding", "Pile",
                                        "Columns", "Overlay", "Scrollable") and any(x["k"] == "ListBox" for x in subs) and any(x["k"] == "Columns" for x in subs)
    for k, v in m.items():
        f[k] = 1 if v else 0
    return f


def _handle(chk, traces, res):
    """Report the rejections; returns continuation traces (the events after a rejection that matched a known finding),
    so that one known defect early in a trace does not hide the rest of it."""
    cont = []
    for ti, l, why in res.rejects:
        tr = traces[ti]
        e = tr["ev"][l - 1]
        if why.startswith("div_"):
            chk.divergence(why[4:], {"term": wtree.show(tr["term"]), "got": e.get("got")})
            continue
        hist = tr.get("hist")
        if hist:
            # a rendering inside a history is described by the widget that was rendered (sub-term) and, for a re-measured held
            # canvas, by the rendering that returned it
            src = tr["ev"][e["ref"] - 1] if e["t"] == "held" and 1 <= e.get("ref", 0) <= len(tr["ev"]) else e
            sig = features(wtree.subterm(tr["term"], src.get("path", [])), tr["enc"], dict(src, exc=e.get("exc", "")))
            sig["hist_op"] = src.get("op", "")
        else:
            sig = features(tr["term"], tr["enc"], e)
        obs = {k: v for k, v in e.items() if k != "content"}
        obs["content_widths"] = [sum(r) for r in e.get("content", [])]
        verdict = chk.reject(f"C01.{why}", sig, {"term": tr["term"], "show": wtree.show(tr["term"]), "enc": tr["enc"], "cols": tr["cols"], "rows": tr["rows"],
                                                 "event_index": l + tr.get("skipped", 0), "observed": obs, "hist": hist or 0})
        if verdict == "known" and hist and l < len(tr["ev"]):
            # events of a history refer to each other by number: keep them all, mark what was already reported (and the same
            # exception of the same widget in the same mode later on) as skipped
            def same(x):
                return bool(e.get("exc")) and x.get("exc") == e["exc"] and x.get("mode") == e.get("mode") and x.get("path") == e.get("path")

            rest = dict(tr)
            rest["ev"] = [dict(x, skip=1) if (i < l or same(x)) else x for i, x in enumerate(tr["ev"])]
            chk.count("masked_same_exception_after_known_finding", sum(1 for x in tr["ev"][l:] if same(x)))
            if any(not x.get("skip") for x in rest["ev"]):
                cont.append(rest)
        elif verdict == "known" and l < len(tr["ev"]):
            # continue after the known defect; further events where the same call raises the same exception in the same
            # mode are the same defect at another size and are not re-submitted (counted as masked)
            rest = dict(tr)
            rest["ev"] = [x for x in tr["ev"][l:] if not (e.get("exc") and x.get("exc") == e["exc"] and x.get("mode") == e["mode"])]
            chk.count("masked_same_exception_after_known_finding", len(tr["ev"]) - l - len(rest["ev"]))
            rest["skipped"] = tr.get("skipped", 0) + l
            if rest["ev"]:
                cont.append(rest)
    return cont


def validate_all(chk, built, jobs, name="TV_RenderTrace"):
    """Trace validation with continuation rounds after known findings."""
    cur, rnd = built, 0
    while cur and rnd < 5:
        res = tlc.validate("RenderTrace", cur, batch_events=5000, jobs=jobs, timeout=2400)
        chk.add_tv(name if rnd == 0 else f"{name}_continuation{rnd}", res)
        if rnd == 0:
            first = res
        cur = _handle(chk, cur, res)
        rnd += 1
    return first


def stratum(t):
    """Sampling stratum of a term: its root kind; multi-line Texts (the fixed size is that of the widest line) form their own."""
    if t["k"] == "Text" and t["o"][0] in MULTILINE_TEXTS:
        return "Text.multiline"
    return t["k"]


def _wclass(op):
    return op[0] if op[0] != "weight" else ("w0" if op[1] == 0 else "w")


def wt_stratum(t):
    """Sampling stratum of a term of the "wt" family: root kind x how each item shares the space x the order of unequal weights."""
    items = t["o"][1] if t["k"] == "Pile" else t["o"][3]
    pos = [op[1] for op in items if op[0] == "weight" and op[1] > 0]
    order = "" if len(pos) < 2 else ("heavier_first" if pos[0] > pos[-1] else "lighter_first" if pos[0] < pos[-1] else "equal")
    return (t["k"], tuple(_wclass(op) for op in items), order)


def _heavier_first(items):
    pos = [op[1] for op in items if op[0] == "weight" and op[1] > 0]
    return any(a > b for i, a in enumerate(pos) for b in pos[i + 1:])


def shard_stratum(t):
    """Sampling stratum of a term of the "shards" family: the kinds down the deepest path (stacker / clipper / row / cell)."""
    deep = max(t["c"], key=wtree.depth) if t["c"] else None
    return (t["k"], len(t["c"])) + (shard_stratum(deep)[:1] + (deep["c"][0]["k"] if deep["c"] else "",) if deep is not None and deep["c"] else ())


def stratified(rng, terms, per_kind, special, key=stratum):
    by = {}
    for t in terms:
        by.setdefault(key(t), []).append(t)
    out = []
    for k in sorted(by, key=str):
        n = special.get(k, per_kind)
        out += rng.sample(by[k], min(n, len(by[k])))
    return out


def observe_all(jobs, procs, fn=observe_term):
    if procs <= 1 or len(jobs) < 50:
        return [fn(j) for j in jobs]
    with cf.ProcessPoolExecutor(procs) as ex:
        return list(ex.map(fn, jobs, chunksize=max(1, len(jobs) // (procs * 8))))


def run(chk):
    import time

    quick = chk.tier == "quick"
    rng = chk.rng
    t0, phases = time.time(), {}

    def phase(name):
        phases[name] = round(time.time() - t0 - sum(phases.values()), 1)
        chk.cov["phase_wall_s"] = phases
    bad = wtree.alphabet_selfcheck()
    if bad:
        raise tlc.MachineryError(f"width table drifted from wcwidth for {bad}")
    cols = [1, 2, 3, 4, 6, 8] if quick else list(range(1, 9))
    rows = [1, 2, 3, 5] if quick else list(range(1, 6))

    # ---- TLC enumerates the configuration space ----------------------------------------------------
    # (independent TLC runs overlap, two workers each: JVM start-up dominates these small models)
    def overclaim():
        return tlc.mc("WidgetTree", GEN_CFG.format(sim="FALSE", profile="tiny", leaf="tiny", d=1, kids=2, sib=0, nodes=8, kinds="all")
                      .replace("INVARIANT TypeOK\nINVARIANT SizingLaws\n", "INVARIANT NoOverClaim\n"), workers=2, timeout=900)

    with cf.ThreadPoolExecutor(6) as ex:
        f_pad = ex.submit(enumerate_terms, chk, "GEN_padding_widths", workers=2, profile="pad", leaf="widths", d=1, kids=1, sib=0, nodes=3, kinds="pad")
        f_sims = ex.submit(simulate_terms, chk, 400, chk.seed, 9, 4, profile="full", leaf="full", d=3, kids=3, sib=2, nodes=9) if quick else None
        f_shards = ex.submit(enumerate_terms, chk, "GEN_shards_depth3", workers=3, profile="min", leaf="shards", d=3, kids=2, sib=0, nodes=8, kinds="shards")
        f_leaves = ex.submit(enumerate_terms, chk, "GEN_leaves_full", workers=2, profile="full", leaf="full", d=0, kids=0, sib=0, nodes=1)
        f_d1 = ex.submit(enumerate_terms, chk, "GEN_depth1_tiny", workers=2, profile="tiny", leaf="tiny", d=1, kids=2, sib=0, nodes=8)
        f_scroll = ex.submit(enumerate_terms, chk, "GEN_scroll_depth2", workers=2, profile="rep", leaf="tiny", d=2, kids=1, sib=0, nodes=4, kinds="scroll")
        f_prog = ex.submit(enumerate_terms, chk, "GEN_progress_leaves", workers=2, profile="tiny", leaf="progress", d=0, kids=0, sib=0, nodes=1)
        f_wt = ex.submit(enumerate_terms, chk, "GEN_weights_depth1", workers=2, profile="wt", leaf="wt", d=1, kids=2, sib=0, nodes=8, kinds="wt")
        f_over = ex.submit(overclaim)
        leaves, d1, over = f_leaves.result(), f_d1.result() + f_scroll.result(), f_over.result()
        wt_all = [t for t in f_wt.result() if t["c"]]
        prog_run = f_prog.result()
        pad_run = [t for t in f_pad.result() if t["c"]]       # small and cheap (rendered as fixed widgets only): never sampled
        if f_sims is not None:
            f_sims.result()
        shards_all = [t for t in f_shards.result() if wtree.depth(t) >= 2 and t["k"] != "Columns"]        # clips and stacks (rows and cells alone are in the other families)
    deep = []
    if quick:
        leaves_run = stratified(rng, leaves, 14, {"Text": 100, "Text.multiline": 40, "Edit": 70})
        sims = f_sims.result()
        wt_run = stratified(rng, wt_all, 7, {k: 14 for k in {wt_stratum(t) for t in wt_all} if k[2]}, key=wt_stratum)
        shards_run = stratified(rng, shards_all, 8, {}, key=shard_stratum)
        shard_sims = []
    else:
        scale = float(os.environ.get("VERIF_SCALE", "1"))
        wt3 = [t for t in enumerate_terms(chk, "GEN_weights_depth1_three_items", profile="wt", leaf="wt", d=1, kids=3, sib=0, nodes=8, kinds="wt") if len(t["c"]) == 3]
        wt_run = wt_all + rng.sample(wt3, min(len(wt3), int(1500 * scale)))
        shards_run = shards_all if scale >= 1 else stratified(rng, shards_all, 30, {}, key=shard_stratum)
        # deeper members of the family (piles of cells inside the rows, adapters around the clippers, more cell kinds), drawn by TLC
        shard_sims = simulate_terms(chk, int(3000 * scale), chk.seed + 17, 14, 8, min_depth=3, profile="min", leaf="shards", d=5, kids=3, sib=2, nodes=12, kinds="shards")
        shard_sims = [t for t in shard_sims if wtree.depth(t) >= 3]
        leaves_run = leaves if scale >= 1 else stratified(rng, leaves, 30, {"Text": 150, "Text.multiline": 60, "Edit": 100})
        deep = enumerate_terms(chk, "GEN_depth1_rep", profile="rep", leaf="rep", d=1, kids=2, sib=0, nodes=8)
        d2 = enumerate_terms(chk, "GEN_depth2_tiny", profile="tiny", leaf="tiny", d=2, kids=2, sib=0, nodes=8)
        d2 = [t for t in d2 if wtree.depth(t) == 2]
        chk.cov["depth2_enumerated"] = len(d2)
        deep = rng.sample(deep, min(len(deep), int(20000 * scale)))
        deep += rng.sample(d2, min(len(d2), int(7000 * scale)))
        sims = simulate_terms(chk, int(6000 * scale), chk.seed, 10, 8, profile="full", leaf="full", d=4, kids=3, sib=3, nodes=12)
    phase("generate(TLC)")
    # the documented sizing rules over-claim: TLC's counterexample to NoOverClaim is rendered by the real code below
    witness = []
    r = over
    chk.add_mc("MC_NoOverClaim(counterexample expected)", r)
    if r.violated == "NoOverClaim" and r.trace:
        st = r.trace[-1].get("stack") or []
        witness = [strip(x) for x in st if set(x["s"]) - set(x["u"])]
    chk.cov["overclaim_witness"] = [wtree.show(t) for t in witness]
    terms = witness + leaves_run + d1 + deep + sims
    shards_run = shards_run + shard_sims
    chk.note(f"terms: leaves {len(leaves_run)}/{len(leaves)}, depth1 {len(d1)}, exhaustive deeper {len(deep)}, simulated {len(sims)}, "
             f"weights family {len(wt_run)}/{len(wt_all)}, shards family {len(shards_run)}/{len(shards_all)}, padding family {len(pad_run)}")
    # the sharing of columns is a matter of narrow widths (every width up to 6), the cutting of stacked canvases one of few rows (every height up to 5)
    wt_grid = ([1, 2, 3, 4, 5, 6, 8], [1, 3] if quick else [1, 2, 3, 5])
    shard_grid = ([3, 8] if quick else [1, 3, 4, 8], [1, 2, 3, 4, 5])

    jobs = []
    for i, t in enumerate(terms):
        for enc in encodings_for(t, i, quick):
            jobs.append((t, enc, cols, rows))
    for grid, fam in ((wt_grid, wt_run), (shard_grid, shards_run)):
        jobs += [(t, ENCS[i % 3], grid[0], grid[1]) for i, t in enumerate(fam)]
    # the padding family is about the size a Padding derives from its child: the empty grid leaves the fixed rendering (thorough: every encoding,
    # the widths of the non-ASCII texts differ between them; and as a flow widget at two widths)
    # the progress family is about where the percentage falls in the width: every width up to 16 (the smoothing glyph exists in UTF-8 only;
    # the other encodings take the plain path - quick: one of them per term, thorough: both)
    prog_grid = (list(range(1, 17)), [])
    jobs += [(t, enc, prog_grid[0], prog_grid[1]) for i, t in enumerate(prog_run) for enc in (["utf8", ENCS[1 + i % 2]] if quick else ENCS)]
    pad_grid = ([], []) if quick else ([3, 8], [])
    jobs += [(t, enc, pad_grid[0], pad_grid[1]) for i, t in enumerate(pad_run) for enc in ([ENCS[i % 3]] if quick else ENCS)]
    traces = observe_all(jobs, 4 if quick else 8)
    phase("observe_renderings")
    # ---- histories: the same composite terms rendered again while the canvases of earlier renderings are held ----
    comp = [t for t in witness + d1 + deep + sims if t["c"]]
    hjobs = [(t, ENCS[i % 3], cols, rows, 6 if quick else 12, chk.seed * 104729 + i) for i, t in enumerate(comp)]
    hjobs += [(t, ENCS[(i + 1) % 3], wt_grid[0], wt_grid[1], 6 if quick else 12, chk.seed * 104729 + 7 * i) for i, t in enumerate(wt_run) if not quick or i % 3 == 0]
    hjobs += [(t, ENCS[(i + 1) % 3], shard_grid[0], shard_grid[1], 6 if quick else 12, chk.seed * 104729 + 11 * i) for i, t in enumerate(shards_run)]
    htraces = observe_all(hjobs, 4 if quick else 8, observe_history)
    phase("observe_histories")
    traces += [tr for tr in htraces if tr["build_exc"] or tr["ev"]]
    jobs += [j for tr, j in zip(htraces, hjobs) if tr["build_exc"] or tr["ev"]]
    fam_of = {}
    for name, fam in (("weights", wt_run), ("shards", shards_run), ("padding", pad_run), ("progress", prog_run)):
        for t in fam:
            fam_of[json.dumps(t, sort_keys=True)] = name
    for tr in traces:
        tr["family"] = fam_of.get(json.dumps(tr["term"], sort_keys=True), "")
    for tr, j in zip(traces, jobs):
        tr["cols"], tr["rows"] = j[2], j[3]
    built = [tr for tr in traces if not tr["build_exc"]]
    for tr in traces:
        if tr["build_exc"]:
            chk.divergence("constructor_rejected_wellformed_term", {"term": wtree.show(tr["term"]), "exc": tr["build_exc"]})
    res = validate_all(chk, built, 4 if quick else 8)
    phase("validate(TLC)")
    chk.note(f"phases: {phases}; events {sum(len(tr['ev']) for tr in built)}")
    rejected = {ti for ti, _l, why in res.rejects if "@overclaimed" in why}
    for i, tr in enumerate(built):
        if not tr.get("hist") and any(tr["term"] == w for w in witness) and i not in rejected:
            chk.divergence("model_overclaim_not_reproduced_by_urwid", {"term": wtree.show(tr["term"]), "enc": tr["enc"]})
    _coverage(chk, built, terms)


def _coverage(chk, built, terms):
    cc = {}
    nontriv = set()

    def bump(k, n=1):
        cc[k] = cc.get(k, 0) + n

    for tr in built:
        ks = set(wtree.kinds(tr["term"]))
        if stratum(tr["term"]) == "Text.multiline" and any(e["t"] == "render" and e["mode"] == "fixed" for e in tr["ev"]):
            bump("stratum.Text.multiline")
        for k in ks:
            bump("kind." + k)
        bump("enc." + tr["enc"])
        bump("depth." + str(wtree.depth(tr["term"])))
        if tr.get("hist"):
            bump("frames.histories")
        fam = tr.get("family", "")
        if fam:
            bump(f"family.{fam}.traces")
        subs = list(sub(tr["term"]))
        if any(x["k"] == "Frame" and x["o"][0] and x["o"][1] for x in subs):
            bump("frame_with_header_and_footer")
        pile_w0 = any(x["k"] == "Pile" and any(op[0] == "weight" and op[1] == 0 for op in x["o"][1]) for x in subs)
        col_desc = any(x["k"] == "Columns" and _heavier_first(x["o"][3]) for x in subs)
        col_opts = any(x["k"] == "Columns" and len(x["c"]) > 1 and (x["o"][0] != 1 or x["o"][1] > 1) for x in subs)
        if fam == "progress" and tr["enc"] == "utf8" and tr["term"]["o"][1]:
            # coverage only: where the partial-block glyph falls in the row (ProgressBar.render: ccol = completed columns, cs = eighths of the next)
            cur = tr["term"]["o"][0]
            for e in tr["ev"]:
                if e["t"] == "render" and e["mode"] == "flow" and not e["exc"]:
                    c = e["c"]
                    ccol, cs = (cur * c) // 100, (cur * c * 8 // 100) % 8
                    if cs and ccol < c:
                        bump("family.progress.glyph_rows")
                        for nm, at in (("first", 0), ("last", c - 1), ("second_to_last", c - 2)):
                            if ccol == at and c >= 3:
                                bump("family.progress.glyph_in_" + nm + "_column")
        if fam == "padding" and tr["term"]["k"] == "Padding" and tr["term"]["o"][1].startswith("rel"):
            # coverage only: the pairs (child width, percentage) whose quotient falls exactly between two columns
            pct = int(tr["term"]["o"][1][3:])
            for e in tr["ev"]:
                if e["t"] == "render" and e["mode"] == "fixed" and not e["calc_exc"] and not e["exc"]:
                    bump("family.padding.fixed_renderings")
                    try:
                        wtree.set_enc(tr["enc"])
                        cw = wtree.World().build(tr["term"]["c"][0], tr["enc"]).pack((), bool(e["focus"]))[0]
                    except Exception:  # noqa: BLE001
                        continue
                    if (cw * 200) % pct == 0 and (cw * 200 // pct) % 2 == 1:
                        bump("family.padding.quotient_exactly_half")
                        bump("family.padding.quotient_exactly_half." + ("above_even" if (cw * 100 // pct) % 2 == 0 else "above_odd"))
                        if e["pc"] == (cw * 200 // pct + 1) // 2 + tr["term"]["o"][3] + tr["term"]["o"][4]:
                            bump("family.padding.quotient_exactly_half.decides_the_width")
        for e in tr["ev"]:
            if e["t"] in ("render", "frame") and not e.get("skip"):
                for again in e["calc_again"]:
                    bump("calc_again." + again[0])
                if e["mode"] == "flow" and pile_w0 and tr["term"]["k"] == "Pile":
                    bump("pile_zero_weight_item_as_flow_widget")
                if e["mode"] != "fixed" and col_desc and e["c"] <= 5:
                    bump("columns_heavier_before_lighter_at_narrow_width")
                if e["mode"] != "fixed" and col_opts and e["c"] <= 5:
                    bump("columns_min_width_or_dividechars_at_narrow_width")
                if e["span"]:
                    bump("canvas_with_view_spanning_shards")
                if e["cutspan"]:
                    bump("canvas_with_cut_spanning_view_and_canvas_below")
                    if fam == "shards":
                        bump("family.shards.cut_spanning_view_and_canvas_below")
            if e["t"] == "held":
                bump("frames.held_canvas_measured_again")
            if e["t"] == "frame":
                bump("frames." + e["op"])
                if e["op"] == "sub" and e["hit"]:
                    bump("frames.sub_served_from_cache")
                if e["op"] == "sub" and e["mode"] in e["szg"] and not e["exc"]:
                    bump("frames.sub_judged")
                if e["op"] == "inval" and e["hit"]:
                    bump("frames.inval_children_from_cache")
            if e["t"] != "render":
                continue
            bump("mode." + e["mode"])
            bump("focus." + str(e["focus"]))
            if e["mode"] == "fixed" and not e["calc_exc"] and (e["pc"] < 1 or e["pr"] < 1):
                bump("outside_domain.fixed_zero_size")
            if e["c"] == 1:
                bump("one_column")
            if e["mode"] == "box" and e["r"] == 1:
                bump("one_row")
            if e["cur"]:
                bump("cursor_present")
            if any(2 in r for r in e["content"]):
                bump("row_with_wide_char")
            if any(0 in r for r in e["content"]):
                bump("row_with_zero_width_char")
            if wtree.depth(tr["term"]) >= 1:
                nontriv.add((json.dumps(tr["term"], sort_keys=True), tr["enc"], e["mode"], e["c"], e["r"], e["focus"]))
    cc.update(chk.cov.get("clause_counts", {}))
    chk.cov["clause_counts"] = cc
    chk.cov["distinct_nontrivial"] = len(nontriv)
    chk.cov["rule"] = ("terms enumerated by TLC from spec/WidgetTree.tla (all leaves of the full alphabet, all well-formed depth<=1 terms of the tiny alphabet; "
                       "thorough: depth<=1 of the rep alphabet and depth<=2 of the tiny alphabet) plus TLC-simulated deeper terms over the full alphabets; "
                       "each rendered in every sizing mode it reports at the size grid x both focus flags; every composite term also in a history "
                       "with held canvases (root, each sub-widget at the sizes its parent gave it, root again, root invalidated, held canvases "
                       "measured again); two more TLC-enumerated families: 'weights' (every depth<=1 Pile / Columns over the space-sharing options: pack, given, "
                       "weights 0..5 in both orders, min_width 1..3, dividechars 0..2; at every width 1..6) and 'shards' (stackers Frame / Pile / Overlay over "
                       "clippers ListBox / Filler / BoxAdapter over rows of cells of different heights, the grammar Role of spec/WidgetTree.tla, at every height 1..5); "
                       "'padding' (every Padding over one fixed-capable leaf of each width of the alphabet x relative widths 100/80/60/40/30/8 % and 'pack' x minimum width x margins, "
                       "rendered as a fixed widget: the total width is derived from the child's; TLC-enumerated, never sampled); "
                       "rows() / pack() asked before the rendering, after it and after _invalidate(); non-trivial = distinct "
                       "(composite term, encoding, mode, size, focus) events")
    chk.cov["exhaustive"] = True
    for need in ("family.progress.traces", "family.progress.glyph_in_first_column", "family.progress.glyph_in_last_column", "family.progress.glyph_in_second_to_last_column",
                 "family.weights.traces", "family.shards.traces", "family.padding.traces", "family.padding.fixed_renderings", "family.padding.quotient_exactly_half.above_even",
                 "family.padding.quotient_exactly_half.above_odd", "family.padding.quotient_exactly_half.decides_the_width", "family.shards.cut_spanning_view_and_canvas_below", "canvas_with_view_spanning_shards",
                 "canvas_with_cut_spanning_view_and_canvas_below", "pile_zero_weight_item_as_flow_widget", "columns_heavier_before_lighter_at_narrow_width",
                 "columns_min_width_or_dividechars_at_narrow_width", "calc_again.after", "calc_again.inval", "frame_with_header_and_footer",
                 "frames.histories", "frames.sub_judged", "frames.sub_served_from_cache", "frames.inval_children_from_cache", "frames.again",
                 "frames.held_canvas_measured_again", "stratum.Text.multiline", "mode.box", "mode.flow", "mode.fixed", "one_column", "one_row", "cursor_present", "row_with_wide_char", "row_with_zero_width_char",
                 "enc.wide", "enc.narrow", "enc.utf8") + tuple("kind." + k for k in ("Text", "Edit", "Button", "CheckBox", "RadioButton", "SelectableIcon", "Divider", "SolidFill", "BigText",
                                                                                  "ProgressBar", "BarGraph", "Padding", "Filler", "LineBox", "AttrMap", "BoxAdapter", "WidgetDisable",
                                                                                  "Scrollable", "ScrollBar", "WidgetPlaceholder", "Pile", "Columns", "Frame", "Overlay", "GridFlow", "ListBox")):
        if not cc.get(need):
            chk.vacuity.append("driver." + need)
    for tr in built[:2] + built[-1:]:
        chk.sample({"term": wtree.show(tr["term"]), "enc": tr["enc"], "sizing": tr["sizing"], "first_event": {k: v for k, v in tr["ev"][0].items()}})
    chk.cov["trusted_base"] = ["TLC", "vf/wtree.py build() (term -> urwid constructor calls), observe_render() and observe_frames() (histories with held canvases)",
                               "vf/wtree.py uwidth(): per-character widths from unicodedata (checked against wcwidth for the alphabet)",
                               "vf/tlaparse.py"]
    chk.assumptions += [
        "fill characters (Divider, SolidFill) are single-column characters: urwid rejects others with an explicit ValueError('Invalid fill_char')",
        "a fixed-mode rendering whose pack() reports 0 columns or 0 rows is outside 'all sizes >= 1' and is not judged",
        "terms are well formed by the constructor documentation (spec/WidgetTreeOps.tla ArgsOK, at least one usable mode); every mode the real sizing() reports is tried",
        "in the double-byte ('wide') mode East Asian Ambiguous characters are counted as two columns (UAX #11 legacy context), as the terminal would",
        "BigText uses glyphs the font defines",
        "histories: a sub-widget is judged only in a mode its own sizing() reports (its parent may use it otherwise: that is the parent's over-claim); a canvas is 'held' "
        "by keeping a reference, as the screen keeps the last frame; only _invalidate() of the root is used to force a second frame",
    ]


def replay(chk, path):
    with open(path) as f:
        rp = json.load(f)["replay"]
    if rp.get("hist"):
        tr = observe_history((rp["term"], rp["enc"], rp["cols"], rp["rows"], rp["hist"]["max_sub"], rp["hist"]["seed"]))
    else:
        tr = observe_term((rp["term"], rp["enc"], rp["cols"], rp["rows"]))
    tr["cols"], tr["rows"] = rp["cols"], rp["rows"]
    if tr["build_exc"]:
        chk.note("term no longer builds: " + tr["build_exc"])
        return chk.finish()
    validate_all(chk, [tr], 1, "replay")
    chk.sample({"term": wtree.show(tr["term"]), "enc": tr["enc"]})
    return chk.finish()
