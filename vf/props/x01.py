"""X01 — selection widgets (extra layer): urwid/widget/wimp.py CheckBox / RadioButton / Button / SelectableIcon inside a
Pile / ListBox that routes keys and mouse clicks.  Spec: spec/Selection.tla (+SelectionOps); trace spec:
spec/SelectionTrace.tla.  See tools/EXTRAS_BRIEF.md.

spec -> code: TLC behaviours of Selection.tla (SimSpec, with and without a re-entrant callback) are stepped through the
real widgets and the projected state (get_state() of every widget, focus, group lists, labels, result, signals with the
state seen inside each callback) is compared after every action.
code -> spec: exhaustive short histories + seeded random long ones on the real widgets, one event per public call,
validated by TLC against SelectionTrace.tla.  No verdict is computed in Python.
"""
from __future__ import annotations

import concurrent.futures as cf
import itertools
import json
import time

from .. import tlc

WIDTH = 14
LIST_ROWS = 16
ICONPOS = 1
LABELS = ["lbl", "one", "two words", "Zed"]            # label id 1..4 (all fit on one line of WIDTH - 4 columns)
LABEL_ID = {t: i + 1 for i, t in enumerate(LABELS)}
INVALID = {3: None, 4: "on", 5: 2, 6: "Mixed"}        # states outside True / False / "mixed"
MAXW = 24                                                # widgets a world may grow to (user_data table length)


def cps(s):
    return [ord(c) for c in s]


def enc(state):
    if state is True:
        return 1
    if state is False:
        return 0
    if isinstance(state, str) and state == "mixed":
        return 2
    return 9


def dec(code):
    return {0: False, 1: True, 2: "mixed"}.get(code, INVALID.get(code))


def ud_of(i):
    """user_data given to the constructor of widget i (0: none given)."""
    return 100 + i if i % 2 == 1 else 0


def markup(L, form):
    t = LABELS[L - 1]
    if form == 1:
        return ("attr", t)
    if form == 2:
        return [("attr", t[:1]), t[1:]]
    return t


def mkop(n, w=0, s=0, cb=0, key="", ev="", btn=0, row=0, g=0, mode="", L=0, **extra):
    d = {"n": n, "w": w, "s": s, "cb": cb, "key": key, "ev": ev, "btn": btn, "row": row, "g": g, "mode": mode, "L": L}
    d.update(extra)
    return d


def layout_of(nr1, nr2, nc, nc3, nb, ni):
    """The row layout of Selection.tla (Kind0 / Home0)."""
    return ([("radio", 1)] * nr1 + [("text", 0)] + [("radio", 2)] * nr2 + [("check", 0)] * nc + [("check3", 0)] * nc3
            + [("button", 0)] * nb + [("icon", 0)] * ni)


FULL = layout_of(3, 2, 1, 1, 1, 1)
NOHOOK = {"on": "", "src": 0, "tgt": 0, "val": 0}


class World:
    """Real urwid widgets in a real container, driven by abstract operations."""

    def __init__(self, layout, cont="pile", hook=None, init_st=None, init_focus=None):
        import urwid
        from urwid.widget.wimp import CheckBoxError

        self.urwid = urwid
        self.CheckBoxError = CheckBoxError
        self.cont_kind = cont
        self.hook = dict(hook or NOHOOK)
        self.in_hook = False
        self.log = []
        self.ws = []
        self.kind = []
        self.home = []
        self.groups = {1: [], 2: []}
        self.idof = {}
        self.rowtab = {}
        rows = []
        for i, (k, g) in enumerate(layout, 1):
            s = None if init_st is None else init_st[i - 1]
            rows.append(self._wrap(self._make(k, g, 1, s)))
        if cont == "list":
            self.walker = urwid.SimpleFocusListWalker(rows)
            self.cont = urwid.ListBox(self.walker)
            self.size = (WIDTH, LIST_ROWS)
        else:
            self.cont = urwid.Pile(rows)
            self.size = (WIDTH,)
        self.kind0 = list(self.kind)
        self.home0 = list(self.home)
        if init_focus:
            self.cont.focus_position = init_focus - 1
        self.given = [] if init_st is None else [s if k in ("radio", "check", "check3") else 0 for s, (k, _) in zip(init_st, layout)]
        self.given_focus = init_focus or 0
        self.init = {"st": self.snapshot(), "focus": self.focus(), "grp": self.grp(), "lab": self.labs()}

    # ---- construction ------------------------------------------------------------------------
    def _wrap(self, w):
        return self.urwid.AttrMap(w, None, "focus") if self.cont_kind == "pile_attr" else w

    def _make(self, k, g, L, state=None, mode=None):
        u = self.urwid
        i = len(self.ws) + 1
        ud = ud_of(i) or None
        text = LABELS[L - 1]
        if k == "radio":
            if mode == "true":
                w = u.RadioButton(self.groups[g], text, True, self._on_change, ud)
            elif mode == "false":
                w = u.RadioButton(self.groups[g], text, False, on_state_change=self._on_change, user_data=ud)
            elif state is None:
                w = u.RadioButton(self.groups[g], text, on_state_change=self._on_change, user_data=ud)   # default "first True"
            else:
                w = u.RadioButton(self.groups[g], text, dec(state), self._on_change, ud)
        elif k in ("check", "check3"):
            w = u.CheckBox(text, dec(state or 0), k == "check3", self._on_change, ud)
        elif k == "button":
            w = u.Button(text, self._on_click, ud)
        elif k == "icon":
            w = u.SelectableIcon(text, ICONPOS)
        else:
            w = u.Text(text)
        if k in ("radio", "check", "check3"):
            u.connect_signal(w, "postchange", self._on_postchange)
        self.ws.append(w)
        self.kind.append(k)
        self.home.append(g)
        self.idof[id(w)] = i
        return w

    # ---- callbacks ---------------------------------------------------------------------------
    def _emit(self, sig, widget, arg, ud):
        i = self.idof.get(id(widget), 0)
        self.log.append({"sig": sig, "w": i, "arg": arg, "ud": ud, "snap": self.snapshot()})
        h = self.hook
        if not self.in_hook and h["on"] == sig and h["src"] == i:
            self.in_hook = True
            try:
                self.ws[h["tgt"] - 1].set_state(dec(h["val"]))
            finally:
                self.in_hook = False

    def _on_change(self, widget, new, *rest):
        self._emit("change", widget, enc(new), rest[0] if rest else 0)

    def _on_postchange(self, widget, old, *rest):
        self._emit("postchange", widget, enc(old), 0)

    def _on_click(self, widget, *rest):
        self._emit("click", widget, 0, rest[0] if rest else 0)

    # ---- projection --------------------------------------------------------------------------
    def snapshot(self):
        return [enc(w.get_state()) if k in ("radio", "check", "check3") else 0 for w, k in zip(self.ws, self.kind)]

    def focus(self):
        return self.cont.focus_position + 1

    def grp(self):
        return [[self.idof.get(id(x), 0) for x in self.groups[g]] for g in (1, 2)]

    def labs(self):
        out = []
        for w, k in zip(self.ws, self.kind):
            if k in ("icon", "text"):
                t = w.text
            else:
                t = w.get_label()
                if w.label != t:
                    t = "<label property differs>"
            out.append(LABEL_ID.get(t, 0))
        return out

    def render(self):
        c = self.cont.render(self.size, True)
        rows = []
        for r in c.text:
            t = tuple(cps(r.decode("utf-8")))
            rows.append(self.rowtab.setdefault(t, len(self.rowtab) + 1))
        cur = c.cursor
        return rows, ([] if cur is None else [int(cur[0]), int(cur[1])])

    # ---- operations --------------------------------------------------------------------------
    def apply(self, op, render=True):
        """Run one abstract operation on the real objects; returns the event recorded at its return
        (render=False: the container is not rendered after the call, rows = cur = [])."""
        self.log = []
        n = op["n"]
        res, exc = "", ""
        try:
            if n == "set_state":
                wd = self.ws[op["w"] - 1]
                val = dec(op["s"])
                via = op.get("via", 0)
                if op["cb"] == 1 and via == 1:
                    wd.state = val                       # the property setter
                elif op["cb"] == 1 and via == 2:
                    wd.set_state(val)                    # do_callback defaults to True
                else:
                    wd.set_state(val, bool(op["cb"]))
            elif n == "toggle":
                self.ws[op["w"] - 1].toggle_state()
            elif n == "wkey":
                r = self.ws[op["w"] - 1].keypress((WIDTH,), op["key"])
                res = "" if r is None else str(r)
            elif n == "key":
                r = self.cont.keypress(self.size, op["key"])
                res = "" if r is None else str(r)
            elif n == "wmouse":
                r = self.ws[op["w"] - 1].mouse_event((WIDTH,), op["ev"], op["btn"], op.get("col", 1), 0, True)
                res = "True" if r else "False"
            elif n == "mouse":
                r = self.cont.mouse_event(self.size, op["ev"], op["btn"], op.get("col", 1), op["row"] - 1, True)
                res = "True" if r else "False"
            elif n == "new_radio":
                w = self._wrap(self._make("radio", op["g"], op["L"], mode=op["mode"]))
                if self.cont_kind == "list":
                    self.walker.append(w)
                else:
                    self.cont.contents.append((w, self.cont.options()))
            elif n == "remove":
                self.groups[self.home[op["w"] - 1]].remove(self.ws[op["w"] - 1])
            elif n == "set_label":
                self.ws[op["w"] - 1].set_label(markup(op["L"], op.get("form", 0)))
            else:
                raise AssertionError(n)
        except self.CheckBoxError:
            exc = "CheckBoxError"
        except Exception as ex:  # noqa: BLE001 - recorded, judged by the trace specification
            exc = type(ex).__name__
        rows, cur = self.render() if render else ([], [])
        return {"op": op, "res": res, "exc": exc, "st": self.snapshot(), "focus": self.focus(), "log": self.log,
                "grp": self.grp(), "lab": self.labs(), "rows": rows, "cur": cur}

    def trace(self, ev, driver):
        tab = [None] * len(self.rowtab)
        for t, i in self.rowtab.items():
            tab[i - 1] = list(t)
        return {"cont": self.cont_kind, "driver": driver, "width": WIDTH, "iconpos": ICONPOS, "kind": self.kind0,
                "home": self.home0, "ud": [ud_of(i) for i in range(1, MAXW + 1)], "labels": [cps(t) for t in LABELS],
                "hook": self.hook, "given": self.given, "given_focus": self.given_focus, "init": self.init, "rowtab": tab, "ev": ev}


def record(layout, cont, ops, driver, hook=None, init_st=None, init_focus=None, render=1):
    """render = k: the container is rendered after every k-th call and after the last one; 0: never."""
    wd = World(layout, cont, hook, init_st, init_focus)
    ev = [wd.apply(op, render=bool(render) and ((j + 1) % render == 0 or j == len(ops) - 1)) for j, op in enumerate(ops)]
    return wd.trace(ev, driver)


def icon_traces():
    """SelectableIcon alone: cursor of render((width,), focus) for every text length / cursor_position / width."""
    import urwid

    ev = []
    for tlen in range(1, 7):
        for pos in range(0, 9):
            for width in range(1, 9):
                for foc in (0, 1):
                    si = urwid.SelectableIcon("abcdefgh"[:tlen], pos)
                    c = si.render((width,), bool(foc)).cursor
                    ev.append({"op": mkop("icon_render", w=tlen, s=pos, cb=foc, row=width), "cur": [] if c is None else [c[0], c[1]]})
    wd = World(layout_of(1, 0, 0, 0, 0, 0), "pile")
    out = []
    for j in range(0, len(ev), 200):
        out.append(wd.trace(ev[j:j + 200], "icon"))
    return out


# ------------------------------------------------------------------------------------------------
# operation alphabets
# ------------------------------------------------------------------------------------------------
def alphabet(layout, rich=True):
    n = len(layout)
    kinds = [k for k, _ in layout]
    stateful = [i for i in range(1, n + 1) if kinds[i - 1] in ("radio", "check", "check3")]
    selectable = [i for i in range(1, n + 1) if kinds[i - 1] != "text"]
    ops = []
    for w in stateful:
        for s in (0, 1, 2):
            # `radio.state = True` (the property setter) is exercised in a dedicated family only: it diverges
            ops.append(mkop("set_state", w=w, s=s, cb=1, via=(2 if s == 1 and kinds[w - 1] == "radio" else (s + w) % 3)))
            ops.append(mkop("set_state", w=w, s=s, cb=0))
        ops.append(mkop("set_state", w=w, s=3, cb=1))
        if rich:
            ops += [mkop("set_state", w=w, s=3, cb=0), mkop("set_state", w=w, s=4, cb=1, via=1), mkop("set_state", w=w, s=5, cb=1),
                    mkop("set_state", w=w, s=6, cb=1)]
        ops.append(mkop("toggle", w=w))
    keys = [" ", "enter", "x", "up", "down", "tab"] if rich else [" ", "x"]
    for w in selectable:
        for k in keys:
            ops.append(mkop("wkey", w=w, key=k))
    for k in ([" ", "enter", "up", "down", "x", "tab", "left", "f5"] if rich else [" ", "enter", "up", "down", "x"]):
        ops.append(mkop("key", key=k))
    mice = ([("mouse press", 1), ("mouse press", 3), ("mouse release", 0), ("meta mouse press", 1), ("mouse drag", 1), ("mouse press", 2)]
            if rich else [("mouse press", 1), ("mouse press", 3), ("mouse release", 0)])
    for w in range(1, n + 1):
        for ev, b in mice:
            ops.append(mkop("wmouse", w=w, ev=ev, btn=b, col=(w * 3) % WIDTH))
    for row in range(1, n + 2):
        for ev, b in mice:
            ops.append(mkop("mouse", row=row, ev=ev, btn=b, col=(row * 5) % WIDTH))
    for g in (1, 2):
        ops += [mkop("new_radio", g=g, mode="first", L=2), mkop("new_radio", g=g, mode="false", L=3)]
    for w in range(1, n + 1):
        if kinds[w - 1] == "radio":
            ops.append(mkop("remove", w=w))
    lab_w = [w for w in range(1, n + 1) if kinds[w - 1] in ("radio", "check", "check3", "button")]
    for j, w in enumerate(lab_w if rich else lab_w[:2]):
        for form in (0, 1, 2):
            ops.append(mkop("set_label", w=w, L=2 + (j + form) % 3, form=form))
    return ops


def small_alphabet(layout):
    """Representatives of every operation kind, for exhaustive pairs / triples."""
    n = len(layout)
    kinds = [k for k, _ in layout]
    radios = [i for i in range(1, n + 1) if kinds[i - 1] == "radio"]
    c3 = kinds.index("check3") + 1
    c2 = kinds.index("check") + 1
    b = kinds.index("button") + 1
    ic = kinds.index("icon") + 1
    ops = []
    for w in radios[:4]:
        ops += [mkop("set_state", w=w, s=1, cb=1), mkop("toggle", w=w)]
    ops += [mkop("set_state", w=radios[0], s=0, cb=1, via=1), mkop("set_state", w=radios[1], s=1, cb=0), mkop("set_state", w=radios[1], s=2, cb=1),
            mkop("set_state", w=radios[2], s=3, cb=1), mkop("set_state", w=c3, s=2, cb=1), mkop("set_state", w=c3, s=1, cb=0),
            mkop("set_state", w=c2, s=2, cb=1, via=2), mkop("set_state", w=c2, s=4, cb=1), mkop("toggle", w=c3), mkop("toggle", w=c2),
            mkop("wkey", w=c3, key=" "), mkop("wkey", w=b, key="enter"), mkop("wkey", w=ic, key=" "), mkop("wkey", w=radios[1], key="x")]
    ops += [mkop("key", key=k) for k in (" ", "enter", "up", "down", "x")]
    for row in (radios[1], radios[2], radios[-1], len(radios[:3]) + 1, c2, c3, b, ic, n + 1):
        ops.append(mkop("mouse", row=row, ev="mouse press", btn=1, col=row % WIDTH))
    ops += [mkop("mouse", row=radios[1], ev="mouse press", btn=3), mkop("mouse", row=c3, ev="mouse release", btn=0),
            mkop("wmouse", w=radios[-1], ev="mouse press", btn=1), mkop("wmouse", w=b, ev="mouse press", btn=1),
            mkop("new_radio", g=1, mode="first", L=2), mkop("new_radio", g=2, mode="false", L=3),
            mkop("remove", w=radios[0]), mkop("remove", w=radios[-1]),
            mkop("set_label", w=radios[1], L=3, form=2), mkop("set_label", w=b, L=4, form=1)]
    return ops


def random_ops(rng, layout, n_ops, allow_ctor_true=False):
    """A random history; widget ids follow the growth of the world (appended radios)."""
    kinds = [k for k, _ in layout]
    homes = [g for _, g in layout]
    member = [k == "radio" for k in kinds]
    ops = []
    for _ in range(n_ops):
        n = len(kinds)
        stateful = [i for i in range(1, n + 1) if kinds[i - 1] in ("radio", "check", "check3")]
        selectable = [i for i in range(1, n + 1) if kinds[i - 1] != "text"]
        r = rng.random()
        if r < 0.22:
            s = rng.choice([0, 1, 1, 1, 2, 0, 3, 4, 5, 6])
            w = rng.choice(stateful)
            via = rng.choice([0, 2]) if s == 1 and kinds[w - 1] == "radio" else rng.randrange(3)
            ops.append(mkop("set_state", w=w, s=s, cb=rng.choice([1, 1, 0]), via=via))
        elif r < 0.30:
            ops.append(mkop("toggle", w=rng.choice(stateful)))
        elif r < 0.42:
            ops.append(mkop("wkey", w=rng.choice(selectable), key=rng.choice([" ", "enter", "x", "up", "down", "tab", "a"])))
        elif r < 0.62:
            ops.append(mkop("key", key=rng.choice([" ", " ", "enter", "up", "down", "up", "down", "x", "tab", "left", "f5"])))
        elif r < 0.70:
            ev, b = rng.choice([("mouse press", 1), ("mouse press", 1), ("mouse press", 3), ("mouse release", 0), ("meta mouse press", 1), ("mouse drag", 1)])
            ops.append(mkop("wmouse", w=rng.randint(1, n), ev=ev, btn=b, col=rng.randrange(WIDTH)))
        elif r < 0.88:
            ev, b = rng.choice([("mouse press", 1), ("mouse press", 1), ("mouse press", 1), ("mouse press", 3), ("mouse press", 2), ("mouse release", 0),
                                ("ctrl mouse press", 1), ("mouse drag", 1)])
            ops.append(mkop("mouse", row=rng.randint(1, n + 1), ev=ev, btn=b, col=rng.randrange(WIDTH)))
        elif r < 0.92 and n < 15:
            mode = rng.choice(["first", "first", "false"] + (["true"] if allow_ctor_true else []))
            g = rng.choice([1, 2])
            ops.append(mkop("new_radio", g=g, mode=mode, L=rng.randint(1, 4)))
            kinds.append("radio")
            homes.append(g)
            member.append(True)
        elif r < 0.95:
            cand = [i for i in range(1, n + 1) if kinds[i - 1] == "radio" and member[i - 1]]
            if cand:
                w = rng.choice(cand)
                member[w - 1] = False
                ops.append(mkop("remove", w=w))
        else:
            cand = [i for i in range(1, n + 1) if kinds[i - 1] in ("radio", "check", "check3", "button")]
            ops.append(mkop("set_label", w=rng.choice(cand), L=rng.randint(1, 4), form=rng.randrange(3)))
    return ops


def random_hook(rng, layout):
    kinds = [k for k, _ in layout]
    n = len(kinds)
    stateful = [i for i in range(1, n + 1) if kinds[i - 1] in ("radio", "check", "check3")]
    buttons = [i for i in range(1, n + 1) if kinds[i - 1] == "button"]
    if buttons and rng.random() < 0.2:
        return {"on": "click", "src": rng.choice(buttons), "tgt": rng.choice(stateful), "val": rng.choice([0, 1, 1, 2])}
    return {"on": rng.choice(["change", "postchange"]), "src": rng.choice(stateful), "tgt": rng.choice(stateful), "val": rng.choice([0, 1, 1, 2])}


# ------------------------------------------------------------------------------------------------
# TLC configurations
# ------------------------------------------------------------------------------------------------
SAFETY = """INVARIANT TypeOK
INVARIANT GroupAtMostOne
INVARIANT FocusSelectable
VIEW View
PROPERTY P_AtMostTwoSeen
PROPERTY P_AtMostThreeSeen
PROPERTY P_ChangeFirst
PROPERTY P_PostchangeLast
PROPERTY P_SignalsPaired
PROPERTY P_RejectedIsSilent
PROPERTY P_ClickOnlyFromButtons
PROPERTY P_ChangeIffChanged
PROPERTY P_SilentIsSilent
PROPERTY P_InvalidRejected
PROPERTY P_SetStateSets
PROPERTY P_SelectClearsOthers
PROPERTY P_ToggleOrder
PROPERTY P_KeysReturned
PROPERTY P_ContainerKeys
PROPERTY P_MouseRule
PROPERTY P_NewRadioRule
PROPERTY P_KeepsSelection
PROPERTY P_LabelRule
PROPERTY P_OnlyLabelsBySetLabel
"""


def cfg(nr1=2, nr2=2, nc=0, nc3=1, nb=1, ni=0, maxnew=0, maxrem=0, maxops=99, nl=1, keys=(" ", "enter", "up", "down", "x"),
        evs=("mouse press", "mouse release"), btns=(1, 3), vals=(0, 1, 2, 3), hooks="none", init="default", ctor=True,
        variant="ok", props=SAFETY, spec="Spec"):
    q = lambda xs: "{" + ", ".join(json.dumps(x) for x in xs) + "}"  # noqa: E731
    return (f"CONSTANTS NR1 = {nr1} NR2 = {nr2} NC = {nc} NC3 = {nc3} NB = {nb} NI = {ni} MaxNew = {maxnew} MaxRemove = {maxrem} "
            f"MaxOps = {maxops} NL = {nl}\nKeys = {q(keys)} MouseEvs = {q(evs)} Buttons = {q(btns)} SetVals = {q(vals)} "
            f'HookSet = "{hooks}" InitMode = "{init}" CtorTrue = {"TRUE" if ctor else "FALSE"} Variant = "{variant}"\n'
            f"SPECIFICATION {spec}\n{props}CHECK_DEADLOCK FALSE\n")


# wrong variant -> the property that must refute it
VARIANTS = {
    "noclear": "GroupAtMostOne",                 # selecting a radio does not clear the others
    "late_change": "P_ChangeFirst",              # 'change' emitted after the state changed
    "cb_ignored": "P_ChangeIffChanged",          # do_callback=False still signals
    "clear_silent": "P_ChangeIffChanged",        # the cleared radios change without signals
    "invalid_as_false": "P_InvalidRejected",     # an invalid state is taken as False instead of raising
    "mixed_first": "P_ToggleOrder",              # cycle False -> mixed -> True
    "key_swallow": "P_KeysReturned",             # keys the widget does not use are not returned
    "focus_any_button": "P_MouseRule",           # any mouse button moves the focus
}
TINY = dict(nr1=2, nr2=0, nc=1, nc3=1, nb=1, ni=0, maxnew=1, maxrem=0)
LIVE = dict(nr1=2, nr2=0, nc=1, nc3=1, nb=0, ni=0, keys=(" ", "down", "up"), evs=("mouse press",), btns=(1, 3),
            props="INVARIANT TypeOK\nINVARIANT GroupAtMostOne\nPROPERTY CycleCloses\n", spec="UserSpec")


def _mc(name, cfg_text, workers, timeout=1500):
    """tlc.mc, recognising this TLC's wording of a liveness violation."""
    try:
        return name, tlc.mc("Selection", cfg_text, workers=workers, timeout=timeout)
    except tlc.MachineryError as ex:
        m = str(ex)
        if ("Temporal property" in m and "was violated" in m) or "Back to state" in m or "Stuttering" in m:
            return name, tlc.MCResult(ok=False, violated="TEMPORAL", out=m[-2000:])
        if "unexpected exception" in m:        # seen once under heavy machine load: retry once
            return name, tlc.mc("Selection", cfg_text, workers=workers, timeout=timeout)
        raise


def model_checking(chk, quick):
    """Exhaustive runs (expected to pass), expected refutations (wrong variants, the two as-built observations)."""
    jobs = []
    if quick:
        jobs.append(("MC_core_2+2radios_check3_button", cfg(), 4, None))
        jobs.append(("MC_growth_new_remove_labels", cfg(nr1=2, nr2=0, nc=0, nc3=0, nb=0, maxnew=1, maxrem=1, nl=2, keys=(" ", "down"),
                                                        evs=("mouse press",), btns=(1,), vals=(0, 1, 3)), 3, None))
        hk = dict(nr1=3, nr2=0, nc=0, nc3=0, nb=0, hooks="radio", init="any", keys=(" ",), evs=("mouse press",), btns=(1,), vals=(0, 1), maxops=1)
    else:
        jobs.append(("MC_core_3+2radios_check_check3_button", cfg(nr1=3, nr2=2, nc=1, nc3=1, nb=1, ni=0), 6, None))       # 2.0M transitions
        jobs.append(("MC_growth_new_remove", cfg(nr1=2, nr2=1, nc=0, nc3=0, nb=1, maxnew=2, maxrem=1, nl=1, keys=(" ", "down"),
                                                 evs=("mouse press",), btns=(1,), vals=(0, 1, 2, 3)), 4, None))
        jobs.append(("MC_labels_icon", cfg(nr1=2, nr2=0, nc=1, nc3=1, nb=1, ni=1, nl=2, keys=(" ", "enter", "up", "down", "x", "tab"), vals=(0, 1, 3)), 3, None))   # 0.46M
        hk = dict(nr1=3, nr2=0, nc=0, nc3=1, nb=1, hooks="all", init="any", keys=(" ",), evs=("mouse press",), btns=(1,), vals=(0, 1, 2), maxops=1)  # 1.4M
    jobs.append(("MC_reentrant_callbacks_any_state", cfg(**hk), 3 if quick else 6, None))
    # as-built observations: the stronger readings are refuted on the as-built model (expected)
    hk_small = dict(nr1=3, nr2=0, nc=0, nc3=0, nb=0, hooks="radio", init="any", keys=(" ",), evs=("mouse press",), btns=(1,), vals=(0, 1), maxops=1)
    jobs.append(("OBS_two_selected_seen_in_callback", cfg(nr1=2, nr2=0, nc=0, nc3=0, nb=0, props=SAFETY + "PROPERTY P_Strict\n"), 1, "P_Strict"))
    jobs.append(("OBS_reentrant_select_loses_selection", cfg(**hk_small, props=SAFETY + "PROPERTY P_KeepsSelectionReentrant\n"), 2, "P_KeepsSelectionReentrant"))
    for v, prop in VARIANTS.items():
        jobs.append((f"VARIANT_{v}", cfg(**TINY, variant=v), 1, prop))
    jobs.append(("LIVE_cycle_closes", cfg(**LIVE), 2, None))
    jobs.append(("VARIANT_mixed_sticky", cfg(**LIVE, variant="mixed_sticky"), 2, "TEMPORAL"))
    order = sorted(jobs, key=lambda j: -j[2])
    results = {}
    with cf.ThreadPoolExecutor(5 if quick else 4) as ex:
        futs = [ex.submit(_mc, name, text, workers) for name, text, workers, _ in order]
        for f in futs:
            name, r = f.result()
            results[name] = r
    refuted = {}
    cex = {}
    for name, _, _, expect in jobs:
        r = results[name]
        if expect is None:
            chk.add_mc(name, r)
            if not r.ok:
                raise tlc.MachineryError(f"X01 model run {name}: {r.violated} violated on the specification itself:\n{r.out[-1500:]}")
        else:
            got = r.violated
            refuted[name] = got
            chk.cov["tlc_runs"].append({"run": name, "expected_violation": expect, "violated": got, "generated": r.generated, "wall_s": round(r.wall_s, 1)})
            if got != expect:
                raise tlc.MachineryError(f"X01: {name} should be refuted by {expect}, TLC says {got}:\n{r.out[-1500:]}")
            if name.startswith("OBS_"):
                cex[name] = r.trace
    chk.cov["wrong_variants_refuted"] = refuted
    return cex


# ------------------------------------------------------------------------------------------------
# spec -> code
# ------------------------------------------------------------------------------------------------
SIM_LAYOUT = dict(nr1=3, nr2=2, nc=1, nc3=1, nb=1, ni=1)


def _proj_log(log):
    return [{"sig": e["sig"], "w": e["w"], "arg": e["arg"], "snap": list(e["snap"])} for e in log]


def replay_behaviour(chk, beh, layout, cont, traces, stats, render=1):
    """Step the real widgets through one TLC behaviour; compare the projected state after every action."""
    s0 = beh[0]
    hook = s0["hook"]
    wd = World(layout, cont, hook, init_st=s0["st"], init_focus=s0["focus"])
    hooked = hook["on"] != ""
    pre = "reentrant_asbuilt." if hooked else ""
    if wd.init["st"] != s0["st"] or wd.init["focus"] != s0["focus"] or wd.init["grp"] != [list(g) for g in s0["grp"]]:
        chk.divergence("spec_to_code.initial_state_differs", {"spec": [s0["st"], s0["focus"], s0["grp"]], "code": wd.init})
        return
    ev = []
    for j, st in enumerate(beh[1:]):
        op = dict(st["last"]["op"])
        e = wd.apply(op, render=(j + 1) % render == 0 or j == len(beh) - 2)
        ev.append(e)
        stats["steps"] += 1
        what = None
        if e["exc"] != st["last"]["exc"] or e["res"] != st["last"]["res"]:
            what = "result_differs"
        elif e["st"] != st["st"] or e["grp"] != [list(g) for g in st["grp"]]:
            what = "state_differs"
        elif e["focus"] != st["focus"]:
            what = "focus_differs"
        elif e["lab"] != st["lab"]:
            what = "label_differs"
        elif _proj_log(e["log"]) != _proj_log(st["log"]):
            same = sorted(json.dumps(x, sort_keys=True) for x in _proj_log(e["log"])) == sorted(json.dumps(x, sort_keys=True) for x in _proj_log(st["log"]))
            what = "signal_order_differs" if same else "signals_differ"
        if what:
            chk.divergence(f"spec_to_code.{pre}{what}", {"cont": cont, "hook": hook, "op": op, "spec": {"st": st["st"], "focus": st["focus"], "res": st["last"]["res"], "exc": st["last"]["exc"], "log": [[x["sig"], x["w"], x["arg"]] for x in st["log"]]},
                                                         "code": {"st": e["st"], "focus": e["focus"], "res": e["res"], "exc": e["exc"], "log": [[x["sig"], x["w"], x["arg"]] for x in e["log"]]}})
            break
        stats["agree"] += 1
        if hooked and e["log"]:
            stats["hooked_steps_with_signals"] += 1
    traces.append(wd.trace(ev, "tlc-simulate"))


def confirm_observation(chk, name, trace, layout):
    """Replay a TLC counterexample of an as-built observation on the real widgets: does the code do what the model says?"""
    if len(trace) < 2:
        chk.vacuity.append(f"observation.{name}.no_counterexample_trace")
        return
    s0, s1 = trace[0], trace[-1]
    wd = World(layout, "pile", s0["hook"], init_st=s0["st"], init_focus=s0["focus"])
    e = None
    for st in trace[1:]:
        e = wd.apply(dict(st["last"]["op"]))
    seen = max([sum(1 for x in g if ent["snap"][x - 1] == 1) for ent in e["log"] for g in e["grp"]] or [0])
    obs = {"hook": s0["hook"], "init_st": s0["st"], "ops": [{k: v for k, v in st["last"]["op"].items() if v not in (0, "")} for st in trace[1:]],
           "model_st": s1["st"], "code_st": e["st"], "max_selected_seen_in_a_callback": seen,
           "code_agrees_with_model": e["st"] == s1["st"] and _proj_log(e["log"]) == _proj_log(s1["log"])}
    chk.cov.setdefault("as_built_observations", {})[name] = obs
    if not obs["code_agrees_with_model"]:
        chk.divergence("spec_to_code.observation_counterexample_differs", obs)


# ------------------------------------------------------------------------------------------------
def _handle_rejects(chk, traces, res):
    for ti, l, why in res.rejects:
        tr = traces[ti]
        e = tr["ev"][l - 1]
        pre = tr["ev"][l - 2] if l >= 2 else tr["init"]
        fam = tr["driver"] if tr["driver"].startswith(("ctor-true", "radio-property-setter")) else ""
        chk.divergence(f"X01.{why}" + (f"[{fam}]" if fam else ""), {"cont": tr["cont"], "driver": tr["driver"], "hook": tr["hook"] if tr["hook"]["on"] else None,
                                       "op": {k: v for k, v in e["op"].items() if v not in (0, "")},
                                       "pre_st": pre.get("st"), "st": e.get("st"), "res": e.get("res"), "exc": e.get("exc"), "focus": e.get("focus"),
                                       "log": [[x["sig"], x["w"], x["arg"]] for x in e.get("log", [])], "cur": e.get("cur"),
                                       "replay": {"kind": tr["kind"], "home": tr["home"], "init": tr["init"], "ops": [x["op"] for x in tr["ev"][:l]]}})


INITS = [
    None,                                   # as constructed
    [0, 1, 0, 0, 0, 1, 1, 2, 0, 0],
    [0, 0, 0, 0, 0, 0, 0, 0, 0, 0],
    [2, 0, 1, 0, 2, 0, 2, 1, 0, 0],
    [0, 2, 2, 0, 1, 0, 0, 2, 0, 0],
    [1, 0, 2, 0, 0, 2, 1, 1, 0, 0],
]


def _no_double_remove(ops):
    seen = set()
    for o in ops:
        if o["n"] == "remove":
            if o["w"] in seen:
                return False
            seen.add(o["w"])
    return True


def run(chk):
    quick = chk.tier == "quick"
    rng = chk.rng
    t0 = time.time()
    pool = cf.ThreadPoolExecutor(3)
    fut_mc = pool.submit(model_checking, chk, quick)      # TLC subprocesses; overlap with the Python drivers below
    layout_sim = layout_of(**SIM_LAYOUT)
    simkw = dict(**SIM_LAYOUT, maxnew=2, maxrem=2, nl=3, keys=(" ", "enter", "up", "down", "x"), evs=("mouse press", "mouse release"),
                 btns=(1, 3), vals=(0, 1, 2, 3), ctor=False, props="", spec="SimSpec")
    nb = 60 if quick else 500
    f1 = pool.submit(tlc.simulate, "Selection", cfg(**simkw, hooks="none"), num=nb, depth=14, seed=chk.seed, jobs=1 if quick else 4, timeout=900)
    f2 = pool.submit(tlc.simulate, "Selection", cfg(**simkw, hooks="all"), num=nb, depth=14, seed=chk.seed + 7, jobs=1 if quick else 4, timeout=900)

    traces = []
    # ---- code -> spec: every operation of the alphabet from several states, in every container -------------
    # (the container is rendered after a sample of the calls only -- rendering dominates the cost of the drivers:
    #  quick: every other single-op case / every fourth pair / every sixth call of a random history;
    #  thorough: every single-op case / pair, every second wide pair / triple, every third call of a random history)
    ops = alphabet(FULL, rich=True)
    ops_r = alphabet(FULL, rich=False)
    n_single = 0
    if quick:
        plan = [("pile", None, None, ops), ("list", INITS[1], None, ops_r), ("pile_attr", INITS[3], 7, ops_r)]
    else:
        plan = [(cont, init, 7 if (ci + ii) % 3 == 2 else None, ops if ii < 2 or cont == "pile" else ops_r)
                for ci, cont in enumerate(("pile", "list", "pile_attr")) for ii, init in enumerate(INITS)]
    for cont, init, fpos, alpha in plan:
        for op in alpha:
            traces.append(record(FULL, cont, [op], "single", init_st=init, init_focus=fpos, render=(n_single % 2 == 0) if quick else 1))
            n_single += 1
    # ---- exhaustive pairs (thorough: also triples) over a representative alphabet -----------------------------
    sm = small_alphabet(FULL)
    n_pairs = n_triples = 0
    for cont in (("pile",) if quick else ("pile", "list")):
        for o1 in (sm[chk.seed % 2::2] if quick else sm):
            for o2 in (sm[(chk.seed // 2) % 2::2] if quick else sm):
                if _no_double_remove([o1, o2]):
                    traces.append(record(FULL, cont, [o1, o2], "pairs", render=(2 if n_pairs % 4 == 0 else 0) if quick else 1))
                    n_pairs += 1
    if not quick:
        wide = ops_r[chk.seed % 2::2]
        for o1 in wide:
            for o2 in wide:
                if _no_double_remove([o1, o2]):
                    traces.append(record(FULL, "pile_attr", [o1, o2], "pairs-wide", init_st=INITS[1], render=2 if n_pairs % 2 else 0))
                    n_pairs += 1
        for o1 in sm[chk.seed % 3::3]:
            for o2 in sm[::2]:
                for o3 in sm[1::3]:
                    if _no_double_remove([o1, o2, o3]):
                        traces.append(record(FULL, "list", [o1, o2, o3], "triples", render=3 if n_triples % 2 else 0))
                        n_triples += 1
    # ---- seeded random long histories, with and without a re-entrant callback --------------------------------
    n_rand = 60 if quick else 400
    for i in range(n_rand):
        cont = ("pile", "list", "pile_attr")[i % 3]
        layout = FULL if i % 4 else layout_of(rng.randint(1, 4), rng.randint(0, 3), rng.randint(0, 2), rng.randint(1, 2), rng.randint(1, 2), rng.randint(0, 1))
        hook = random_hook(rng, layout) if i % 2 else None
        traces.append(record(layout, cont, random_ops(rng, layout, 40 if quick else 60), "random", hook=hook, render=6 if quick else 3))
    # ---- RadioButton(group, state=True) while the group has a selected member (dedicated family) -------------
    for cont in ("pile", "list"):
        for g in (1, 2):
            traces.append(record(FULL, cont, [mkop("new_radio", g=g, mode="true", L=2), mkop("key", key="down")], "ctor-true"))
    traces.append(record(FULL, "pile", [mkop("set_state", w=1, s=0, cb=1), mkop("new_radio", g=1, mode="true", L=2), mkop("toggle", w=2)], "ctor-true-unselected"))
    # ---- radio.state = True through the property setter (dedicated family) -----------------------------------------
    for cont in ("pile", "list"):
        for w in (2, 3, 6):
            traces.append(record(FULL, cont, [mkop("set_state", w=w, s=1, cb=1, via=1), mkop("key", key="down")], "radio-property-setter"))
    traces.append(record(FULL, "pile", [mkop("set_state", w=1, s=0, cb=1, via=1), mkop("set_state", w=2, s=1, cb=1, via=1), mkop("set_state", w=2, s=0, cb=1, via=1)],
                         "radio-property-setter-unselected"))
    # ---- SelectableIcon alone ----------------------------------------------------------------------------------
    traces += icon_traces()
    t_drive = time.time() - t0

    # ---- spec -> code ------------------------------------------------------------------------------------------
    behs = f1.result() + f2.result()
    stats = {"steps": 0, "agree": 0, "hooked_steps_with_signals": 0}
    for j, b in enumerate(behs):
        replay_behaviour(chk, b, layout_sim, ("pile", "list", "pile_attr")[j % 3], traces, stats, render=4 if quick else 2)
    chk.cov["spec_to_code"] = {"behaviours": len(behs), **stats}
    if stats["hooked_steps_with_signals"] == 0:
        chk.vacuity.append("spec_to_code.no_reentrant_step_replayed")
    chk.note(f"drivers {t_drive:.1f}s, spec->code {time.time() - t0 - t_drive:.1f}s, {len(traces)} traces")

    # ---- trace validation ----------------------------------------------------------------------------------------
    n_ev = sum(len(t["ev"]) for t in traces)
    res = tlc.validate("SelectionTrace", traces, batch_events=(n_ev + len(traces)) // 3 + 1 if quick else 20000, jobs=4, timeout=1500)
    chk.add_tv("TV_SelectionTrace", res)
    _handle_rejects(chk, traces, res)

    cex = fut_mc.result()
    pool.shutdown()
    confirm_observation(chk, "two_selected_seen_in_callback", cex.get("OBS_two_selected_seen_in_callback", []), layout_of(2, 0, 0, 0, 0, 0))
    confirm_observation(chk, "reentrant_select_loses_selection", cex.get("OBS_reentrant_select_loses_selection", []), layout_of(3, 0, 0, 0, 0, 0))

    # ---- coverage bookkeeping ----------------------------------------------------------------------------------------
    kinds = {}
    nontriv = set()
    sigs = {"change": 0, "postchange": 0, "click": 0}
    for t in traces:
        for e in t["ev"]:
            op = e["op"]
            if op["n"] == "icon_render":
                k = ("icon_render", "cursor" if e["cur"] else "none")
            else:
                k = (op["n"], "exc" if e["exc"] else ("signals" if e["log"] else "quiet"))
                for x in e["log"]:
                    sigs[x["sig"]] = sigs.get(x["sig"], 0) + 1
                if e["log"]:
                    nontriv.add(json.dumps([t["cont"], t["hook"]["on"], {a: b for a, b in op.items() if a not in ("col", "via", "form")}, e["st"], e["focus"]]))
            kinds[k] = kinds.get(k, 0) + 1
    chk.cov["clause_counts"] = {f"{a}.{b}": n for (a, b), n in sorted(kinds.items())}
    chk.cov["clause_counts"].update({f"signal.{k}": v for k, v in sigs.items()})
    chk.cov["distinct_nontrivial"] = len(nontriv)
    for need in [("set_state", "signals"), ("set_state", "exc"), ("set_state", "quiet"), ("toggle", "signals"), ("key", "signals"), ("key", "quiet"),
                 ("mouse", "signals"), ("mouse", "quiet"), ("wkey", "signals"), ("wmouse", "signals"), ("new_radio", "quiet"), ("remove", "quiet"),
                 ("set_label", "quiet"), ("icon_render", "cursor"), ("icon_render", "none")]:
        if not kinds.get(need):
            chk.vacuity.append(f"driver.{need[0]}.{need[1]}")
    if not any(t["hook"]["on"] and any(len(e["log"]) > 2 for e in t["ev"]) for t in traces):
        chk.vacuity.append("driver.reentrant_callback_never_fired")
    chk.cov["rule"] = ("every operation of the alphabet (set_state with valid/invalid states and do_callback, the state property, toggle_state, keys and mouse "
                       "events on the widget and through the container, RadioButton construction, group-list removal, set_label with three markup forms) from "
                       "several states in a Pile, a ListBox and a Pile of AttrMap-wrapped widgets; exhaustive pairs (thorough: triples) of a representative "
                       "alphabet; seeded random histories with and without a re-entrant callback; TLC behaviours of Selection.tla replayed on the real widgets; "
                       "non-trivial = distinct (container, hook signal, operation, resulting state, focus) cases that emitted at least one signal")
    chk.cov["exhaustive"] = True
    chk.cov["bounds"] = {"single_op_cases": n_single, "alphabet": len(ops), "pair_histories": n_pairs, "triple_histories": n_triples,
                         "pair_alphabet": len(sm), "random_histories": n_rand, "driver_wall_s": round(t_drive, 1)}
    for t in traces:
        if t["driver"] == "random" and t["hook"]["on"] and any(len(e["log"]) > 4 for e in t["ev"]):
            e = next(e for e in t["ev"] if len(e["log"]) > 4)
            chk.sample({"cont": t["cont"], "hook": t["hook"], "op": e["op"], "st": e["st"], "log": [[x["sig"], x["w"], x["arg"], x["snap"]] for x in e["log"]]})
            break
    chk.sample({k: v for k, v in traces[len(traces) // 3]["ev"][-1].items()})
    chk.cov["trusted_base"] = ["TLC", "vf/props/x01.py World (call-through driver: builds the widgets, connects recording callbacks, projects get_state()/focus/"
                               "group lists/get_label()/rendered rows; the re-entrant callback is part of the driver)", "SelectionOps.tla Marker/RowOf tables"]
    chk.assumptions += ["states passed to set_state are True / False / 'mixed' or clearly invalid values (None, 'on', 2, 'Mixed'); the ints 0 / 1 (== False / True) are out of scope",
                        "labels fit on one line of the widget (wrapping of labels is TextLayout's business); width 14, every widget one row",
                        "a group list holds each radio at most once and only radios constructed with that list; the only direct list mutation is remove()",
                        "RadioButton(group, state=True) while the group has a selected member is exercised in a dedicated trace family only (it diverges: see report)",
                        "mouse buttons 4 / 5 (scrolling in a ListBox) and page / home / end keys are out of scope; the ListBox always shows all rows",
                        "re-entrant callbacks are one level deep (the callback does not fire again inside itself) and call set_state with a valid state"]


def replay(chk, path):
    """Replay file: {"replay": {"kind": [...], "home": [...], "cont": "pile", "hook": {...}, "init": {...}, "ops": [...]}}."""
    with open(path) as f:
        rp = json.load(f)
    rp = rp.get("replay", rp)
    layout = list(zip(rp["kind"], rp["home"]))
    tr = record(layout, rp.get("cont", "pile"), rp["ops"], "replay", hook=rp.get("hook"), init_st=rp["init"]["st"], init_focus=rp["init"]["focus"])
    res = tlc.validate("SelectionTrace", [tr], jobs=1, timeout=300)
    chk.add_tv("replay", res)
    _handle_rejects(chk, [tr], res)
    chk.sample(tr["ev"][-1])
    return chk.finish()
