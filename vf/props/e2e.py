"""E2E — end-to-end composed specification "Session" (whole-application conformance; not one of the listed properties).

Model: spec/SessionOps.tla (reference application built on EditOps), spec/Session.tla (exhaustive model + generator of key
scripts), trace spec: spec/SessionTrace.tla (InputDecoderOps + SessionOps + Terminal/RawDisplayTrace + MainLoopOps!Restored).

Every session runs in a forked child: real pty, real raw_display.Screen, real MainLoop, the real widgets of vf/e2eapp.py,
one of the six event loops under the virtual clock of vf/loops.py.  The harness types bytes (cut into chunks at arbitrary
points), resizes the window and emits `settled` markers when the loop has gone idle and the completion timeout has passed.
TLC decodes the typed bytes, folds the keys through the model and compares the reference terminal with ExpectedScreen.
Every rejection is a DIVERGENCE (the layer goes beyond the listed properties); machinery failures raise MachineryError."""
from __future__ import annotations

import hashlib
import json
import os
import re
import signal
import tempfile
import time

from .. import e2eapp, loops, term, tlc
from ..common import REPLAY_DIR

# ------------------------------------------------------------------------------------------------------------------
# applications (plain descriptions; the second one starts with the CheckBox and has the static Text in the middle)
# ------------------------------------------------------------------------------------------------------------------
APPS = {
    "form": e2eapp.APP,
    "mixed": {
        "title": "second app",
        "status": "-",
        "items": [
            {"kind": "check", "label": "on", "state": True},
            {"kind": "edit", "caption": "name: ", "text": "ab"},
            {"kind": "text", "text": "-- static --"},
            {"kind": "edit", "caption": "", "text": ""},
        ],
    },
}
SIZES = [(24, 7), (30, 9), (27, 8)]          # every size leaves room: rows >= items + 2, no Edit can wrap
MODEL_SIZES = {12: SIZES[0], 14: SIZES[1]}   # the sizes of Session.tla -> real sizes
MAX_TYPED = 8                                # printable keys per script (each at most 2 columns wide)

# ------------------------------------------------------------------------------------------------------------------
# key name -> bytes.  Names come from the frozen table spec/InputTable.tla; urwid's own escape table is consulted only for
# *which byte sequences exist* (a sequence urwid does not list is not typed).
# ------------------------------------------------------------------------------------------------------------------
_TABLE_ROW = re.compile(r'<<([\d, ]+)>> :> "((?:[^"\\]|\\.)*)"')
SAFE_CTRL = "abefgklnptx"      # control bytes the tty line discipline passes through in cbreak mode


def frozen_table():
    with open(os.path.join(tlc.SPEC_DIR, "InputTable.tla")) as f:
        txt = f.read()
    rows = []
    for m in _TABLE_ROW.finditer(txt.split("TablePrefixes")[0]):
        seq = bytes([27] + [int(x) for x in m.group(1).split(",")])
        rows.append((seq, m.group(2).replace('\\"', '"').replace("\\\\", "\\")))
    return rows


def key_bytes_table():
    """name -> list of byte strings that the frozen table decodes to that name."""
    from urwid.display import escape  # only for the *byte sequences* urwid lists

    listed = {b"\x1b" + s.encode("latin-1") for s, _n in escape.input_sequences}
    out = {}
    for seq, name in frozen_table():
        if seq in listed:
            out.setdefault(name, []).append(seq)
    out.setdefault("esc", []).append(b"\x1b")
    out.setdefault("enter", []).extend([b"\r", b"\n"])
    out.setdefault("tab", []).append(b"\t")
    out.setdefault("backspace", []).extend([b"\x7f", b"\x08"])
    for ch in SAFE_CTRL:
        out.setdefault("ctrl " + ch, []).append(bytes([ord(ch) - 96]))
    return out


def spelling():
    """Every key name the reference decoder can produce for the bytes we type -> code points (plain data for TLC)."""
    names = {n for _s, n in frozen_table()} | {"esc", "enter", "tab", "backspace", "meta "}
    names |= {"ctrl " + chr(96 + c) for c in range(1, 27)} | {"ctrl " + chr(64 + c) for c in range(28, 32)}
    names |= {chr(c) for c in range(32, 127)}
    sp = {n: [ord(c) for c in n] for n in names}
    for n in list(sp):
        if not n.startswith("meta") and n != "esc":
            sp.setdefault("meta " + n, [ord(c) for c in "meta " + n])
    return sp


CHARS = ["a", "b", "c", "1", " ", "é", "字"]
EDIT_KEYS = ["left", "right", "home", "end", "backspace", "delete"]
NAV_KEYS = ["up", "down", "page up", "page down"]
UNUSED_POOL = ["f5", "f1", "f12", "insert", "tab", "shift tab", "ctrl a", "ctrl n", "ctrl p", "ctrl x", "meta up", "shift up", "ctrl left",
               "meta delete", "shift f3", "ctrl page down", "meta ctrl end", "shift meta ctrl page down", "5", "focus in"]


def encode_key(k, table, rng):
    """k: ('char', 'x') | ('key', name) | ('meta', 'x') -> bytes"""
    if k[0] == "char":
        return k[1].encode("utf-8")
    if k[0] == "meta":
        return b"\x1b" + k[1].encode("utf-8")
    if k[0] == "trunc":         # the beginning of an escape sequence and then nothing: resolved by the completion timeout
        return k[1].encode("latin-1")
    return rng.choice(table[k[1]])


def random_script(rng, table, n, profile="edit"):
    """profile "edit": typing and editing with some navigation and unused keys; "nav": mostly cursor / focus movement
    (the cursor column travels between the items)."""
    cut = {"edit": (0.35, 0.55, 0.80, 0.86, 0.90, 0.93), "nav": (0.18, 0.42, 0.90, 0.95, 0.96, 0.97)}[profile]
    ks = []
    typed = 0
    for _ in range(n):
        r = rng.random()
        if r < cut[0] and typed < MAX_TYPED:
            ks.append(("char", rng.choice(CHARS)))
            typed += 1
        elif r < cut[1]:
            ks.append(("key", rng.choice(EDIT_KEYS)))
        elif r < cut[2]:
            ks.append(("key", rng.choice(NAV_KEYS)))
        elif r < cut[3]:
            ks.append(("key", "enter"))
        elif r < cut[4]:
            ks.append(("key", "ctrl l"))
        elif r < cut[5]:
            ks.append(("meta", rng.choice("axZ")) if rng.random() < 0.6 else ("trunc", rng.choice(["\x1b[", "\x1bO", "\x1b[1", "\x1b[1;"])))
        else:
            name = rng.choice(UNUSED_POOL)
            if name == "5":     # the keypad centre key is named "5": on an Edit it is a character
                if typed >= MAX_TYPED:
                    continue
                typed += 1
            if name in table:
                ks.append(("key", name))
    return ks


NAV_ALPHABET = [("key", "down"), ("key", "up"), ("key", "page down"), ("key", "page up"), ("key", "home"), ("key", "end"),
                ("key", "left"), ("char", "a"), ("char", " ")]
PREFIXES = [[("char", "a"), ("char", "b"), ("char", "c")], [("char", "字"), ("char", "a"), ("key", "left")],
            [("char", "a"), ("char", "b"), ("key", "home")], [("key", "down"), ("char", "a"), ("char", "b"), ("char", "c"), ("char", "b")]]


def directed_scripts(rng, depth, sample):
    """A typed prefix (so that the cursor column means something) followed by every sequence of `depth` keys of the navigation
    alphabet (or a seeded sample of them)."""
    import itertools

    seqs = list(itertools.product(NAV_ALPHABET, repeat=depth))
    if sample is not None and sample < len(seqs):
        seqs = rng.sample(seqs, sample)
    return [list(rng.choice(PREFIXES)) + list(sq) for sq in seqs]


def make_plan(rng, keys, resizes, settle_p, size0, end_esc=True):
    """keys: list of key tuples; resizes: how many resize operations to sprinkle; returns the plan (list of ops).
    A bare ESC is ambiguous until the completion timeout: it is always followed by a settle (or ends the session)."""
    ops = [{"op": "settle"}]
    burst = bytearray()
    size = size0

    def flush():
        nonlocal burst
        if not burst:
            return
        data = bytes(burst)
        burst = bytearray()
        ncuts = rng.choice([0, 0, 1, 1, 2, 3]) if len(data) > 1 else 0
        cuts = sorted(set(rng.randrange(1, len(data)) for _ in range(ncuts)))
        prev = 0
        for c in [*cuts, len(data)]:
            ops.append({"op": "type", "data": list(data[prev:c])})
            prev = c

    slots = sorted(rng.randrange(0, len(keys) + 1) for _ in range(resizes))
    for i, k in enumerate(keys):
        while slots and slots[0] == i:
            slots.pop(0)
            mid = bool(burst) and rng.random() < 0.3 and len(burst) > 1
            if mid:                         # resize in the middle of a byte sequence: cut here, resize, continue
                cut = rng.randrange(1, len(burst))
                head, tail = bytes(burst[:cut]), bytes(burst[cut:])
                burst = bytearray(head)
                flush()
                burst = bytearray(tail)
            else:
                flush()
                if rng.random() < 0.5:
                    ops.append({"op": "settle"})
            size = rng.choice([s for s in SIZES if s != size])
            ops.append({"op": "resize", "w": size[0], "h": size[1]})
            if rng.random() < 0.5 and not mid:
                ops.append({"op": "settle"})
        burst += k["bytes"]
        if k["bytes"] == b"\x1b" or k["k"][0] == "trunc" or rng.random() < settle_p:
            flush()
            ops.append({"op": "settle"})
    flush()
    for _ in slots:                         # resizes after the last key
        if rng.random() < 0.5 and ops[-1]["op"] != "settle":
            ops.append({"op": "settle"})
        size = rng.choice([s for s in SIZES if s != size])
        ops.append({"op": "resize", "w": size[0], "h": size[1]})
    if ops[-1]["op"] != "settle":
        ops.append({"op": "settle"})
    if end_esc:
        ops.append({"op": "type", "data": [27]})
    return ops


# ------------------------------------------------------------------------------------------------------------------
# one real session (forked child)
# ------------------------------------------------------------------------------------------------------------------
def _session(cfg):
    import fcntl
    import struct
    import termios

    import urwid
    from urwid.display import raw

    urwid.set_encoding("utf-8")
    W, H = cfg["w"], cfg["h"]
    master, slave = os.openpty()
    fcntl.ioctl(slave, termios.TIOCSWINSZ, struct.pack("HHHH", H, W, 0, 0))
    attrs = termios.tcgetattr(slave)
    attrs[3] &= ~termios.ECHO
    termios.tcsetattr(slave, termios.TCSANOW, attrs)
    os.set_blocking(master, False)
    probe_fd = os.dup(slave)
    env = loops.Env(max_waits=4000)
    out = bytearray()
    items = []       # ("out", bytes) | event dict, in the order things happened

    def drain():
        try:
            while True:
                b = os.read(master, 65536)
                if not b:
                    break
                out.extend(b)
        except (BlockingIOError, OSError):
            pass

    def cut_output():
        drain()
        if out:
            items.append(("out", bytes(out)))
            out.clear()

    env.on_wait = drain
    ad = loops.ADAPTERS[cfg["loop"]](env)
    before_sig = {s: signal.getsignal(s) for s in (signal.SIGWINCH, signal.SIGTSTP, signal.SIGCONT)}
    before_tty = termios.tcgetattr(probe_fd)
    final = {"t": "final", "exc": "", "forced": False}
    screen = None
    try:
        evl = ad.make()
        fin = os.fdopen(slave, "r", closefd=False)
        fout = os.fdopen(os.dup(slave), "w")
        screen = raw.Screen(input=fin, output=fout)
        env.realfds[slave] = 1
        env.realfds[screen._resize_pipe_rd.fileno()] = 2
        frame, unhandled, _ws = e2eapp.build(urwid, APPS[cfg["app"]])
        ml = urwid.MainLoop(frame, [], screen, unhandled_input=unhandled, event_loop=evl)
        size = [W, H]

        def dbg():
            try:
                c = frame.render(tuple(size), True)
                return [r.decode("utf-8", "replace") for r in c.text], (list(c.cursor) if c.cursor else [])
            except Exception as ex:  # noqa: BLE001   (debug aid only, never judged)
                return [f"{type(ex).__name__}: {ex}"], []

        t = 0.5
        for op in cfg["plan"]:
            if op["op"] == "type":
                t += 0.002

                def act(data=bytes(op["data"])):
                    cut_output()
                    items.append({"t": "input", "bytes": list(data)})
                    os.write(master, data)
            elif op["op"] == "resize":
                t += 0.002

                def act(w=op["w"], h=op["h"]):
                    cut_output()
                    size[:] = [w, h]
                    fcntl.ioctl(slave, termios.TIOCSWINSZ, struct.pack("HHHH", h, w, 0, 0))
                    items.append({"t": "resize", "w": w, "h": h})
                    signal.raise_signal(signal.SIGWINCH)
            else:
                t += 1.0        # far beyond the input completion timeout (0.125 s) and any idle emulation delay

                def act():
                    cut_output()
                    rows, cur = dbg() if cfg.get("dbg") else ([], [])
                    items.append({"t": "settled", "dbg": rows, "dbgcur": cur})
            env.actions.append((t, act))

        def forced(loop, data):
            final["forced"] = True
            raise urwid.ExitMainLoop()

        ml.set_alarm_in(t + 5.0, forced)
        try:
            ml.run()
            if getattr(ad, "stuck", False):
                final["exc"] = "stuck"
        except loops.Stuck:
            final["exc"] = "stuck"
        except BaseException as ex:  # noqa: BLE001
            final["exc"] = f"{type(ex).__name__}: {str(ex)[:200]}"
    except BaseException as ex:  # noqa: BLE001  # harness failure
        return {"error": f"{type(ex).__name__}: {ex}"}
    drain()
    try:
        fout.flush()
    except Exception:  # noqa: BLE001
        pass
    cut_output()
    ev = []
    unknown = []
    for it in items:
        if isinstance(it, dict):
            ev.append(it)
            continue
        run_c, run_w = [], []

        def endrun():
            if run_c:
                ev.append({"t": "puts", "cs": list(run_c), "ws": list(run_w)})
                run_c.clear()
                run_w.clear()

        for tok in term.tokenize(it[1].decode("utf-8", "replace")):
            if tok["t"] == "put":
                run_c.append(tok["c"])
                run_w.append(tok["w"])
                continue
            endrun()
            if tok["t"] == "unknown":
                unknown.append(tok["s"])
            elif tok["t"] != "zw":
                ev.append(tok)
        endrun()
    after_tty = termios.tcgetattr(probe_fd)
    after_sig = {s: signal.getsignal(s) for s in before_sig}
    # MainLoopOps!Restored compares the dispositions before and after as two sequences (one entry per signal)
    sigs = sorted(before_sig, key=int)
    final.update(termios_same=after_tty == before_tty, signals_same=all(after_sig[s] == before_sig[s] for s in before_sig),
                 sigs_before=["same"] * len(sigs), sigs_after=["same" if after_sig[s] == before_sig[s] else "changed" for s in sigs],
                 started=bool(screen.started), unknown=len(unknown), unknown_s=unknown[:5],
                 actions_left=len(env.actions))
    ev.append(final)
    return {"w": W, "h": H, "app": e2eapp.app_for_tlc(APPS[cfg["app"]]), "cfg": cfg, "ev": ev}


def _child(cfg, conn):
    try:
        r = _session(cfg)
    except BaseException as ex:  # noqa: BLE001
        r = {"error": f"{type(ex).__name__}: {ex}"}
    try:
        conn.send(r)
    finally:
        conn.close()
        os._exit(0)


def run_all(cfgs, jobs=14, timeout=120):
    """Each session in its own forked process (fresh signal handlers / tty state); the scheduler of c12.run_sessions, except
    that a child that has exited is asked once more for its result before it is declared dead."""
    import multiprocessing as mp

    ctx = mp.get_context("fork")
    results = [None] * len(cfgs)
    pending = list(enumerate(cfgs))
    running = []
    while pending or running:
        while pending and len(running) < jobs:
            i, cfg = pending.pop(0)
            pr, pw = ctx.Pipe(duplex=False)
            p = ctx.Process(target=_child, args=(cfg, pw))
            p.start()
            pw.close()
            running.append((i, p, pr, time.time()))
        still = []
        for i, p, pr, t0 in running:
            alive = p.is_alive()
            if pr.poll(0.002 if alive else 0.2):
                try:
                    results[i] = pr.recv()
                except EOFError:
                    results[i] = {"error": "child died"}
                p.join(5)
                pr.close()
            elif not alive:
                results[i] = {"error": f"child exited {p.exitcode}"}
                pr.close()
            elif time.time() - t0 > timeout:
                p.kill()
                p.join(5)
                results[i] = {"error": f"session hung: {json.dumps(cfgs[i])[:800]}"}
                pr.close()
            else:
                still.append((i, p, pr, t0))
        running = still
    return results


# ------------------------------------------------------------------------------------------------------------------
MC_CFG = """CONSTANTS Chars = {chars} MaxKeys = {mk} MaxText = {mt} KeepHist = {kh} Bad = "{bad}"
SPECIFICATION {spec}
INVARIANT TypeOK
INVARIANT AssumptionsHold
INVARIANT FocusSelectable
INVARIANT FocusSelectableStrict
INVARIANT CursorCell
INVARIANT ScreenWellFormed
INVARIANT TypeBackspaceUndo
INVARIANT UnusedKey
INVARIANT FooterIsLastUnhandled
INVARIANT ResizeOnlySize
INVARIANT OnlyFocusItemChanges
INVARIANT CheckToggles
CHECK_DEADLOCK FALSE
"""
MODEL_CHAR = {97: "a", 98: "b", 23383: "字", 32: " "}


def keys_from_behaviour(b, table, rng):
    """The script of a simulated behaviour (variable hist of its last state) -> [(kind, key dict | size)]."""
    hist = b[-1]["hist"]
    out = []
    for h in hist:
        if h["op"] == "resize":
            out.append(("resize", MODEL_SIZES[h["w"]]))
        elif h["cp"] > 0:
            out.append(("key", ("char", MODEL_CHAR[h["cp"]])))
        else:
            out.append(("key", ("key", h["name"])))
    return out


def plan_from_model_script(rng, script, table, size0):
    """TLC-generated script: resizes where the model put them, a settle after most keys, random chunking."""
    ops = [{"op": "settle"}]
    for kind, x in script:
        if kind == "resize":
            ops.append({"op": "resize", "w": x[0], "h": x[1]})
            if rng.random() < 0.6:
                ops.append({"op": "settle"})
            continue
        if x == ("key", "esc"):
            continue
        data = encode_key(x, table, rng)
        if len(data) > 1 and rng.random() < 0.5:
            c = rng.randrange(1, len(data))
            ops += [{"op": "type", "data": list(data[:c])}, {"op": "type", "data": list(data[c:])}]
        else:
            ops.append({"op": "type", "data": list(data)})
        if rng.random() < 0.7:
            ops.append({"op": "settle"})
    if ops[-1]["op"] != "settle":
        ops.append({"op": "settle"})
    ops.append({"op": "type", "data": [27]})
    return ops


def names_of(keys):
    return ["meta " + k[1] if k[0] == "meta" else "truncated " + repr(k[1]) if k[0] == "trunc" else k[1] for k in keys]


def _divergences(chk, traces, res, label):
    for ti, l, why in res.rejects:
        tr = traces[ti]
        cfg = tr["cfg"]
        if why.startswith("harness.") or why == "no_action":
            raise tlc.MachineryError(f"E2E harness problem {why} in session {json.dumps(cfg)[:1500]} at event {l}: {tr['ev'][l - 1]}")
        e = tr["ev"][l - 1]
        detail = {"loop": cfg["loop"], "app": cfg["app"], "size": [cfg["w"], cfg["h"]], "keys": cfg.get("keys"),
                  "event": l, "screen_by_urwid": e.get("dbg"), "cursor_by_urwid": e.get("dbgcur"), "final": e if e["t"] == "final" else None}
        key = json.dumps([why, cfg], sort_keys=True, default=str)
        h = hashlib.sha1(key.encode()).hexdigest()[:12]
        d = os.path.join(REPLAY_DIR, "E2E")
        os.makedirs(d, exist_ok=True)
        path = os.path.join(d, h + ".json")
        if len(chk.divergences) < 40 and not os.path.exists(path):
            with open(path, "w") as f:
                json.dump({"property": "E2E", "clause": why, "seed": chk.seed, "tier": chk.tier, "driver": label,
                           "replay": {"cfg": cfg, "detail": detail}}, f, indent=1, default=str)
        detail["replay"] = path
        chk.divergence(f"E2E.{why}", detail)


def _validate(chk, traces, name, jobs, batch_events=10000):
    sp = spelling()
    tmp = tempfile.mkdtemp(prefix="vf-e2e-")
    try:
        spf = os.path.join(tmp, "spell.json")
        with open(spf, "w") as f:
            json.dump(sp, f)
        slim = [{k: v for k, v in t.items() if k != "cfg"} for t in traces]
        for t in slim:
            t["ev"] = [{k: v for k, v in e.items() if k not in ("dbg", "dbgcur", "unknown_s")} for e in t["ev"]]
        return tlc.validate("SessionTrace", slim, batch_events=batch_events, jobs=jobs, timeout=1500, env={"SPELL_FILE": spf})
    finally:
        import shutil

        shutil.rmtree(tmp, ignore_errors=True)


def run(chk):
    quick = chk.tier == "quick"
    rng = chk.rng
    import concurrent.futures as cf

    # ---- 1. the model: exhaustive within bounds; a deliberately wrong list must be refuted ----------------------
    def mc_design():
        return tlc.mc("Session", MC_CFG.format(chars="{97, 23383}" if quick else "{97, 98, 23383}", mk=5, mt=3, kh="FALSE", bad="", spec="Spec"),
                      workers=6, timeout=1500)

    def mc_bad():
        return tlc.mc("Session", MC_CFG.format(chars="{97}", mk=3, mt=2, kh="FALSE", bad="downNoSkip", spec="Spec"), workers=2, timeout=600)

    def gen():
        return tlc.simulate("Session", MC_CFG.format(chars="{97, 98, 23383}", mk=8, mt=5, kh="TRUE", bad="", spec="SimSpec"),
                            num=60 if quick else 800, depth=9, seed=chk.seed, jobs=1 if quick else 6, timeout=900)

    with cf.ThreadPoolExecutor(3) as ex:
        f_mc, f_bad, f_gen = ex.submit(mc_design), ex.submit(mc_bad), ex.submit(gen)
        # ---- 2. scripts ------------------------------------------------------------------------------------
        table = key_bytes_table()
        loops_used = ["select", "asyncio"] if quick else ["select", "asyncio", "tornado", "twisted", "zmq", "trio"]
        cfgs = []
        n_rand = 150 if quick else 3600
        for i in range(n_rand):
            app = "form" if i % 3 else "mixed"
            size0 = SIZES[i % len(SIZES)]
            keys = random_script(rng, table, rng.randint(3, 10), "nav" if i % 5 in (1, 3) else "edit")
            kd = [{"k": k, "bytes": encode_key(k, table, rng)} for k in keys]
            plan = make_plan(rng, kd, resizes=rng.choice([0, 0, 1, 1, 2]), settle_p=rng.choice([0.2, 0.5, 1.0]), size0=size0)
            cfgs.append({"loop": loops_used[i % len(loops_used)], "app": app, "w": size0[0], "h": size0[1], "plan": plan,
                         "keys": names_of(keys), "src": "random", "dbg": True})
        for i, keys in enumerate(directed_scripts(rng, 3, 100 if quick else None)):
            size0 = SIZES[i % len(SIZES)]
            kd = [{"k": k, "bytes": encode_key(k, table, rng)} for k in keys]
            plan = make_plan(rng, kd, resizes=1 if i % 4 == 0 else 0, settle_p=1.0, size0=size0)
            cfgs.append({"loop": loops_used[i % len(loops_used)], "app": "mixed" if i % 3 == 0 else "form", "w": size0[0], "h": size0[1],
                         "plan": plan, "keys": names_of(keys), "src": "directed", "dbg": True})
        behs = f_gen.result()
        for i, b in enumerate(behs):
            if len(b) < 2:
                continue
            script = keys_from_behaviour(b, table, rng)
            size0 = MODEL_SIZES[b[0]["st"]["cols"]]
            for lp in ([loops_used[i % len(loops_used)]] if quick else loops_used):
                cfgs.append({"loop": lp, "app": "form" if i % 2 else "mixed", "w": size0[0], "h": size0[1],
                             "plan": plan_from_model_script(rng, script, table, size0),
                             "keys": [x[1] if k == "key" else f"resize {x[0]}x{x[1]}" for k, x in script], "src": "tlc", "dbg": True})
        # ---- 3. real sessions ----------------------------------------------------------------------------
        t0 = time.time()
        results = run_all(cfgs, jobs=10 if quick else 14)
        chk.note(f"{len(cfgs)} real sessions in {time.time() - t0:.1f}s")
        errors = [x for x in results if x is None or "error" in x]
        if errors:
            raise tlc.MachineryError(f"{len(errors)} sessions failed in the harness, e.g. {errors[0]}")
        traces = results
        res = _validate(chk, traces, "TV_SessionTrace", jobs=4 if quick else 8, batch_events=10000 if quick else 25000)
        r = f_mc.result()
        rb = f_bad.result()
    chk.add_mc("MC_Session", r)
    if not r.ok:
        raise tlc.MachineryError(f"Session.tla is inconsistent (invariant {r.violated}): {r.trace[-2:]}")
    chk.cov["tlc_runs"].append({"run": "MC_Session_bad_downNoSkip_must_fail", "violated": rb.violated, "generated": rb.generated})
    if rb.violated is None:
        raise tlc.MachineryError("Session.tla no longer refutes a list whose 'down' does not skip unselectable items")
    chk.add_tv("TV_SessionTrace", res)
    _divergences(chk, traces, res, "e2e")
    # ---- 4. evidence ----------------------------------------------------------------------------------------
    counts = {}
    nontriv = set()
    for t in traces:
        cfg = t["cfg"]
        counts["loop." + cfg["loop"]] = counts.get("loop." + cfg["loop"], 0) + 1
        counts["app." + cfg["app"]] = counts.get("app." + cfg["app"], 0) + 1
        counts["src." + cfg["src"]] = counts.get("src." + cfg["src"], 0) + 1
        for e in t["ev"]:
            if e["t"] in ("input", "resize", "settled", "final"):
                counts["event." + e["t"]] = counts.get("event." + e["t"], 0) + 1
        for k in cfg["keys"]:
            cat = ("key.char" if len(k) == 1 else "key.truncated_sequence" if k.startswith("truncated") else "key." + k if k in EDIT_KEYS + NAV_KEYS + ["enter", "ctrl l", "esc"] else
                   "key.resize" if k.startswith("resize") else "key.unused_named")
            counts[cat] = counts.get(cat, 0) + 1
        nchunks = sum(1 for op in cfg["plan"] if op["op"] == "type")
        if nchunks > len(cfg["keys"]):
            counts["sessions_with_split_sequences"] = counts.get("sessions_with_split_sequences", 0) + 1
        if any(op["op"] == "resize" for op in cfg["plan"]):
            counts["sessions_with_resize"] = counts.get("sessions_with_resize", 0) + 1
        if sum(1 for e in t["ev"] if e["t"] == "settled") >= 2:
            nontriv.add(json.dumps([cfg["app"], cfg["w"], cfg["h"], cfg["plan"]]))
    chk.cov["clause_counts"] = counts
    chk.cov["distinct_nontrivial"] = len(nontriv)
    chk.cov["exhaustive"] = False
    chk.cov["rule"] = ("session = key script (TLC-simulated from Session.tla, or seeded random over characters incl. a 2-byte and a double-width one, "
                       "editing / navigation keys, unused named keys from the frozen table) encoded to bytes, cut into chunks at random points, "
                       "with 0-2 window resizes (also in the middle of a byte sequence), typed into a real MainLoop + raw_display.Screen on a pty under "
                       "each event loop; the screen is compared with the model at every 'settled' marker; non-trivial = distinct sessions with at "
                       "least two screen comparisons")
    chk.cov["bounds"] = {"model": {"MaxKeys": 5, "MaxText": 3, "Chars": [97, 23383] if quick else [97, 98, 23383], "sizes": [[12, 6], [14, 7]]},
                         "tlc_scripts": len(behs), "random_scripts": n_rand, "loops": loops_used, "sizes": SIZES, "apps": sorted(APPS)}
    for need in ("sessions_with_resize", "sessions_with_split_sequences", "key.char", "key.unused_named", "key.page down", "key.backspace"):
        if not counts.get(need):
            chk.vacuity.append("driver." + need)
    t = traces[0]
    chk.sample({"cfg": {k: v for k, v in t["cfg"].items() if k != "plan"}, "plan": t["cfg"]["plan"][:12],
                "events": [e if e["t"] != "puts" else {"t": "puts", "n": len(e["cs"])} for e in t["ev"]][:30]})
    chk.sample({"keys": traces[-1]["cfg"]["keys"], "loop": traces[-1]["cfg"]["loop"], "src": traces[-1]["cfg"]["src"]})
    chk.cov["trusted_base"] = ["TLC", "vf/term.py tokeniser", "vf/loops.py virtual-time doubles", "session runner (pty, fork per session) of vf/props/c12.py + e2e.py",
                               "vf/e2eapp.py (builds the application from the description also given to TLC)",
                               "spelling table key name -> code points (plain data)", "frozen key table spec/InputTable.tla"]
    chk.assumptions += ["the model is the specification only while every Edit fits on one row and the whole list is visible (checked per comparison: Fits)",
                        "mouse input, paste, focus reports and signals other than SIGWINCH are not typed",
                        "control bytes the tty line discipline interprets in cbreak mode (ctrl c, z, s, q, v, o, \\) are not typed",
                        "no palette: every cell is compared with the default pen",
                        "a resize is applied to the reference terminal as a crop/extend of its grid (a VT100 has no resize)",
                        "glib loop, curses and Windows displays cannot run here"]


def replay(chk, path):
    with open(path) as f:
        rp = json.load(f)["replay"]
    cfg = rp["cfg"]
    tr = run_all([cfg])[0]
    if tr is None or "error" in tr:
        raise tlc.MachineryError(str(tr))
    res = _validate(chk, [tr], "replay", jobs=1)
    chk.add_tv("replay", res)
    _divergences(chk, [tr], res, "replay")
    chk.sample({"cfg": {k: v for k, v in cfg.items() if k != "plan"}})
    return chk.finish()
