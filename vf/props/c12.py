"""C12 — MainLoop delivers input in order and always restores the terminal (fault injection).
Monitor: spec/MainLoopOps.tla; trace spec: spec/MainLoopTrace.tla; generator: spec/MainLoop.tla.
Every session runs in a forked child: real pty, real raw_display.Screen, real MainLoop, one of the
six event loops under the virtual clock of vf/loops.py.  A session fixes what the process had before
run() (signal dispositions, the terminal on file descriptor 0 or elsewhere) and may call run() twice;
the terminal output is interleaved with the logical events, so every draw is judged against what the
reference terminal shows afterwards (garbled where a full repaint was asked for)."""
from __future__ import annotations

import concurrent.futures as cf
import json
import multiprocessing as mp
import os
import signal
import time

from .. import loops, term, tlc

W, H = 12, 3

# input alphabet: abstract name -> (bytes written to the terminal, decoded key names, handled by the probe widget?)
INPUTS = {
    "keyH": (b"a", ["a"], True),        # a key the top widget handles
    "keyU": (b"q", ["q"], False),       # a key nobody handles -> unhandled_input
    "keyX": (b"x", ["x"], None),        # dropped by the input filter
    "up": (b"\x1b[A", ["up"], False),
    "ctrlL": (b"\x0c", ["ctrl l"], False),   # REDRAW_SCREEN command: screen.clear(), not passed on
    "two": (b"aq", ["a", "q"], None),   # two keys in one read
    "mouseH": (b"\x1b[<0;3;2M", ["mouse press 1 2 1"], True),
    "mouseU": (b"\x1b[<2;4;1M", ["mouse press 3 3 0"], False),
    "meta": (b"\x1bz", ["meta z"], False),
    "esc": (b"\x1b", ["esc"], False),   # a lone ESC: the screen may keep it back while it waits for the rest of a sequence
}
SPLITTABLE = {"up": 3, "meta": 2, "mouseH": 9, "mouseU": 9}     # inputs of several bytes that decode to one event (NBytes of MainLoop.tla)
GAP_MS = 5              # Gap of MainLoop.tla: time between the two reads of a split input
COMPLETE_WAIT_MS = 125  # Screen.complete_wait
CALLBACKS = ["filter", "keypress", "mouse_event", "unhandled", "alarm", "pipe", "render"]
SIGNALS = ["SIGWINCH", "SIGTSTP", "SIGCONT"]      # the signals whose handlers a raw display Screen touches
RERUN_LOOPS = ("select", "asyncio", "tornado", "zmq")      # loops whose run() may be called again (a twisted reactor cannot be restarted; trio drops its tasks)


def kind_str(kind, cut=0, also="-"):
    """Event kind syntax: [also+]kind[@cut] -- `also` is typed just before `kind` and arrives in the same read; with @cut only the
    first `cut` bytes of `kind` arrive in that read, the rest GAP_MS later."""
    return (f"{also}+" if also and also != "-" else "") + kind + (f"@{cut}" if cut else "")


def parse_kind(k):
    also, _, main = k.rpartition("+")
    main, _, cut = main.partition("@")
    return also or None, main, int(cut) if cut else 0


def _session(cfg):
    """Runs in a forked child.  cfg: loop, events [(ms, kind)], fault (kind, index, exc)|None, pop_ups, mouse, swap;
    sigs: dispositions of SIGNALS before run() ("ign" | "dfl" | "py": a Python handler); stdin: the terminal input is file descriptor 0
    (how applications normally run); again: run() is called a second time on the same MainLoop when the first run is over."""
    import fcntl
    import struct
    import termios

    import urwid
    from urwid.display import raw

    urwid.set_encoding("utf-8")
    master, slave = os.openpty()
    fcntl.ioctl(slave, termios.TIOCSWINSZ, struct.pack("HHHH", H, W, 0, 0))
    attrs = termios.tcgetattr(slave)
    attrs[3] &= ~termios.ECHO
    termios.tcsetattr(slave, termios.TCSANOW, attrs)
    os.set_blocking(master, False)
    probe_fd = os.dup(slave)  # the harness' own handle on the tty (a loop may close the one it was given)
    in_fd = slave
    if cfg.get("stdin"):
        os.dup2(slave, 0)     # the terminal is the process's standard input, as for a program started from a shell
        in_fd = 0
    env = loops.Env(max_waits=400)
    out = bytearray()
    marks = []      # (index into env.ev, bytes written to the terminal so far): where the output stands when an event is logged

    def mark(**e):
        """Log an event that has to be seen in order with the bytes written to the terminal."""
        drain()
        env.log(**e)
        marks.append((len(env.ev) - 1, len(out)))

    def drain():
        try:
            while True:
                b = os.read(master, 65536)
                if not b:
                    break
                out.extend(b)
        except (BlockingIOError, OSError):
            pass

    env.on_wait = drain
    legacy = bool(cfg.get("legacy"))
    if legacy:
        # a screen WITHOUT external event-loop support: MainLoop runs its own loop around screen.get_input() in real time;
        # the event loop object only stores the alarms, so no clock double applies (delays are a few hundredths of a second)
        class _LegacyAd:
            def make(self):
                return urwid.SelectEventLoop()

            def close(self):
                pass
        ad = _LegacyAd()
    else:
        ad = loops.ADAPTERS[cfg["loop"]](env)
    fault = cfg.get("fault")
    counts = {k: 0 for k in CALLBACKS}
    injected = [None]

    def hits(kind):
        """Will this invocation of callback `kind` raise the planned fault?"""
        return bool(fault and fault[0] == kind and fault[1] == counts[kind] + 1)

    def maybe_raise(kind):
        counts[kind] += 1
        if fault and fault[0] == kind and fault[1] == counts[kind]:
            env.log(t="raise", kind="exit" if fault[2] == "exit" else "error")
            if fault[2] == "exit":
                raise urwid.ExitMainLoop()
            # "error": an Exception subclass; "base": a BaseException that is not an Exception
            injected[0] = loops.VfBase("injected") if fault[2] == "base" else loops.VfError("injected")
            raise injected[0]

    def keyname(k):
        return k if isinstance(k, str) else " ".join(str(x) for x in k)

    shared = {"gen": 0}     # generation of the application state, shown by whichever probe is the topmost widget

    class Probe(urwid.Widget):
        _sizing = frozenset(["box"])
        _selectable = True

        def __init__(self, wid):
            super().__init__()
            self.wid = wid

        def bump(self):
            shared["gen"] += 1
            for p_ in shared.get("probes", (self,)):     # whichever probe is displayed shows the new generation
                p_._invalidate()

        def render(self, size, focus=False):
            maybe_raise("render")
            cols, rows = size
            t = f"g{shared['gen']}".ljust(cols)[:cols].encode()
            return urwid.TextCanvas([t] + [b" " * cols] * (rows - 1), maxcol=cols)

        def keypress(self, size, key):
            handled = key == "a" and not hits("keypress")
            env.log(t="keypress", key=keyname(key), handled=handled, w=self.wid)
            maybe_raise("keypress")
            maybe_swap("keypress")
            if handled:
                self.bump()
                return None
            return key

        def mouse_event(self, size, event, button, col, row, focus):
            handled = button == 1 and not hits("mouse_event")
            env.log(t="mouse_event", key=keyname((event, button, col, row)), handled=handled, w=self.wid)
            maybe_raise("mouse_event")
            maybe_swap("mouse_event")
            if handled:
                self.bump()
            return handled

    probe = Probe(1)
    probe2 = Probe(2)
    shared["probes"] = (probe, probe2)
    swapped = [False]

    def maybe_swap(kind):
        """The application replaces the topmost widget (loop.widget = other view) from a callback, once."""
        if cfg.get("swap") == kind and not swapped[0]:
            swapped[0] = True
            shared["gen"] += 1
            env.log(t="swap", w=2)
            ml.widget = probe2

    def input_filter(keys, raw_codes):
        outk = [k for k in keys if k != "x"]
        env.log(t="filter", keys=[keyname(k) for k in keys], out=[keyname(k) for k in outk])
        maybe_raise("filter")
        return outk

    def unhandled(key):
        env.log(t="unhandled", key=keyname(key))
        maybe_raise("unhandled")
        maybe_swap("unhandled")
        return False

    def py_handler(signum, frame):
        pass

    dispositions = {"ign": signal.SIG_IGN, "dfl": signal.SIG_DFL, "py": py_handler}
    for name, d in zip(SIGNALS, cfg.get("sigs") or ["dfl"] * len(SIGNALS)):
        signal.signal(getattr(signal, name), dispositions[d])

    def sig_state():
        """The dispositions now, as names: "ign" | "dfl" | "py" (the handler installed above) | "other"."""
        res = []
        for name in SIGNALS:
            h = signal.getsignal(getattr(signal, name))
            res.append(next((k for k, v in dispositions.items() if h is v or h == v), "other"))
        return res

    before_sig = sig_state()
    before_tty = termios.tcgetattr(probe_fd)
    screen = None
    try:
        evl = ad.make()
        fin = os.fdopen(in_fd, "r", closefd=False)
        fout = os.fdopen(os.dup(slave), "w")
        screen_cls = raw.Screen
        if legacy:
            class LegacyScreen(raw.Screen):
                @property
                def hook_event_loop(self):      # hasattr(screen, "hook_event_loop") is False: MainLoop falls back to its own loop
                    raise AttributeError("hook_event_loop")
            screen_cls = LegacyScreen
        screen = screen_cls(input=fin, output=fout, bracketed_paste_mode=bool(cfg.get("paste")), focus_reporting=bool(cfg.get("focusrep")))
        env.realfds[in_fd] = 1
        env.realfds[screen._resize_pipe_rd.fileno()] = 2
        orig_draw, orig_clear = screen.draw_screen, screen.clear

        def draw_screen(size, canvas):
            r = orig_draw(size, canvas)
            rows = [b"".join(t for _, _, t in row).decode() for row in canvas.content()]
            g = int(rows[0][1:].split()[0]) if rows[0].startswith("g") else -1
            # the canvas drawn (rows of code points); the bytes written so far are put in front of this event
            mark(t="draw", gen=g, rows=[[ord(c) for c in row] for row in rows])
            return r

        def clear():
            mark(t="clear")      # a full repaint is asked for: what the terminal shows counts as unknown from here on
            return orig_clear()

        screen.draw_screen = draw_screen
        screen.clear = clear
        ml = urwid.MainLoop(probe, [], screen, handle_mouse=cfg.get("mouse", True), input_filter=input_filter,
                            unhandled_input=unhandled, event_loop=None if legacy else evl, pop_ups=cfg.get("pop_ups", False))

        def alarm_cb(loop, data):
            if hasattr(ad, "sync"):
                ad.sync()
            env.log(t="alarm", changes=not hits("alarm"))      # a callback that raises does not get to change the application state
            maybe_raise("alarm")
            probe.bump()
            maybe_swap("alarm")

        def pipe_cb(data):
            env.log(t="pipe", changes=not hits("pipe"))
            maybe_raise("pipe")
            probe.bump()
            return True

        pipe_w = None
        if any(k == "pipe" for _, k in cfg["events"]):
            pipe_w = ml.watch_pipe(pipe_cb)
            env.realfds[ml._watch_pipes[pipe_w][1]] = 3
        cur = [W, H]

        def typing(data, arrivals, partial=False, held=None):
            """The user's bytes reach the terminal (one write: one read for the screen); `arrivals`: the input events they complete."""
            def act():
                for names in arrivals:
                    env.log(t="arrive", keys=names)
                if partial:
                    env.log(t="partial")
                if held:      # nothing tells a lone ESC from the beginning of a sequence: the screen may keep it for complete_wait
                    env.log(t="arrive_held", keys=held, wait=COMPLETE_WAIT_MS * 1000)
                if data:
                    os.write(master, data)
            return act

        for ms, kind in cfg["events"]:
            if legacy and kind in ("pipe", "resize"):
                continue
            if kind == "alarm":
                ml.set_alarm_in(ms / 1000.0, alarm_cb)
                continue
            if kind == "pipe":
                env.actions.append((ms / 1000.0, lambda: os.write(pipe_w, b"p")))
                continue
            if kind == "resize":
                def act():
                    cur[0] = W - 2 if cur[0] == W else W
                    fcntl.ioctl(slave, termios.TIOCSWINSZ, struct.pack("HHHH", cur[1], cur[0], 0, 0))
                    mark(t="arrive_resize", w=cur[0], h=cur[1])
                    signal.raise_signal(signal.SIGWINCH)

                env.actions.append((ms / 1000.0, act))
                continue
            also, main, cut = parse_kind(kind)
            data, names, _ = INPUTS[main]
            pre = INPUTS[also][0] if also else b""
            pre_names = [INPUTS[also][1]] if also else []
            if legacy:       # input typed at a real time: written to the terminal from an alarm (whole: get_input() has its own waiting)
                if main == "esc":
                    data, names = INPUTS["keyU"][:2]
                ml.set_alarm_in(ms / 1000.0, lambda loop, d, a=typing(pre + data, [*pre_names, names]): a())
            elif main == "esc":
                env.actions.append((ms / 1000.0, typing(pre + data, pre_names, held=names)))
            elif cut:
                env.actions.append((ms / 1000.0, typing(pre + data[:cut], pre_names, partial=True)))
                env.actions.append(((ms + GAP_MS) / 1000.0, typing(data[cut:], [names])))
            else:
                env.actions.append((ms / 1000.0, typing(pre + data, [*pre_names, names])))
        env.actions.sort(key=lambda x: x[0])
        # the session always ends: a final alarm exits the loop

        def final_exit(loop, data):
            env.log(t="raise", kind="exit")
            raise urwid.ExitMainLoop()

        def one_run():
            outcome = {"t": "run_end", "outcome": "return", "exc": ""}
            ml.set_alarm_in(0.2, final_exit)
            try:
                ml.run()
                if getattr(ad, "stuck", False):
                    outcome["outcome"] = "stuck"
            except loops.Stuck:
                outcome["outcome"] = "stuck"
            except BaseException as ex:  # noqa: BLE001
                outcome["outcome"] = "raise"
                # "VfError" stands for: the injected exception object itself came out of run(), unchanged
                outcome["exc"] = "VfError" if (ex is injected[0] or isinstance(ex, loops.VfError)) else type(ex).__name__
                outcome["msg"] = str(ex)[:100]
            env.log(**outcome)
            # what has reached the terminal by the time run() is over (nothing is flushed on the screen's behalf)
            drain()
            time.sleep(0.01)
            mark(t="final", termios_same=termios.tcgetattr(probe_fd) == before_tty, sigs_before=before_sig, sigs_after=sig_state(),
                 started=bool(screen.started))
            return outcome["outcome"]

        how = one_run()
        if cfg.get("again") and not legacy and cfg["loop"] in RERUN_LOOPS and how != "stuck":
            # run() is called again on the same MainLoop object: the session goes on on a new alternate screen
            env.log(t="rerun")
            one_run()
    except BaseException as ex:  # noqa: BLE001  # harness failure
        import traceback

        return {"error": f"{type(ex).__name__}: {ex} {traceback.format_exc()[-600:]}"}
    # the bytes written to the terminal, as tokens, between the events in the order in which everything happened
    ev, pos, unknown = [], 0, 0
    at = dict(marks)
    for i, e in enumerate(env.ev):
        if i in at:
            for t in term.tokenize(out[pos:at[i]].decode("utf-8", "replace")):
                if t["t"] == "unknown":
                    unknown += 1
                else:
                    ev.append(t)
            pos = at[i]
            if e["t"] == "final":
                e["unknown_sequences"] = unknown
        ev.append(e)
    return {"w": W, "h": H, "cfg": cfg, "ev": ev}


def _child(cfg, conn):
    try:
        r = _session(cfg)
    except BaseException as ex:  # noqa: BLE001
        r = {"error": f"{type(ex).__name__}: {ex}"}
    try:
        conn.send(r)
    finally:
        conn.close()
        os._exit(0)


def _preimport():
    """Import in the parent what every session needs: the forked children inherit the modules instead of importing urwid, twisted,
    tornado, trio and zmq once per session (most of a session's CPU time).  Importing installs nothing (no reactor, no handlers)."""
    import importlib

    for name in ("urwid", "urwid.display.raw", "urwid.event_loop.select_loop", "urwid.event_loop.asyncio_loop", "urwid.event_loop.tornado_loop",
                 "urwid.event_loop.twisted_loop", "urwid.event_loop.trio_loop", "urwid.event_loop.zmq_loop", "tornado.platform.asyncio",
                 "twisted.internet.asyncioreactor", "trio", "trio.testing", "zmq", "fcntl", "termios", "struct"):
        importlib.import_module(name)


def run_sessions(cfgs, jobs=14, timeout=60):
    """Each session in its own forked process (fresh signal handlers / tty state)."""
    _preimport()
    ctx = mp.get_context("fork")
    results = [None] * len(cfgs)
    pending = list(enumerate(cfgs))
    running = []
    import time

    while pending or running:
        while pending and len(running) < jobs:
            i, cfg = pending.pop(0)
            pr, pw = ctx.Pipe(duplex=False)
            p = ctx.Process(target=_child, args=(cfg, pw))
            p.start()
            pw.close()
            running.append((i, p, pr, time.time()))
        still = []
        for i, p, pr, t0 in running:
            if pr.poll(0.002):
                try:
                    results[i] = pr.recv()
                except EOFError:
                    results[i] = {"error": "child died"}
                p.join(5)
                pr.close()
            elif not p.is_alive():
                # the child may have sent its result and exited between the poll above and this test
                if pr.poll(0.5):
                    try:
                        results[i] = pr.recv()
                    except EOFError:
                        results[i] = {"error": "child died"}
                else:
                    results[i] = {"error": f"child exited {p.exitcode}"}
                p.join(5)
                pr.close()
            elif time.time() - t0 > timeout:
                p.kill()
                p.join(5)
                results[i] = {"hang": True, "w": W, "h": H, "cfg": cfgs[i],
                              "ev": [{"t": "run_end", "outcome": "stuck", "exc": ""}]}
                pr.close()
            else:
                still.append((i, p, pr, t0))
        running = still
    return results


LOOPS = ["select", "asyncio", "tornado", "twisted", "zmq", "trio"]
KINDS = ["keyH", "keyU", "keyX", "up", "ctrlL", "two", "mouseH", "mouseU", "resize", "alarm", "pipe"]


def random_cfg(rng, loop):
    n = rng.randint(1, 4)
    events = sorted((rng.choice([0, 5, 10, 10, 20, 30]), rng.choice(KINDS)) for _ in range(n))
    fault = None
    if rng.random() < 0.75:
        fault = (rng.choice(CALLBACKS), rng.randint(1, 3), rng.choice(["exit", "error", "error", "base"]))
    return {"loop": loop, "events": events, "fault": fault, "pop_ups": rng.random() < 0.3, "mouse": rng.random() < 0.8,
            "paste": rng.random() < 0.4, "focusrep": rng.random() < 0.4, "swap": rng.choice([None, None, None, *SWAPS]), **_surroundings(rng, loop)}


def _surroundings(rng, loop, p_again=0.2):
    """What a session finds and how it is run: signal dispositions before run(), the terminal on standard input, run() called twice."""
    return {"sigs": [rng.choice(["ign", "dfl", "dfl", "py"]) for _ in SIGNALS], "stdin": rng.random() < 0.4,
            "again": loop in RERUN_LOOPS and rng.random() < p_again}


INPUT_KINDS = ["keyH", "keyU", "keyX", "up", "ctrlL", "two", "mouseH", "mouseU", "meta"]
SWAPS = ["alarm", "unhandled", "keypress", "mouse_event"]


def _late_fault(rng, p=0.3):
    """Mostly no fault: these families are about delivery; a fault at a later invocation lets the interesting part happen first."""
    if rng.random() >= p:
        return None
    return (rng.choice(CALLBACKS), rng.randint(2, 4), rng.choice(["exit", "error", "base"]))


def batch_cfg(rng, loop):
    """Typed-ahead / pasted input: two to four inputs reach the terminal together (ONE read, one call of the input filter, one
    process_input batch), and the application replaces the topmost widget from a handler somewhere in the batch; other events around."""
    t = rng.choice([0, 10, 20])
    atoms = [rng.choice(INPUT_KINDS) for _ in range(rng.randint(2, 4))]
    events = [(t, kind_str(atoms[i + 1], 0, atoms[i])) for i in range(0, len(atoms) - 1, 2)]
    if len(atoms) % 2:
        events.append((t, atoms[-1]))
    for _ in range(rng.randint(0, 2)):
        events.append((rng.choice([0, 10, 20, 30]), rng.choice(["alarm", "pipe", "resize", "keyH", "keyU"])))
    events.sort(key=lambda e: e[0])
    return {"loop": loop, "events": events, "fault": _late_fault(rng), "pop_ups": rng.random() < 0.2, "mouse": True,
            "paste": rng.random() < 0.3, "focusrep": rng.random() < 0.3, "swap": rng.choice(SWAPS + ["unhandled", "keypress"])}


def split_cfg(rng, loop):
    """An input of several bytes reaches the screen in two reads (cut at any byte, the rest GAP_MS later, well within complete_wait),
    possibly right behind another input in the first read; or a lone ESC, which the screen can only report once its wait has run out.
    Nothing else is typed inside the window; alarms, pipe writes and resizes may fall anywhere, also between the two reads."""
    t = rng.choice([0, 10, 20, 30])
    events = [(rng.choice([x for x in (0, 10, 20, 30) if x < t]), rng.choice(INPUT_KINDS)) for _ in range(rng.randint(0, 1) if t else 0)]
    also = rng.choice(["-", "-", "keyH", "keyU", "keyX", "ctrlL"])
    if rng.random() < 0.2:
        events.append((t, kind_str("esc", 0, also)))
    else:
        main = rng.choice(list(SPLITTABLE))
        events.append((t, kind_str(main, rng.randint(1, SPLITTABLE[main] - 1), also)))
        if rng.random() < 0.4:       # typed after the sequence is complete
            events.append((t + 10, rng.choice(INPUT_KINDS + ["esc"])))
    for _ in range(rng.randint(0, 2)):
        events.append((rng.choice([0, 5, 10, 15, 20, 30, 35]), rng.choice(["alarm", "pipe", "resize"])))
    events.sort(key=lambda e: e[0])
    return {"loop": loop, "events": events, "fault": _late_fault(rng), "pop_ups": rng.random() < 0.3, "mouse": True,
            "paste": rng.random() < 0.3, "focusrep": rng.random() < 0.3, "swap": rng.choice([None, None] + SWAPS)}


def restore_cfg(rng, loop):
    """Restoration: whatever the process had before run() -- each signal ignored, at its default action or with a Python handler; the
    terminal on file descriptor 0 or on another one -- a short session that ends by an exception from any callback (or ExitMainLoop)
    leaves exactly that behind; sometimes run() is called once more afterwards."""
    events = sorted((rng.choice([0, 10, 20]), rng.choice(["keyH", "keyU", "keyU", "mouseU", "alarm", "pipe", "resize", "two"])) for _ in range(rng.randint(1, 3)))
    # mostly a callback that the session does reach
    reached = {"keyH": ["filter", "keypress"], "keyU": ["filter", "keypress", "unhandled"], "two": ["filter", "keypress", "unhandled"],
               "mouseU": ["filter", "mouse_event", "unhandled"], "alarm": ["alarm"], "pipe": ["pipe"], "resize": ["filter"]}
    cb = rng.choice(reached[rng.choice(events)[1]] + ["render"]) if rng.random() < 0.8 else rng.choice(CALLBACKS)
    fault = (cb, rng.randint(1, 2) if cb == "render" or rng.random() < 0.2 else 1, rng.choice(["error", "error", "base", "exit"])) if rng.random() < 0.9 else None
    return {"loop": loop, "events": events, "fault": fault, "pop_ups": rng.random() < 0.2, "mouse": True, "paste": rng.random() < 0.3,
            "focusrep": rng.random() < 0.3, "swap": None, "sigs": [rng.choice(["ign", "ign", "dfl", "py"]) for _ in SIGNALS],
            "stdin": rng.random() < 0.6, "again": loop in RERUN_LOOPS and rng.random() < 0.25}


def redraw_cfg(rng, loop):
    """Forced repaints of a widget that has not changed: ctrl-L (REDRAW_SCREEN: screen.clear()) with nothing else going on in that
    batch, two resizes arriving together (back at the old size), run() called a second time (a new alternate screen buffer); unrelated
    inputs before and after.  What the terminal shows after the next draw must be the canvas drawn."""
    times = sorted(rng.sample([0, 10, 20, 30, 40], rng.randint(1, 3)))
    events = []
    for t in times:
        k = rng.choice(["ctrlL", "ctrlL", "resize2", "keyU", "keyH", "alarm", "up"])
        if k == "resize2":
            events += [(t, "resize"), (t, "resize")]
        elif k == "ctrlL" and rng.random() < 0.3:
            events.append((t, kind_str("ctrlL", 0, rng.choice(["keyU", "keyX", "up"]))))
        else:
            events.append((t, k))
    return {"loop": loop, "events": events, "fault": _late_fault(rng, 0.2), "pop_ups": rng.random() < 0.3, "mouse": True, "paste": False,
            "focusrep": False, "swap": None, "sigs": [rng.choice(["ign", "dfl", "py"]) for _ in SIGNALS], "stdin": rng.random() < 0.3,
            "again": loop in RERUN_LOOPS and rng.random() < 0.6}


def cfg_from_behaviour(b, loop):
    st = b[1]
    sc = st["scn"]
    events = [(e["at"], kind_str(e["kind"], e["cut"], e["also"])) for e in sc["events"]]     # already in time order; ties keep the model's order
    f = sc["fault"]
    fault = None if f["kind"] == "none" else (f["kind"], f["idx"], f["exc"])
    plain = all(not e["cut"] and e["kind"] != "esc" for e in sc["events"])      # Plainly of MainLoop.tla
    return {"loop": loop, "events": events, "fault": fault, "pop_ups": bool(sc["popups"]), "mouse": True,
            "swap": None if sc["swap"] == "none" else sc["swap"], "sigs": [sc["sig0"]] * len(SIGNALS), "stdin": int(sc["infd"]) == 0,
            "again": bool(sc["again"]) and plain and loop in RERUN_LOOPS}


def sig_of(tr, l):
    e = tr["ev"][l - 1]
    cfg = tr["cfg"]
    changed = [n[3:] for n, b, a in zip(SIGNALS, e.get("sigs_before", ()), e.get("sigs_after", ())) if a != b]
    second = any(x["t"] == "rerun" for x in tr["ev"][:l])
    return {"loop": cfg["loop"], "legacy_screen": bool(cfg.get("legacy")), "event": e["t"], "fault_kind": cfg["fault"][0] if cfg["fault"] else "none",
            "fault_exc": cfg["fault"][2] if cfg["fault"] else "none", "outcome": e.get("outcome", ""), "exc": e.get("exc", ""),
            "stdin": bool(cfg.get("stdin")), "second_run": second, "signals_changed": ",".join(changed),
            "signals_before": ",".join(e.get("sigs_before", ()))}


def _handle(chk, traces, res, label):
    for ti, l, why in res.rejects:
        tr = traces[ti]
        chk.reject(f"C12.{why}", sig_of(tr, l), {"driver": label, "cfg": tr["cfg"],
                                                  "events_up_to_rejection": [e for e in tr["ev"][:l] if e["t"] not in ("put",)][-60:]})


def _q(xs):
    return "{" + ", ".join(f'"{x}"' if isinstance(x, str) else str(x) for x in xs) + "}"


MC_CFG = """CONSTANTS MaxEvents = {n} Bad = "{bad}"
Kinds = {kinds}
Times = {times}
FaultKinds = {fk}
Cuts = {cuts}
Also = {also}
Swaps = {swaps}
Sig0 = {sig0}
InFds = {infds}
Again = {again}
SPECIFICATION {spec}
INVARIANT MonitorAccepts
INVARIANT DoneMeansRestored
CHECK_DEADLOCK FALSE
"""


def run(chk):
    quick = chk.tier == "quick"
    rng = chk.rng
    kinds_mc = ["keyH", "keyU", "mouseH", "resize", "alarm", "pipe"]
    fk = ["none"] + CALLBACKS
    usual = {"sig0": _q(["dfl"]), "infds": _q([3]), "again": "{FALSE}"}      # the surroundings have an exhaustive run of their own (cfg_c)
    plain = {"cuts": _q([0]), "also": _q(["-"]), "swaps": _q(["none"]), **usual}
    cfg_a = MC_CFG.format(n=2 if quick else 3, bad="", kinds=_q(kinds_mc), times=_q([0, 10]), fk=_q(fk), spec="Spec", **plain)
    # inputs sharing a read, inputs cut in two reads, a lone ESC, the topmost widget replaced from a handler
    if quick:
        cfg_b = MC_CFG.format(n=2, bad="", kinds=_q(["keyH", "keyU", "up", "esc", "resize"]), times=_q([0, 10]), fk=_q(["none", "filter", "unhandled"]),
                              spec="Spec", cuts=_q([0, 1, 2]), also=_q(["-", "keyU", "keyH"]), swaps=_q(["none", "unhandled", "keypress"]), **usual)
    else:
        cfg_b = MC_CFG.format(n=2, bad="", kinds=_q(["keyH", "keyU", "up", "mouseH", "meta", "esc", "resize"]), times=_q([0, 10]),
                              fk=_q(["none", "filter", "keypress", "unhandled"]), spec="Spec", cuts=_q([0, 1, 2]),
                              also=_q(["-", "keyU", "keyH"]), swaps=_q(["none", "unhandled", "keypress", "mouse_event"]), **usual)
    # what the session finds and how it is run: signal dispositions, the terminal on descriptor 0, forced repaints, run() called twice
    cfg_c = MC_CFG.format(n=2, bad="", kinds=_q(["keyH", "ctrlL", "resize", "alarm"] if quick else ["keyH", "keyU", "ctrlL", "resize", "alarm", "pipe"]),
                          times=_q([0, 10]), fk=_q(["none", "keypress", "alarm"] if quick else ["none", "keypress", "alarm", "render", "filter"]),
                          spec="Spec", cuts=_q([0]), also=_q(["-"]), swaps=_q(["none"]), sig0=_q(["ign", "py"] if quick else ["ign", "dfl", "py"]),
                          infds=_q([0, 3]), again="{FALSE, TRUE}")
    with cf.ThreadPoolExecutor(2) as ex:      # the exhaustive runs overlap
        fb = ex.submit(tlc.mc, "MainLoop", cfg_b, workers=3 if quick else 2, timeout=3000, heap="8g")
        fc = ex.submit(tlc.mc, "MainLoop", cfg_c, workers=2, timeout=3000, heap="8g")
        r = tlc.mc("MainLoop", cfg_a, workers=1 if quick else 2, timeout=3000, heap="12g")
        r2, r3 = fb.result(), fc.result()
    chk.add_mc("MC_MainLoop_design", r)
    chk.add_mc("MC_MainLoop_design_shared_and_split_reads", r2)
    chk.add_mc("MC_MainLoop_design_signals_stdin_forced_repaint_second_run", r3)
    for rr in (r, r2, r3):
        if not rr.ok:
            chk.reject("C12.model." + str(rr.violated), {"model": "MainLoop"}, {"tlc_trace": rr.trace[-6:]})
    refuted = {}

    def refute(bad):
        if bad == "staleTop":
            c = MC_CFG.format(n=1, bad=bad, kinds=_q(["keyH", "keyU"]), times=_q([0]), fk=_q(["none"]), spec="Spec", cuts=_q([0]),
                              also=_q(["-", "keyU", "keyH"]), swaps=_q(["none", "unhandled", "keypress"]), **usual)
        elif bad == "noInputTimer":
            c = MC_CFG.format(n=1, bad=bad, kinds=_q(["keyU", "esc"]), times=_q([0]), fk=_q(["none"]), spec="Spec", cuts=_q([0]),
                              also=_q(["-", "keyU"]), swaps=_q(["none"]), **usual)
        elif bad == "staleInputTimer":
            c = MC_CFG.format(n=1, bad=bad, kinds=_q(["keyU", "up"]), times=_q([0]), fk=_q(["none"]), spec="Spec", cuts=_q([0, 1]),
                              also=_q(["-"]), swaps=_q(["none"]), **usual)
        elif bad in ("restoreDefault", "cachedCanvasOnly", "fdZeroIsNone"):
            c = MC_CFG.format(n=1, bad=bad, kinds=_q(["keyH", "ctrlL"]), times=_q([0]), fk=_q(["none", "keypress"]), spec="Spec", cuts=_q([0]), also=_q(["-"]),
                              swaps=_q(["none"]), sig0=_q(["ign", "dfl", "py"]), infds=_q([0, 3]), again="{FALSE, TRUE}")
        else:
            c = MC_CFG.format(n=2, bad=bad, kinds=_q(["keyH", "keyU", "alarm"]), times=_q([0]), fk=_q(["none", "keypress", "alarm"]), spec="Spec", **plain)
        return bad, tlc.mc("MainLoop", c, workers=1, timeout=900)

    pool = cf.ThreadPoolExecutor(4)      # small state spaces, one worker each; the simulation and the sessions below run next to them
    bad_futs = [pool.submit(refute, bad) for bad in ("noStopOnError", "skipUnhandled", "noRedraw", "staleTop", "staleInputTimer", "noInputTimer",
                                                     "restoreDefault", "cachedCanvasOnly", "fdZeroIsNone")]
    # ---- spec -> code: TLC sessions on the real MainLoop ------------------------------------------
    simcfg = MC_CFG.format(n=3, bad="", kinds=_q(KINDS + ["meta", "esc"]), times=_q([0, 10, 20]), fk=_q(fk), spec="SimSpec", cuts=_q([0, 0, 1, 2, 4]),
                           also=_q(["-", "-", "keyH", "keyU", "mouseU"]), swaps=_q(["none", "none"] + SWAPS), sig0=_q(["ign", "dfl", "py"]), infds=_q([0, 3]),
                           again="{FALSE, TRUE}")
    behs = tlc.simulate("MainLoop", simcfg, num=40 if quick else 1500, depth=3, seed=chk.seed, jobs=2 if quick else 8, timeout=1500)
    cfgs = []
    loops_q = ["select", "asyncio"] if quick else LOOPS
    for i, b in enumerate(behs):
        if len(b) < 2:
            continue
        for lp in ([loops_q[i % len(loops_q)]] if quick else LOOPS):
            cfgs.append(cfg_from_behaviour(b, lp))
    n_rand = 100 if quick else 3000
    for i in range(n_rand):
        cfgs.append(random_cfg(rng, LOOPS[i % len(LOOPS)]))
    # screens without external event-loop support (MainLoop's own loop around screen.get_input, real time, short delays)
    n_legacy = 40 if quick else 600
    for i in range(n_legacy):
        c = random_cfg(rng, "select")
        c["legacy"] = True
        c["again"] = False
        c["events"] = [(ms, k) for ms, k in c["events"] if k not in ("pipe", "resize")] or [(10, "keyU")]
        if c["fault"] and c["fault"][0] == "pipe":
            c["fault"] = ("unhandled", 1, c["fault"][2])
        cfgs.append(c)
    chk.cov["legacy_screen_sessions"] = n_legacy
    n_fam = 36 if quick else 1500
    for i in range(n_fam):
        cfgs.append(batch_cfg(rng, LOOPS[i % len(LOOPS)]))
        cfgs.append(split_cfg(rng, LOOPS[(i + 3) % len(LOOPS)] if i % 2 else LOOPS[i % len(LOOPS)]))
    chk.cov["shared_read_sessions"] = chk.cov["split_read_sessions"] = n_fam
    n_res, n_red = (60, 48) if quick else (1500, 1200)
    for i in range(n_res):
        cfgs.append(restore_cfg(rng, LOOPS[i % len(LOOPS)]))
    for i in range(n_red):
        cfgs.append(redraw_cfg(rng, LOOPS[i % len(LOOPS)] if i % 3 else RERUN_LOOPS[(i // 3) % len(RERUN_LOOPS)]))
    chk.cov["restoration_sessions"], chk.cov["forced_repaint_sessions"] = n_res, n_red
    results = run_sessions(cfgs)
    for bad, rb in [bf.result() for bf in bad_futs]:
        refuted[bad] = rb.violated is not None
        chk.cov["tlc_runs"].append({"run": f"MC_MainLoop_bad_{bad}_must_fail", "violated": rb.violated, "generated": rb.generated})
    pool.shutdown()
    chk.cov["contract_refutes_bad_designs"] = refuted
    if not all(refuted.values()):
        raise tlc.MachineryError(f"MainLoop.tla no longer refutes a deliberately wrong main loop: {refuted}")
    traces = []
    errors = [r for r in results if r is None or "error" in r]
    if errors:
        raise tlc.MachineryError(f"{len(errors)} sessions failed in the harness, e.g. {errors[0]}")
    for r in results:
        traces.append(r)
    res = tlc.validate("MainLoopTrace", traces, batch_events=20000, timeout=1500)
    chk.add_tv("TV_MainLoopTrace", res)
    _handle(chk, traces, res, "c12")
    kinds = {}
    nontriv = set()
    for t in traces:
        for e in t["ev"]:
            if e["t"] not in term_kinds:
                k = f"{e['t']}"
                kinds[k] = kinds.get(k, 0) + 1
        f = t["cfg"]["fault"]
        kinds["fault." + (f[0] + "." + f[2] if f else "none")] = kinds.get("fault." + (f[0] + "." + f[2] if f else "none"), 0) + 1
        if f and any(e["t"] == "raise" and e.get("kind") == f[2] for e in t["ev"]):
            nontriv.add(json.dumps([t["cfg"]["loop"], t["cfg"]["events"], f]))
    chk.cov["clause_counts"] = kinds
    chk.cov["distinct_nontrivial"] = len(nontriv)
    chk.cov["rule"] = ("session = timed inputs (keys, mouse, resize, alarms, pipe writes) + one injected fault (callback kind, invocation index, "
                       "ExitMainLoop|error|BaseException) + what the process had before run() (SIGWINCH/SIGTSTP/SIGCONT ignored, default or handled; "
                       "terminal on descriptor 0 or another one) + run() called once or twice; run in a forked child on a real pty with the real "
                       "Screen and MainLoop under each event loop; the bytes written are interpreted by the reference terminal in the order in "
                       "which they were written between the other events; non-trivial = distinct sessions whose injected fault actually fired")
    chk.cov["bounds"] = {"tlc_sessions": len(behs), "random_sessions": n_rand, "loops": loops_q if quick else LOOPS}
    for cb in CALLBACKS:
        if not any(k.startswith(f"fault.{cb}.") for k in kinds):
            chk.vacuity.append("driver.fault." + cb)
    # the new families must have happened (counts only, no verdict): an input offered to the widget after the topmost widget was
    # replaced earlier in the same batch; a split input completed by a second read; a lone ESC delivered by the screen's timer
    fam = {"input_after_swap_in_same_batch": 0, "input_after_swap_in_same_batch.pop_ups_off": 0, "split_input_completed": 0, "lone_esc_delivered": 0,
           "swap.keypress": 0, "swap.mouse_event": 0, "swap.unhandled": 0, "swap.alarm": 0,
           # a full repaint asked for (screen.clear(), two resizes back to the old size) and the next draw is handed the canvas drawn last
           "forced_repaint_of_unchanged_widget.clear": 0, "forced_repaint_of_unchanged_widget.resize": 0,
           "second_run": 0, "second_run_after_error": 0, "second_run_first_draw_of_unchanged_widget": 0}
    for name in SIGNALS:
        for d in ("ign", "dfl", "py"):
            fam[f"before_run.{name}.{d}"] = 0
    for lp in LOOPS:
        fam[f"terminal_on_stdin.ended_by_error.{lp}"] = 0
        fam[f"terminal_on_stdin.ended_by_exit.{lp}"] = 0
    for t in traces:
        swapped_in_batch = part = held = False
        last_cb = None
        last_gen, forced, fresh_run, errored = None, None, False, False
        for e in t["ev"]:
            k = e["t"]
            if k == "draw":
                if forced and e["gen"] == last_gen:
                    fam["forced_repaint_of_unchanged_widget." + forced] += 1
                if fresh_run and e["gen"] == last_gen:
                    fam["second_run_first_draw_of_unchanged_widget"] += 1
                last_gen, forced, fresh_run = e["gen"], None, False
            elif k == "clear":
                forced = "clear"
            elif k == "arrive_resize":
                forced = "resize"
            elif k == "raise":
                forced = None
            elif k == "run_end":
                errored = e["outcome"] == "raise"
            elif k == "rerun":
                fam["second_run"] += 1
                fam["second_run_after_error"] += errored
                fresh_run, forced = True, None
            if k == "filter":
                swapped_in_batch = False
                if part and e["keys"] and e["keys"] != ["window resize"]:
                    fam["split_input_completed"] += 1
                    part = False
                if held and "esc" in e["keys"]:
                    fam["lone_esc_delivered"] += 1
                    held = False
            elif k == "partial":
                part = True
            elif k == "arrive_held":
                held = True
            elif k == "swap":
                swapped_in_batch = True
                fam["swap." + (last_cb if last_cb in ("keypress", "mouse_event", "unhandled") else "alarm")] += 1
            elif k in ("keypress", "mouse_event") and swapped_in_batch:
                fam["input_after_swap_in_same_batch"] += 1
                if not t["cfg"].get("pop_ups"):
                    fam["input_after_swap_in_same_batch.pop_ups_off"] += 1
            if k in ("keypress", "mouse_event", "unhandled", "alarm"):
                last_cb = k
        finals = [e for e in t["ev"] if e["t"] == "final"]
        ends = [e for e in t["ev"] if e["t"] == "run_end"]
        if finals:
            for name, d in zip(SIGNALS, finals[0]["sigs_before"]):
                fam[f"before_run.{name}.{d}"] += 1
            if t["cfg"].get("stdin") and not t["cfg"].get("legacy"):
                fam[f"terminal_on_stdin.ended_by_{'error' if ends[0]['outcome'] == 'raise' else 'exit'}.{t['cfg']['loop']}"] += 1
    chk.cov["family_counts"] = fam
    for k, v in fam.items():
        if not v:
            chk.vacuity.append("driver." + k)
    chk.sample({"cfg": traces[0]["cfg"], "events": [e for e in traces[0]["ev"] if e["t"] not in term_kinds][:40]})
    chk.cov["trusted_base"] = ["TLC", "Terminal.tla mode tracking", "vf/loops.py doubles", "session runner vf/props/c12.py (real pty, fork per session)",
                               "vf/term.py tokeniser"]
    chk.assumptions += ["glib loop, Windows and gpm branches cannot run here", "screens without hook_event_loop use real time and are not covered",
                        "faults are injected in user callbacks, not inside urwid's own start()/stop()",
                        "run() is called a second time only on loops that can be run again (select, asyncio, tornado, zmq) and only in sessions without half-typed sequences",
                        "the program is never suspended (SIGTSTP is not delivered during a session)"]


term_kinds = {"put", "zw", "cup", "bs", "cr", "lf", "sgr", "el", "ed", "irm", "so", "si", "desig", "decset", "keypad", "cuu", "cud", "cuf", "cub"}


def replay(chk, path):
    with open(path) as f:
        rp = json.load(f)["replay"]
    cfg = rp["cfg"]
    cfg["events"] = [tuple(e) for e in cfg["events"]]
    if cfg.get("fault"):
        cfg["fault"] = tuple(cfg["fault"])
    tr = run_sessions([cfg])[0]
    if "error" in tr:
        raise tlc.MachineryError(tr["error"])
    res = tlc.validate("MainLoopTrace", [tr])
    chk.add_tv("replay", res)
    _handle(chk, [tr], res, "replay")
    chk.sample({"cfg": cfg})
    return chk.finish()
