"""C02 — canvas composition is equivalent to operating on a plain grid of cells.

Spec: spec/GridOps.tla (grid algebra, Delta/ApplyDelta, per-operation contract OpResult / OpDims / InDomain),
spec/Canvas.tla (machine of canvas values; TLC checks the algebra and generates programs),
spec/CanvasTrace.tla (trace specification).  See DESIGN.md §4 C02.

A program is a list of operations; operation k creates value k (1-based) from earlier values.
  text    p = [maxcol, cursor x, cursor y] (-1 = no cursor), leaf = rows of clusters [glyph, attr, charset]
  solid   p = [glyph, cols, rows]                 blank   p = [cols, rows] (BlankCanvas padding isolated by pad + trim)
  wrap    CompositeCanvas(v)                       combine / join (p = widths) / overlay (ids = [top, bottom], p = [left, top])
  ovl     ids = [receiver, top]: receiver.overlay(top, left, top) in place
  padlr padtb trim trimend fill setcur setpop      mutators; wrap = 1: applied to a fresh CompositeCanvas(v), wrap = 0: in place
  delta   ids = [new, old]: list(new.content_delta(old))
An in-place mutator makes its target's id dead; the mutated object is the new value.
"""
from __future__ import annotations

import concurrent.futures as cf
import json
import time

from .. import tlc

ENCODINGS = {"utf8": "utf-8", "wide": "euc-jp", "narrow": "iso8859-1"}
BASE = {1: "a", 2: "b", 3: " ", 4: "字"}
MARK = "́"
REV = {v: k for k, v in BASE.items()}
ATTRS = [None, "x", "y"]
CSS = [None, "0"]
ATTR_ID = {None: 0, "x": 1, "y": 2}
CS_ID = {None: 0, "0": 1}
NOCOUNT = -1
MUTATORS = ("padlr", "padtb", "trim", "trimend", "fill", "setcur", "setpop", "ovl")


def in_place(op):
    """The operation mutates its first operand (for ovl the wrap flag concerns the top canvas, not the receiver)."""
    return op["n"] == "ovl" or (op["n"] in MUTATORS and not op.get("wrap"))
MAPS = [[0, 1], [1, 2], [0, 1, 1, 2], [1, 0, 2, 1], [2, 0], [0, 2, 2, 0], [1, 1], [0, 1, 1, 0, 2, 2]]


class _PopUpWidget:
    """Stand-in for the widget carried by a pop-up coordinate."""


POPW = _PopUpWidget()


def glyph_str(g):
    return BASE[g % 10] + MARK * (g // 10)


def glyph_cols(g):
    return 2 if g % 10 == 4 else 1


def set_encoding(enc):
    from urwid import util

    util.set_encoding(ENCODINGS[enc])


def check_alphabet():
    """The alphabet table must agree with urwid's own width arithmetic, else the abstraction has drifted."""
    from urwid import str_util

    for enc, alphabet in (("utf8", (1, 2, 3, 4, 11, 14, 21)), ("wide", (1, 2, 3, 4)), ("narrow", (1, 2, 3))):
        set_encoding(enc)
        for g in alphabet:
            b = glyph_str(g).encode(ENCODINGS[enc])
            if str_util.calc_width(b, 0, len(b)) != glyph_cols(g):
                raise tlc.MachineryError(f"alphabet table disagrees with urwid for glyph {g} in {enc}")
    set_encoding("utf8")


# ------------------------------------------------------------------------------------------------
# projection: content() rows -> cells (glyph, attr, charset, part)
# ------------------------------------------------------------------------------------------------
class Interner:
    def __init__(self):
        self.cells = {}
        self.grids = {}

    def cell(self, c):
        c = tuple(c)
        i = self.cells.get(c)
        if i is None:
            i = self.cells[c] = len(self.cells) + 1
        return i

    def grid(self, rows):
        key = tuple(tuple(self.cell(c) for c in r) for r in rows)
        i = self.grids.get(key)
        if i is None:
            i = self.grids[key] = len(self.grids) + 1
        return i

    def tables(self):
        return [list(c) for c in self.cells], [[list(r) for r in g] for g in self.grids]


KEEP = (0, 0, 0, "k")


def project_row(row, codec):
    """One content()/content_delta() row -> list of cells.  An int item (delta: that many unchanged columns)
    becomes that many KEEP cells.  Zero-width marks ride on the cell before them (+10 on its glyph id)."""
    cells = []
    if isinstance(row, int):  # TextCanvas/SolidCanvas.content_delta(self) yields bare ints
        return [list(KEEP) for _ in range(row)]
    for item in row:
        if isinstance(item, int):
            cells += [list(KEEP) for _ in range(item)]
            continue
        a, cs, bs = item
        a = ATTR_ID.get(a, 9) if a is None or isinstance(a, str) else 9
        cs = CS_ID.get(cs, 9)
        for ch in bs.decode(codec, errors="replace"):
            if ch == MARK:
                if cells and cells[-1][3] != "k":
                    cells[-1][0] += 10
                    if cells[-1][3] == "R":
                        cells[-2][0] += 10
                else:
                    cells.append([98, a, cs, "n"])  # a mark with no cell to ride on
            elif ch in REV:
                g = REV[ch]
                if g == 4:
                    cells += [[g, a, cs, "L"], [g, a, cs, "R"]]
                else:
                    cells.append([g, a, cs, "n"])
            else:
                cells.append([99, a, cs, "n"])  # undecodable bytes / foreign character
    return cells


def _layout(c):
    """Diagnostic only (finding signatures): where every cview of a composite starts -> {(row, col): cview}."""
    from urwid import canvas

    starts, tail, row = {}, [], 0
    for num_rows, cviews in getattr(c, "shards", []):
        body = canvas.shard_body(cviews, tail, False)
        col = 0
        for done_rows, _it, cv in body:
            if not done_rows:
                starts[row, col] = cv
            col += cv[2]
        tail = canvas.shard_body_tail(num_rows, body)
        row += num_rows
    return starts


def delta_diag(new, old):
    """Diagnostic only: do the two canvases cut their area into different rectangles (bounds_differ), and does one and
    the same view of one and the same child canvas sit at different places in them (shared_view_moved)?"""
    try:
        a, b = _layout(new), _layout(old)
        key = lambda cv: (id(cv[5]), cv[:4], repr(sorted(cv[4].items(), key=repr)) if cv[4] else "")  # noqa: E731
        pa, pb = {}, {}
        for d, src in ((pa, a), (pb, b)):
            for pos, cv in src.items():
                d.setdefault(key(cv), set()).add(pos)
        moved = any(k in pb and pa[k] != pb[k] for k in pa)
        rects = lambda lay: {(pos, cv[2], cv[3]) for pos, cv in lay.items()}  # noqa: E731
        return {"bounds_differ": int(rects(a) != rects(b)), "shared_view_moved": int(moved)}
    except Exception:  # noqa: BLE001
        return {"bounds_differ": -1, "shared_view_moved": -1}


def read_canvas(c, codec, it):
    out = {"exc": "", "cols": 0, "rows": 0, "g": 0, "cur": [], "pop": []}
    try:
        out["cols"] = c.cols()
        out["rows"] = c.rows()
        out["g"] = it.grid([project_row(r, codec) for r in c.content()])
        cur = c.cursor
        out["cur"] = [] if cur is None else [int(cur[0]), int(cur[1])]
        pop = c.get_pop_up()
        out["pop"] = [] if pop is None else [int(pop[0]), int(pop[1]), int(pop[2][1]), int(pop[2][2]), 1 if pop[2][0] is POPW else 0]
    except Exception as ex:  # noqa: BLE001
        out["exc"] = "read:" + type(ex).__name__
    return out


# ------------------------------------------------------------------------------------------------
# the stack machine on the real urwid.canvas
# ------------------------------------------------------------------------------------------------
def build_text(op, codec):
    from urwid import canvas

    maxcol, cx, cy = op["p"]
    opt = op.get("opt", 0)
    text, attr, cs = [], [], []
    widest = 0
    for row in op["leaf"]:
        t = b""
        ar, cr = [], []
        for g, a, c in row:
            b = glyph_str(g).encode(codec)
            t += b
            for runs, v in ((ar, ATTRS[a]), (cr, CSS[c])):
                if runs and runs[-1][0] == v and not opt & 1:
                    runs[-1] = (v, runs[-1][1] + len(b))
                else:
                    runs.append((v, len(b)))
        if not opt & 4:  # run-length lists may stop short of the text: the rest is default
            while ar and ar[-1][0] is None:
                ar.pop()
            while cr and cr[-1][0] is None:
                cr.pop()
        widest = max(widest, sum(glyph_cols(g) for g, _, _ in row))
        text.append(t)
        attr.append(ar)
        cs.append(cr)
    mc = None if (opt & 2 and widest == maxcol) else maxcol
    return canvas.TextCanvas(text, attr, cs, cursor=None if cx < 0 else (cx, cy), maxcol=mc)


def build_blank(cols, rows):
    """A canvas made of BlankCanvas padding only, through the public operations."""
    from urwid import canvas

    c = canvas.CompositeCanvas(canvas.SolidCanvas(" ", 1, 1))
    c.pad_trim_left_right(0, cols)
    c.pad_trim_left_right(-1, 0)
    if rows > 1:
        c.pad_trim_top_bottom(0, rows - 1)
    return c


def run_program(prog, enc, driver="random"):
    """Execute prog on the real canvas classes; return the trace for CanvasTrace."""
    from urwid import canvas

    set_encoding(enc)
    codec = ENCODINGS[enc]
    it = Interner()
    it.cell(KEEP)
    objs = {}
    dead = set()
    last_use = {}
    for k, op in enumerate(prog, 1):
        for i in op["ids"]:
            last_use[i] = k
    ev = []
    for k, op in enumerate(prog, 1):
        n, ids, p = op["n"], op["ids"], op["p"]
        e = {"op": {"n": n, "ids": list(ids), "p": list(p), "leaf": op.get("leaf", []), "wrap": op.get("wrap", 0), "opt": op.get("opt", 0)},
             "exc": "", "cols": 0, "rows": 0, "g": 0, "cur": [], "pop": [], "delta": 0, "live": [], "diag": {"bounds_differ": 0, "shared_view_moved": 0}}
        res = None
        try:
            if n == "text":
                res = build_text(op, codec)
            elif n == "solid":
                res = canvas.SolidCanvas(glyph_str(p[0]), p[1], p[2])
            elif n == "blank":
                res = build_blank(p[0], p[1])
            elif n == "wrap":
                res = canvas.CompositeCanvas(objs[ids[0]])
            elif n == "combine":
                f = op.get("opt", 0) % len(ids)
                res = canvas.CanvasCombine([(objs[i], j, j == f) for j, i in enumerate(ids)])
            elif n == "join":
                f = op.get("opt", 0) % len(ids)
                res = canvas.CanvasJoin([(objs[i], j, j == f, w) for j, (i, w) in enumerate(zip(ids, p))])
            elif n == "overlay":
                top = objs[ids[0]]
                if op.get("wrap"):
                    top = canvas.CompositeCanvas(top)
                res = canvas.CanvasOverlay(top, objs[ids[1]], p[0], p[1])
            elif n == "ovl":
                res = objs[ids[0]]
                top = objs[ids[1]]
                if op.get("wrap"):
                    top = canvas.CompositeCanvas(top)
                res.overlay(top, p[0], p[1])
            elif n == "delta":
                e["diag"] = delta_diag(objs[ids[0]], objs[ids[1]])
                d = list(objs[ids[0]].content_delta(objs[ids[1]]))
                e["delta"] = it.grid([project_row(r, codec) for r in d])
            elif n in MUTATORS:
                res = canvas.CompositeCanvas(objs[ids[0]]) if op.get("wrap") else objs[ids[0]]
                if n == "padlr":
                    res.pad_trim_left_right(p[0], p[1])
                elif n == "padtb":
                    res.pad_trim_top_bottom(p[0], p[1])
                elif n == "trim":
                    res.trim(p[0], None if p[1] == NOCOUNT else p[1])
                elif n == "trimend":
                    res.trim_end(p[0])
                elif n == "fill":
                    res.fill_attr_apply({ATTRS[p[i]]: ATTRS[p[i + 1]] for i in range(0, len(p), 2)})
                elif n == "setcur":
                    res.cursor = tuple(p) if p else None
                elif n == "setpop":
                    res.set_pop_up(POPW, p[0], p[1], p[2], p[3])
            else:
                raise AssertionError(n)
        except Exception as ex:  # noqa: BLE001
            e["exc"] = type(ex).__name__
        if not e["exc"] and n != "delta":
            if in_place(op):
                dead.add(ids[0])
            objs[k] = res
            e.update(read_canvas(res, codec, it))
        # operands, and every earlier value a later operation still needs, must read back unchanged
        for i in sorted(objs):
            if i != k and i not in dead and (i in ids or last_use.get(i, 0) > k):
                r = read_canvas(objs[i], codec, it)
                r["id"] = i
                e["live"].append(r)
        ev.append(e)
        if e["exc"]:
            break
    cells, grids = it.tables()
    return {"enc": enc, "driver": driver, "cells": cells, "grids": grids, "ev": ev}


# ------------------------------------------------------------------------------------------------
# seeded random programs (deeper and wider than the TLC-generated ones), same documented domain
# ------------------------------------------------------------------------------------------------
class Gen:
    MAXW, MAXH, PAD = 14, 10, 3

    def __init__(self, rng, enc):
        self.rng = rng
        self.enc = enc
        self.alpha = {"utf8": [1, 2, 3, 4, 4, 11, 14, 21, 1, 2], "wide": [1, 2, 3, 4, 4], "narrow": [1, 2, 3]}[enc]
        self.prog = []
        self.meta = []  # per value: dict(w, h, comp, used, live)

    def live(self):
        return [i for i, m in enumerate(self.meta, 1) if m["live"]]

    def m(self, i):
        return self.meta[i - 1]

    def emit(self, n, ids=(), p=(), leaf=(), wrap=0, w=0, h=0):
        op = {"n": n, "ids": list(ids), "p": list(p), "leaf": [list(map(list, r)) for r in leaf], "wrap": wrap, "opt": self.rng.randrange(8)}
        self.prog.append(op)
        inplace = in_place(op)
        for j, i in enumerate(ids):
            if n == "delta":
                continue
            if inplace and j == 0:
                self.m(i)["live"] = False
            else:
                self.m(i)["used"] = True
        self.meta.append({"w": w, "h": h, "comp": n not in ("text", "solid"), "used": False, "live": n != "delta"})
        return len(self.meta)

    def leaf(self):
        rng = self.rng
        r = rng.random()
        if r < 0.12:
            g = rng.choice([1, 2, 3, 11] if self.enc == "utf8" else [1, 2, 3])
            w, h = rng.randint(1, 4), rng.randint(1, 3)
            return self.emit("solid", p=[g, w, h], w=w, h=h)
        if r < 0.2:
            w, h = rng.randint(1, 4), rng.randint(1, 3)
            return self.emit("blank", p=[w, h], w=w, h=h)
        rows = []
        a = rng.randrange(3)
        for _ in range(rng.randint(1, 3)):
            row, width = [], 0
            for _ in range(rng.randint(0, 4)):
                g = rng.choice(self.alpha)
                if width + glyph_cols(g) > 4:
                    break
                if rng.random() < 0.45:
                    a = rng.randrange(3)
                cs = 1 if (g < 10 and g != 4 and rng.random() < 0.25) else 0
                row.append([g, a, cs])
                width += glyph_cols(g)
            rows.append(row)
        widest = max(sum(glyph_cols(c[0]) for c in r) for r in rows)
        maxcol = max(1, widest + rng.choice([0, 0, 0, 1]))
        cur = [-1, -1] if rng.random() < 0.5 else [rng.randrange(maxcol), rng.randrange(len(rows))]
        return self.emit("text", p=[maxcol, *cur], leaf=rows, w=maxcol, h=len(rows))

    def target(self):
        """(value, wrap flag) for a mutator: in place on an unshared composite, else on a fresh wrapper."""
        i = self.rng.choice(self.live())
        m = self.m(i)
        wrap = 1 if not (m["comp"] and not m["used"]) or self.rng.random() < 0.4 else 0
        return i, wrap, m

    def fit_width(self, i, w):
        """Adapt value i to width w (what a Pile does by rendering every child at one width)."""
        m = self.m(i)
        if m["w"] == w:
            return i
        if self.rng.random() < 0.5:
            return self.emit("padlr", [i], [0, w - m["w"]], wrap=1, w=w, h=m["h"])
        return self.emit("padlr", [i], [w - m["w"], 0], wrap=1, w=w, h=m["h"])

    def step(self):
        rng = self.rng
        live = self.live()
        if len(live) < 2 or rng.random() < 0.14:
            return self.leaf()
        kind = rng.choice(["wrap", "padlr", "padlr", "padtb", "trim", "trimend", "fill", "setcur", "setpop", "combine", "join",
                           "overlay", "overlay", "ovl", "delta", "rebuild", "rebuild"])
        if kind == "wrap":
            i = rng.choice(live)
            return self.emit("wrap", [i], w=self.m(i)["w"], h=self.m(i)["h"])
        if kind in ("padlr", "padtb"):
            i, wrap, m = self.target()
            size, cap = (m["w"], self.MAXW) if kind == "padlr" else (m["h"], self.MAXH)
            for _ in range(20):
                a, b = rng.randint(-self.PAD, self.PAD), rng.randint(-self.PAD, self.PAD)
                if max(0, -a) + max(0, -b) < size and size + a + b <= cap:
                    break
            else:
                a = b = 0
            if kind == "padlr":
                return self.emit(kind, [i], [a, b], wrap=wrap, w=size + a + b, h=m["h"])
            return self.emit(kind, [i], [a, b], wrap=wrap, w=m["w"], h=size + a + b)
        if kind == "trim":
            i, wrap, m = self.target()
            top = rng.randrange(m["h"])
            count = NOCOUNT if rng.random() < 0.3 else rng.randint(1, m["h"] - top)
            return self.emit(kind, [i], [top, count], wrap=wrap, w=m["w"], h=m["h"] - top if count == NOCOUNT else count)
        if kind == "trimend":
            i, wrap, m = self.target()
            if m["h"] < 2:
                return None
            n = rng.randint(1, m["h"] - 1)
            return self.emit(kind, [i], [n], wrap=wrap, w=m["w"], h=m["h"] - n)
        if kind == "fill":
            i, wrap, m = self.target()
            return self.emit(kind, [i], rng.choice(MAPS), wrap=wrap, w=m["w"], h=m["h"])
        if kind == "setcur":
            i, wrap, m = self.target()
            p = [] if rng.random() < 0.2 else [rng.randrange(m["w"]), rng.randrange(m["h"])]
            return self.emit(kind, [i], p, wrap=wrap, w=m["w"], h=m["h"])
        if kind == "setpop":
            i, wrap, m = self.target()
            return self.emit(kind, [i], [rng.randint(0, m["w"]), rng.randint(0, m["h"]), rng.randint(1, 5), rng.randint(1, 4), 1],
                             wrap=wrap, w=m["w"], h=m["h"])
        if kind == "combine":
            k = rng.choice([2, 2, 3])
            ids = [rng.choice(live) for _ in range(k)]
            if sum(self.m(i)["h"] for i in ids) > self.MAXH:
                return None
            w = self.m(rng.choice(ids))["w"]
            ids = [self.fit_width(i, w) for i in ids]
            return self.emit(kind, ids, w=w, h=sum(self.m(i)["h"] for i in ids))
        if kind == "join":
            k = rng.choice([2, 2, 3])
            ids = [rng.choice(live) for _ in range(k)]
            ws = [self.m(i)["w"] + rng.choice([0, 0, 1, 2]) for i in ids]
            if sum(ws) > self.MAXW:
                return None
            return self.emit(kind, ids, ws, w=sum(ws), h=max(self.m(i)["h"] for i in ids))
        if kind in ("overlay", "ovl"):
            pairs = [(t, b) for t in live for b in live if t != b and self.m(t)["w"] <= self.m(b)["w"] and self.m(t)["h"] <= self.m(b)["h"]
                     and (kind == "overlay" or (self.m(b)["comp"] and not self.m(b)["used"]))]
            if not pairs:
                return None
            t, b = rng.choice(pairs)
            mt, mb = self.m(t), self.m(b)
            p = [rng.randint(0, mb["w"] - mt["w"]), rng.randint(0, mb["h"] - mt["h"])]
            wrap = 0 if mt["comp"] else 1
            if kind == "overlay":
                return self.emit(kind, [t, b], p, wrap=wrap, w=mb["w"], h=mb["h"])
            return self.emit(kind, [b, t], p, wrap=wrap, w=mb["w"], h=mb["h"])
        if kind == "rebuild":
            # what a re-render does: the same composition with one operand replaced by another canvas of its size,
            # then the difference of the new canvas against the old one
            olds = [k for k, op in enumerate(self.prog, 1) if op["n"] in ("combine", "join", "overlay") and self.m(k)["live"]
                    and all(self.m(i)["live"] for i in op["ids"])]
            if not olds:
                return None
            k = rng.choice(olds)
            op = self.prog[k - 1]
            if op["n"] in ("combine", "join") and rng.random() < 0.3:
                # the same children in another order (a Columns / Pile whose contents were reordered)
                order = list(range(len(op["ids"])))
                rng.shuffle(order)
                new = self.emit(op["n"], [op["ids"][j] for j in order], [op["p"][j] for j in order] if op["p"] else [],
                                w=self.m(k)["w"], h=self.m(k)["h"])
                return self.emit("delta", [new, k])
            j = rng.randrange(len(op["ids"]))
            mi = self.m(op["ids"][j])
            if rng.random() < 0.5:
                r = self.emit("solid", p=[rng.choice([1, 2, 3]), mi["w"], mi["h"]], w=mi["w"], h=mi["h"])
            else:
                r = self.emit("fill", [op["ids"][j]], rng.choice(MAPS), wrap=1, w=mi["w"], h=mi["h"])
            ids = list(op["ids"])
            ids[j] = r
            wrap = op["wrap"] if op["n"] != "overlay" else (0 if self.m(ids[0])["comp"] else 1)
            new = self.emit(op["n"], ids, op["p"], wrap=wrap, w=self.m(k)["w"], h=self.m(k)["h"])
            return self.emit("delta", [new, k])
        if kind == "delta":
            pairs = [(a, b) for a in live for b in live if self.m(a)["w"] == self.m(b)["w"] and self.m(a)["h"] == self.m(b)["h"]
                     and (a != b or rng.random() < 0.1)]
            if not pairs:
                return None
            a, b = rng.choice(pairs)
            return self.emit(kind, [a, b])
        return None


def structured_programs(rng):
    """Compositions whose shard boundaries do not coincide (a tall leaf joined with a stack of two leaves), then every
    vertical cut / pad that falls ON, BEFORE or AFTER such a boundary, then one more composition on top of the result:
    a cut canvas that renders correctly by itself but keeps wrong shard book-keeping shows only in the next operation."""
    out = []
    for h1 in (1, 2):
        for h2 in (1, 2):
            for order in (0, 1):
                H = h1 + h2
                unary = [("trimend", [n]) for n in range(1, H)] + [("trim", [t, c]) for t in range(H) for c in range(1, H - t + 1) if (t, c) != (0, H)]
                unary += [("padtb", [a, b]) for a in (-1, 0, 1) for b in (-1, 0, 1) if (a, b) != (0, 0) and max(0, -a) + max(0, -b) < H]
                for un, up in unary:
                    for follow in range(6):
                        g = Gen(rng, "utf8")
                        A = g.emit("text", p=[2, -1, -1], leaf=[[[1, 0, 0], [1, 0, 0]]] * H, w=2, h=H)
                        B = g.emit("text", p=[2, -1, -1], leaf=[[[2, 1, 0], [2, 1, 0]]] * h1, w=2, h=h1)
                        C = g.emit("text", p=[2, 0, 0], leaf=[[[1, 2, 0], [2, 2, 0]]] * h2, w=2, h=h2)
                        V = g.emit("combine", [B, C], w=2, h=H)
                        J = g.emit("join", [A, V] if order else [V, A], [2, 2], w=4, h=H)
                        nh = {"trimend": lambda: H - up[0], "trim": lambda: up[1], "padtb": lambda: H + up[0] + up[1]}[un]()
                        U = g.emit(un, [J], up, wrap=1, w=4, h=nh)
                        D = g.emit("text", p=[4, -1, -1], leaf=[[[2, 0, 0], [1, 0, 0], [2, 0, 0], [1, 0, 0]]], w=4, h=1)
                        if follow == 0:
                            g.emit("combine", [U, D], w=4, h=nh + 1)
                        elif follow == 1:
                            g.emit("combine", [D, U], w=4, h=nh + 1)
                        elif follow == 2:
                            g.emit("join", [U, D], [4, 4], w=8, h=max(nh, 1))
                        elif follow == 3:
                            g.emit("padtb", [U], [0, 1], wrap=1, w=4, h=nh + 1)
                        elif follow == 4:
                            g.emit("padtb", [U], [1, 0], wrap=1, w=4, h=nh + 1)
                        else:
                            W2 = g.emit("padlr", [U], [1, 1], wrap=1, w=6, h=nh)
                            g.emit("trimend", [W2], [1], wrap=1, w=6, h=nh - 1) if nh > 1 else g.emit("wrap", [W2], w=6, h=nh)
                        out.append(g.prog)
    return out


def random_program(rng, enc, depth):
    g = Gen(rng, enc)
    tries = 0
    while len(g.prog) < depth and tries < depth * 6:  # a step may emit up to three operations
        tries += 1
        g.step()
    return g.prog


# ------------------------------------------------------------------------------------------------
MC_CFG = """CONSTANTS Depth = {d} InitLeaves = {il} PadRange = {pr} MaxW = {mw} MaxH = {mh} WithGrids = {wg} Variant = "{v}"
SPECIFICATION {spec}
INVARIANT DimensionAlgebra
INVARIANT NoHalfGlyph
INVARIANT CoordsInsideOrDropped
INVARIANT ReferenceAllowed
INVARIANT LawsHold
INVARIANT GeneratedInDomain
INVARIANT DeltaLaw
CHECK_DEADLOCK FALSE
"""


def cfg(d, il, pr=2, mw=9, mh=7, wg="TRUE", v="ok", spec="Spec"):
    return MC_CFG.format(d=d, il=il, pr=pr, mw=mw, mh=mh, wg=wg, v=v, spec=spec)


def _grid_features(tr, gi):
    if not gi:
        return set()
    f = set()
    for row in tr["grids"][gi - 1]:
        for ci in row:
            c = tr["cells"][ci - 1]
            if c[3] in ("L", "R"):
                f.add("wide")
            if c[0] >= 10 and c[0] < 90:
                f.add("marks")
            if c[2]:
                f.add("charset")
    return f


def _handle(chk, traces, res):
    for ti, l, why in res.rejects:
        tr = traces[ti]
        e = tr["ev"][l - 1]
        if why == "no_action":
            raise tlc.MachineryError(f"driver generated an operation outside its domain: {json.dumps(e['op'])}")
        feats = set()
        for i in e["op"]["ids"]:
            feats |= _grid_features(tr, tr["ev"][i - 1]["g"])
        feats |= _grid_features(tr, e["g"])
        changed = [x["id"] for x in e["live"] if x["exc"] or any(x[f] != tr["ev"][x["id"] - 1][f] for f in ("cols", "rows", "g", "cur", "pop"))]
        sig = {"op": e["op"]["n"], "enc": tr["enc"], "exc": e["exc"], "inplace": int(in_place(e["op"])),
               "wide": int("wide" in feats), "marks": int("marks" in feats), "operand_changed": int(bool(changed)),
               "bounds_differ": e["diag"]["bounds_differ"], "shared_view_moved": e["diag"]["shared_view_moved"]}
        chk.reject(f"C02.{why}", sig, {"enc": tr["enc"], "driver": tr["driver"], "prog": [x["op"] for x in tr["ev"][:l]], "observed": {
            k: e[k] for k in ("exc", "cols", "rows", "cur", "pop")}, "changed_operands": changed})


class Sink:
    """Collects traces, validates them with TLC in chunks (bounded memory) and keeps only counters."""

    CHUNK = 90000  # events per validation round

    def __init__(self, chk, jobs):
        self.chk, self.jobs = chk, jobs
        self.traces, self.pending = [], 0
        self.tv = tlc.TVResult()
        self.kinds, self.nontriv = {}, set()
        self.programs = {}
        self.longest = None

    def add(self, tr):
        self.traces.append(tr)
        self.pending += len(tr["ev"]) + 1
        self.programs[tr["driver"]] = self.programs.get(tr["driver"], 0) + 1
        if tr["driver"] == "random" and (self.longest is None or len(tr["ev"]) > len(self.longest)):
            self.longest = [[e["op"]["n"], e["op"]["ids"], e["op"]["p"], e["op"]["wrap"]] for e in tr["ev"]] + [tr["enc"]]
        if self.pending >= self.CHUNK:
            self.flush()

    def flush(self):
        if not self.traces:
            return
        res = tlc.validate("CanvasTrace", self.traces, batch_events=min(12000, self.pending // self.jobs + 1), jobs=self.jobs, timeout=3000)
        for f in ("traces", "events", "consumed", "states", "generated", "wall_s", "batches"):
            setattr(self.tv, f, getattr(self.tv, f) + getattr(res, f))
        self.tv.rejects += res.rejects
        _handle(self.chk, self.traces, res)
        for t in self.traces:
            self.count(t)
        self.chk.note(f"{self.tv.events} events validated, {len(self.tv.rejects)} rejected ({time.time() - self.chk.t0:.0f}s)")
        self.traces, self.pending = [], 0

    def bump(self, k, n=1):
        self.kinds[k] = self.kinds.get(k, 0) + n

    def count(self, t):
        cells = t["cells"]

        def cells_of(gi):
            return tuple(tuple(tuple(cells[ci - 1]) for ci in row) for row in t["grids"][gi - 1])

        for e in t["ev"]:
            op = e["op"]
            self.bump(op["n"] + (".inplace" if in_place(op) and op["n"] != "ovl" else ""))
            self.bump("enc." + t["enc"])
            if e["exc"]:
                self.bump("raised." + e["exc"])
                continue
            if op["n"] == "delta":
                flat = [cells[ci - 1][3] for row in t["grids"][e["delta"] - 1] for ci in row]
                if "k" in flat and any(x != "k" for x in flat):
                    self.bump("delta.with_kept_and_changed_cells")
                continue
            if op["ids"]:
                self.nontriv.add(hash((op["n"], tuple(op["p"]), tuple(cells_of(t["ev"][i - 1]["g"]) for i in op["ids"]), t["enc"])))
                wide_in = sum(1 for i in op["ids"] for row in t["grids"][t["ev"][i - 1]["g"] - 1] for ci in row if cells[ci - 1][3] in "LR")
                wide_out = sum(1 for row in t["grids"][e["g"] - 1] for ci in row if cells[ci - 1][3] in "LR")
                if op["n"] in ("padlr", "overlay", "ovl") and wide_out < wide_in:
                    self.bump("trim_or_overlay.removing_wide_cells")
                if e["cur"] and any(t["ev"][i - 1]["cur"] and t["ev"][i - 1]["cur"] != e["cur"] for i in op["ids"]):
                    self.bump("cursor.translated")
                if e["pop"] and any(t["ev"][i - 1]["pop"] and t["ev"][i - 1]["pop"] != e["pop"] for i in op["ids"]):
                    self.bump("popup.translated")
                if any(len(x) and tuple(x) != tuple(y) for x, y in ((t["ev"][i - 1]["cur"], e["cur"]) for i in op["ids"]) if not y):
                    self.bump("cursor.dropped_or_replaced")


def run(chk):
    quick = chk.tier == "quick"
    rng = chk.rng
    check_alphabet()
    # ---- TLC on the algebra itself, and (overlapped, the runs are independent) TLC as program generator ----------
    runs = [("MC_Canvas_2leaves_1op", cfg(1, 2)), ("MC_Canvas_1leaf_2ops", cfg(2, 1, pr=1 if quick else 2))]
    if not quick:
        runs += [("MC_Canvas_2leaves_2ops", cfg(2, 2, pr=1))]

    def model_check():
        return [(name, tlc.mc("Canvas", c, workers=6, timeout=2400, heap="8g")) for name, c in runs]

    def generate():
        refute = tlc.mc("Canvas", cfg(1, 1, v="nocut"), workers=2, timeout=600)
        d1 = tlc.dump_states("Canvas", cfg(1, 2, wg="FALSE"), workers=2, timeout=900)
        d2 = None if quick else tlc.dump_states("Canvas", cfg(2, 1, wg="FALSE"), workers=2, timeout=1800)
        sim = tlc.simulate("Canvas", cfg(8 if quick else 10, 1, pr=3, mw=12, mh=9, spec="SimSpec"), num=120 if quick else 4000,
                           depth=10 if quick else 12, seed=chk.seed, timeout=2400, jobs=4 if quick else 8)
        return refute, d1, d2, sim

    with cf.ThreadPoolExecutor(2) as ex:
        f_mc, f_gen = ex.submit(model_check), ex.submit(generate)
        mc_results = f_mc.result()
        r, (states, dr), d2, behs = f_gen.result()
    for name, m in mc_results:
        chk.add_mc(name, m)
        if not m.ok:
            chk.reject("C02.model." + str(m.violated), {"model": "Canvas", "inv": m.violated}, {"tlc_prog": (m.trace[-1:] or [{}])[0].get("prog")})
    chk.add_mc("MC_Canvas_refute_trim_without_blanking", r)
    if r.ok or r.violated != "NoHalfGlyph":
        chk.vacuity.append("model.NoHalfGlyph does not refute a trim that emits half characters")
    chk.note(f"algebra model-checked, programs generated ({time.time() - chk.t0:.0f}s)")

    sink = Sink(chk, 4 if quick else 8)
    # ---- TLC-dumped programs: every single operation on every pair of library leaves (thorough: + 2 operations on 1 leaf) ----
    chk.add_mc("GEN_dump_2leaves_1op", dr)
    progs = [s["prog"] for s in states if len(s["prog"]) == 3]
    if quick:
        progs = [p for p in progs if rng.random() < 0.2]
    else:
        st2, dr2 = d2
        chk.add_mc("GEN_dump_1leaf_2ops", dr2)
        progs += [s["prog"] for s in st2 if len(s["prog"]) == 3 and rng.random() < 0.35]
        del st2, d2
    del states
    first = None
    for p in progs:
        for op in p:
            op["opt"] = rng.randrange(8)   # run-length list shape of leaves, focus child of combine / join: not part of the model
        tr = run_program(p, "utf8", "tlc-dump")
        first = first or [e["op"] for e in tr["ev"]]
        sink.add(tr)
    n_dump = len(progs)
    del progs
    chk.note(f"{n_dump} dumped programs run ({time.time() - chk.t0:.0f}s)")
    # ---- TLC -simulate behaviours (random leaves, depth 8..10), replayed; the model's own grids compared ----
    agree = 0
    for b in behs:
        last = b[-1]
        for op in last["prog"]:
            op["opt"] = rng.randrange(8)
        tr = run_program(last["prog"], "utf8", "tlc-simulate")
        cells = tr["cells"]
        for e, v in zip(tr["ev"], last["vals"]):
            if e["op"]["n"] == "delta" or e["exc"]:
                continue
            real = [[cells[ci - 1] for ci in row] for row in tr["grids"][e["g"] - 1]]
            if real == v["g"]:
                agree += 1
            else:
                chk.divergence("spec_to_code_grid_differs", {"op": e["op"]})
                break
        sink.add(tr)
    n_sim = len(behs)
    del behs
    chk.cov["spec_to_code_behaviours"] = n_sim
    chk.cov["spec_to_code_values_agreeing"] = agree
    chk.note(f"{n_sim} simulated behaviours run ({time.time() - chk.t0:.0f}s)")
    # ---- seeded random programs to greater depth, three encodings -----------------------------------------
    n_rand = 700 if quick else 26000
    for i in range(n_rand):
        enc = "utf8" if i % 5 < 3 else ("wide" if i % 5 == 3 else "narrow")
        sink.add(run_program(random_program(rng, enc, rng.randint(4, 16)), enc, "random"))
    # ---- structured programs: cuts on / off shard boundaries of a join with unequal stacks, followed by a composition ----
    sp = structured_programs(rng)
    for p in (sp if not quick else sp[:: 2]):
        sink.add(run_program(p, "utf8", "structured"))
    chk.cov["structured_programs"] = len(sp) if not quick else len(sp[:: 2])
    sink.flush()
    chk.add_tv("TV_CanvasTrace", sink.tv)

    # ---- coverage / vacuity ---------------------------------------------------------------------------------
    kinds = sink.kinds
    chk.cov["clause_counts"] = dict(sorted(kinds.items()))
    chk.cov["distinct_nontrivial"] = len(sink.nontriv)
    for must in ("combine", "join", "overlay", "ovl", "padlr", "padlr.inplace", "padtb", "padtb.inplace", "trim", "trim.inplace", "trimend", "fill",
                 "fill.inplace", "wrap", "delta", "setcur", "setpop", "blank", "solid", "delta.with_kept_and_changed_cells", "cursor.translated",
                 "popup.translated", "trim_or_overlay.removing_wide_cells", "enc.wide", "enc.narrow"):
        if not kinds.get(must):
            chk.vacuity.append("driver." + must)
    chk.cov["rule"] = ("programs of canvas operations on the real urwid.canvas classes: every single operation with every in-domain parameter on pairs of "
                       "library leaves (TLC dump; thorough: also two operations on one leaf), TLC -simulate behaviours with random leaves, seeded random "
                       "programs of 4..16 operations in utf-8 / euc-jp / iso8859-1; non-trivial = distinct (operation, parameters, operand cell grids, "
                       "encoding) of non-leaf operations")
    chk.cov["exhaustive"] = True
    chk.cov["bounds"] = {"leaf": "<= 4 columns x 3 rows (+1 pad column), glyphs a b space wide(2 cells) + 0..2 zero-width marks, attrs None x y, charsets None '0'",
                         "tlc_dump_programs": n_dump, "tlc_simulated_behaviours": n_sim, "random_programs": n_rand,
                         "pad_range_random": Gen.PAD, "max_result": [Gen.MAXW, Gen.MAXH]}
    chk.sample({"driver": "tlc-dump", "prog": first})
    chk.sample({"driver": "random", "prog": sink.longest})
    chk.cov["trusted_base"] = ["TLC", "GridOps.tla (grid algebra written from the property text)", "vf/props/c02.py project_row (content rows -> cells) and the "
                               "alphabet table (checked against urwid.str_util.calc_width at start)", "the program generators (every operation re-checked by "
                               "GridOps!InDomain inside TLC)"]
    chk.assumptions += [
        "operations are generated inside their documented domain only: overlay offsets >= 0 and the top canvas fits, trims leave >= 1 row/column, "
        "join widths >= the canvases' own, stacked canvases have one width, the top canvas of an overlay is a CompositeCanvas, results are non-empty",
        "a zero-width character always follows a base character in the same leaf row and shares its attribute; double-width and marked glyphs use charset None",
        "a cursor / pop-up whose cell left the canvas may be dropped or reported at its translated (outside) position; when several operands carry a cursor "
        "any one of them may survive; a bottom cursor covered by an overlay may survive or be dropped",
        "in-place mutators are applied only to composites no other live canvas was built from; shortcuts/children book-keeping is not modelled",
        "content_delta is taken between canvases of one size",
    ]


def replay(chk, path):
    with open(path) as f:
        rp = json.load(f)["replay"]
    check_alphabet()
    tr = run_program(rp["prog"], rp["enc"], rp.get("driver", "replay"))
    res = tlc.validate("CanvasTrace", [tr], jobs=1, timeout=600)
    chk.add_tv("replay", res)
    _handle(chk, [tr], res)
    chk.sample([e["op"] for e in tr["ev"]])
    return chk.finish()
