"""C08 — container focus is always a valid child and input follows the focus path.
Contract: spec/FocusTreeOps.tla; model: spec/FocusTree.tla; trace spec: spec/FocusTreeTrace.tla."""
from __future__ import annotations

import json

from .. import tlc

W, H = 14, 7
ARROWS = ["up", "down", "left", "right"]
KEYS = ARROWS + ["x", "page down", "page up", "tab", "home"]


class World:
    def __init__(self, rng):
        import urwid

        urwid.set_encoding("utf-8")
        self.u = urwid
        self.rng = rng
        self.nid = 0
        self.recv = []
        self.rfocus = []
        self.handled = [0]
        world = self

        class Leaf(urwid.Widget):
            _sizing = frozenset(["flow"])

            def __init__(self, sel, eats):
                super().__init__()
                self._sel = sel
                self.eats = eats
                world.nid += 1
                self._vf_id = world.nid

            def selectable(self):
                return self._sel

            def rows(self, size, focus=False):
                return 1

            def render(self, size, focus=False):
                if focus:
                    world.rfocus.append(self._vf_id)
                (cols,) = size
                return urwid.TextCanvas([f"L{self._vf_id}".ljust(cols)[:cols].encode()], maxcol=cols)

            def keypress(self, size, key):
                world.recv.append(self._vf_id)
                if key in self.eats:
                    world.handled[0] = 1
                    return None
                return key

            def mouse_event(self, size, event, button, col, row, focus):
                return False

        self.Leaf = Leaf

    def tag(self, w):
        self.nid += 1
        w._vf_id = self.nid
        return w

    # ---- builders ---------------------------------------------------------------------------------
    def leaf(self):
        sel = self.rng.random() < 0.6
        return self.Leaf(sel, ("x",) if (sel and self.rng.random() < 0.5) else ())

    def flow(self, depth):
        r = self.rng.random()
        u = self.u
        if depth <= 0 or r < 0.4:
            return self.leaf()
        n = self.rng.randint(0, 3)
        if r < 0.65:
            return self.tag(u.Pile([self.flow(depth - 1) for _ in range(n)]))
        if r < 0.85:
            return self.tag(u.Columns([self.flow(depth - 1) for _ in range(n)], dividechars=1))
        return self.tag(u.GridFlow([self.leaf() for _ in range(n)], 3, 1, 0, "left"))

    def box(self, depth):
        r = self.rng.random()
        u = self.u
        if depth <= 0 or r < 0.3:
            return u.Filler(self.flow(depth), valign="top")
        if r < 0.55:
            return self.tag(u.ListBox(u.SimpleFocusListWalker([self.flow(depth - 1) for _ in range(self.rng.randint(0, 3))])))
        if r < 0.8:
            hdr = self.flow(1 if self.rng.random() < 0.35 else 0) if self.rng.random() < 0.6 else None     # sometimes several rows
            ftr = self.flow(1 if self.rng.random() < 0.35 else 0) if self.rng.random() < 0.6 else None
            return self.tag(u.Frame(self.box(depth - 1), header=hdr, footer=ftr, focus_part="body"))
        return self.tag(u.Overlay(u.Filler(self.flow(depth - 1), valign="top"), self.box(0), "center", 8, "middle", 3))

    # ---- projection -------------------------------------------------------------------------------
    def children(self, w):
        u = self.u
        if isinstance(w, (u.Pile, u.Columns, u.GridFlow)):
            return [c for c, _ in w.contents]
        if isinstance(w, u.ListBox):
            return list(w.body)
        if isinstance(w, u.Frame):
            return [p for p in (w.header, w.body, w.footer) if p is not None]
        if isinstance(w, u.Overlay):
            return [w.bottom_w, w.top_w]
        return None

    def focus_index(self, w, kids):
        u = self.u
        try:
            p = w.focus_position
        except IndexError:
            return -1, None
        if isinstance(w, u.Frame):
            part = {"header": w.header, "body": w.body, "footer": w.footer}[p]
            return next((i for i, k in enumerate(kids) if k is part), -1), p
        return (p if isinstance(p, int) else -1), p

    def base(self, w):
        while not hasattr(w, "_vf_id") and hasattr(w, "original_widget"):
            w = w.original_widget
        return w

    def table(self, root):
        nodes = []

        def visit(w, parent, idx):
            w = self.base(w)
            kids = self.children(w)
            nd = {"id": w._vf_id, "parent": parent, "idx": idx, "kind": type(w).__name__, "leaf": 1 if kids is None else 0, "nch": 0,
                  "focus": -1, "sel": 1 if w.selectable() else 0, "ok": 1, "emptyok": 1}
            nodes.append(nd)
            if kids is None:
                return
            nd["nch"] = len(kids)
            fi, _pos = self.focus_index(w, kids)
            nd["focus"] = fi
            if kids:
                try:
                    f = w.focus
                    nd["ok"] = 1 if (0 <= fi < len(kids) and self.base(f) is self.base(kids[fi])) else 0
                except Exception:  # noqa: BLE001
                    nd["ok"] = 0
            else:
                try:
                    f = w.focus
                except Exception:  # noqa: BLE001
                    f = "raised"
                raised = False
                try:
                    w.focus_position  # noqa: B018
                except IndexError:
                    raised = True
                except Exception:  # noqa: BLE001
                    raised = False
                nd["emptyok"] = 1 if (f is None and raised) else 0
            for i, k in enumerate(kids):
                visit(k, w._vf_id, i)

        visit(root, 0, 0)
        return nodes

    def containers(self, root):
        out = []

        def visit(w):
            w = self.base(w)
            kids = self.children(w)
            if kids is None:
                return
            out.append(w)
            for k in kids:
                visit(k)

        visit(root)
        return out

    def invalidate_all(self, root):
        def visit(w):
            w = self.base(w)
            kids = self.children(w)
            w._invalidate()
            for k in kids or []:
                visit(k)

        visit(root)


def run_history(seed, nops, depth=2):
    import random

    rng = random.Random(seed)
    wd = World(rng)
    u = wd.u
    root = wd.box(depth)
    # most histories at the usual size, some on a screen too short for everything (trimmed header / footer / items)
    W, H = 14, rng.choice([7, 7, 7, 7, 4, 3, 2])
    ev = []

    def render():
        # empty the canvas cache only: the widgets' own layout caches (GridFlow's display widget, Columns' widths, ...)
        # stay as the history left them, so staleness there is observable
        u.CanvasCache.clear()
        del wd.rfocus[:]
        root.render((W, H), True)
        return list(wd.rfocus)

    def event(t, pre, exc, expect, **kw):
        e = {"t": t, "pre": pre, "exc": exc, "expect": expect, "recv": [], "handled": 0, "ret_same": 1, "key": "", "samestruct": 0, "target": 0,
             "same": 1, "rfocus": [], "post": [], "short": 1 if H < 7 else 0}
        e.update(kw)
        e["soft"] = ""
        if t in ("key", "press", "init", "edit", "setcontents") and exc:
            # the property says nothing about these calls raising (rendering is C01): recorded as DIVERGENCE
            e["soft"], e["exc"] = exc, ""
        selnow = {}
        try:      # selectable() as the operation left it, before any rendering refreshes layout caches
            for c in wd.containers(root):
                selnow[c._vf_id] = 1 if c.selectable() else 0
        except Exception:  # noqa: BLE001
            selnow = {}
        if not e["exc"] or expect:
            try:
                e["rfocus"] = render()
            except Exception as ex:  # noqa: BLE001
                e["soft"] = e["soft"] or ("render:" + type(ex).__name__)
                e["rfocus"] = []
        try:
            e["post"] = wd.table(root)
            for nd in e["post"]:
                if nd["id"] in selnow:
                    nd["sel"] = selnow[nd["id"]]
        except Exception as ex:  # noqa: BLE001
            e["post"] = pre
            if not e["exc"]:
                e["exc"] = "project:" + type(ex).__name__
        ev.append(e)
        return e

    try:
        pre = wd.table(root)
        event("init", pre, "", "")
    except Exception as ex:  # noqa: BLE001
        return {"seed": seed, "ev": [{"t": "init", "pre": [], "post": [], "exc": "build:" + type(ex).__name__, "expect": "", "recv": [], "handled": 0,
                                      "ret_same": 1, "key": "", "samestruct": 0, "target": 0, "same": 1, "rfocus": [], "soft": "", "short": 0}]}
    for _ in range(nops):
        pre = ev[-1]["post"]
        r = rng.random()
        conts = wd.containers(root)
        exc = ""
        if r < 0.4:
            key = rng.choice(KEYS)
            if not wd.base(root).selectable():
                continue
            del wd.recv[:]
            wd.handled[0] = 0
            ret = "?"
            try:
                ret = root.keypress((W, H), key)
            except Exception as ex:  # noqa: BLE001
                exc = type(ex).__name__
            event("key", pre, exc, "", key=key, recv=list(wd.recv), handled=wd.handled[0], ret_same=1 if (exc or ret == key or ret is None) else 0,
                  samestruct=1)
            if ret is None and not wd.handled[0]:
                ev[-1]["handled"] = 1  # consumed by a container (focus move): not 'unhandled'
        elif r < 0.5:
            try:
                root.mouse_event((W, H), "mouse press", 1, rng.randrange(W), rng.randrange(H), True)
            except Exception as ex:  # noqa: BLE001
                exc = type(ex).__name__
            event("press", pre, exc, "")
        elif r < 0.65 and conts:
            c = rng.choice(conts)
            kids = wd.children(c)
            expect = ""
            if isinstance(c, u.Frame):
                pos = rng.choice(["header", "body", "footer", "nope"])
                if pos == "nope" or getattr(c, pos) is None:
                    expect = "IndexError"
            elif isinstance(c, u.Overlay):
                pos = rng.choice([1, 1, 0, 2])
                if pos != 1:
                    expect = "IndexError"
            else:
                pos = rng.randint(-1, len(kids) + 1)
                if not 0 <= pos < len(kids):
                    expect = "IndexError"
            try:
                c.focus_position = pos
            except Exception as ex:  # noqa: BLE001
                exc = type(ex).__name__
            event("setfocus", pre, exc, expect, target=c._vf_id)
        elif r < 0.75:
            saved = None
            try:
                saved = wd.base(root).get_focus_path() if wd.children(wd.base(root)) is not None else None
            except Exception as ex:  # noqa: BLE001
                exc = type(ex).__name__
            if saved is None and not exc:
                continue
            same = 1
            if not exc:
                keys_ok = True
                try:
                    if wd.base(root).selectable():
                        for _k in range(rng.randint(1, 3)):
                            root.keypress((W, H), rng.choice(ARROWS))
                except Exception:  # noqa: BLE001  (a key raising is not C08's business; skip the round trip)
                    keys_ok = False
                if not keys_ok:
                    continue
                try:
                    wd.base(root).set_focus_path(saved)
                    same = 1 if wd.base(root).get_focus_path() == saved else 0
                except Exception as ex:  # noqa: BLE001
                    exc = type(ex).__name__
            event("roundtrip", pre, exc, "", same=same)
        elif conts:
            c = rng.choice(conts)
            kids = wd.children(c)
            t = "edit"
            try:
                if isinstance(c, (u.Pile, u.Columns, u.GridFlow)):
                    opt = c.options() if not isinstance(c, u.GridFlow) else c.options()
                    q = rng.random()
                    if q < 0.35:
                        c.contents.insert(rng.randint(0, len(kids)), (wd.leaf(), opt))
                    elif q < 0.5 and kids:
                        del c.contents[rng.randrange(len(kids))]
                    elif q < 0.6:   # slice deletion incl. extended and negative steps (valid for any list)
                        a = rng.choice([None, 0, 1, 2, -1, -2])
                        b = rng.choice([None, None, 0, 1, 3, -1])
                        k = rng.choice([None, 1, 2, 2, 3, -1, -2])
                        del c.contents[a:b:k]
                    elif q < 0.9:
                        c.contents[:] = [(wd.leaf(), opt) for _ in range(rng.randint(0, 3))]
                        t = "setcontents"
                    else:
                        c.contents.clear()
                        t = "setcontents"
                elif isinstance(c, u.ListBox):
                    if rng.random() < 0.5 or not kids:
                        c.body.insert(rng.randint(0, len(kids)), wd.leaf())
                    else:
                        del c.body[rng.randrange(len(kids))]
                elif isinstance(c, u.Frame):
                    part = rng.choice(["header", "footer"])
                    q = rng.random()
                    if q < 0.5:
                        setattr(c, part, wd.leaf() if rng.random() < 0.6 else None)
                    elif q < 0.75 and getattr(c, part) is not None:
                        del c.contents[part]
                    else:
                        c.contents[part] = (wd.leaf(), None)
                else:
                    continue
            except Exception as ex:  # noqa: BLE001
                exc = type(ex).__name__
            event(t, pre, exc, "", target=c._vf_id)
        if (ev[-1]["exc"] and not ev[-1]["expect"]) or ev[-1]["soft"]:
            break
    return {"seed": seed, "ev": ev}


MC_CFG = """CONSTANTS Depth = {d}
Shapes <- ShapesDef
SPECIFICATION Spec
INVARIANT FocusInv
INVARIANT ColsFocusInv
INVARIANT ArrowLandsOnSelectable
CHECK_DEADLOCK FALSE
"""


def _handle(chk, traces, res):
    for ti, l, why in res.rejects:
        tr = traces[ti]
        e = tr["ev"][l - 1]
        kinds = sorted({n["kind"] for n in e["pre"]})
        target_kind = next((n["kind"] for n in e["post"] if n["id"] == e.get("target")), "")
        sig = {"event": e["t"], "exc": e["exc"], "expect": e["expect"], "key": e.get("key", ""), "target_kind": target_kind}
        chk.reject(f"C08.{why}", sig, {"seed": tr["seed"], "nops": len(tr["ev"]) - 1, "event_index": l, "kinds": kinds,
                                       "observed": {k: e[k] for k in ("t", "exc", "expect", "key", "recv", "handled", "ret_same", "rfocus", "target", "same")},
                                       "pre": e["pre"], "post": e["post"]})


def run(chk):
    quick = chk.tier == "quick"
    r = tlc.mc("FocusTree", MC_CFG.format(d=4 if quick else 6), timeout=2400, workers=8)
    chk.add_mc("MC_FocusTree", r)
    if not r.ok:
        chk.reject("C08.model." + str(r.violated), {"model": "FocusTree"}, {"tlc_trace": r.trace[-5:]})
    n = 1500 if quick else 60000
    traces = []
    base = chk.seed * 1000003
    for i in range(n):
        traces.append(run_history(base + i, 12, depth=2 if (base + i) % 3 else 3))
    res = tlc.validate("FocusTreeTrace", traces, batch_events=4000, timeout=2400)
    chk.add_tv("TV_FocusTreeTrace", res)
    _handle(chk, traces, res)
    kinds = {}
    nontriv = set()
    for t in traces:
        for e in t["ev"]:
            kinds[e["t"]] = kinds.get(e["t"], 0) + 1
            if e.get("soft"):
                chk.divergence(f"{e['t']}_raised_{e['soft']}", {"seed": t["seed"], "tree": [(n["kind"], n["nch"]) for n in e["pre"]]})
            if e["expect"]:
                kinds["invalid_focus_assignment"] = kinds.get("invalid_focus_assignment", 0) + 1
            for nd in e["post"]:
                if not nd["leaf"]:
                    kinds["container." + nd["kind"]] = kinds.get("container." + nd["kind"], 0) + 1
                    if nd["nch"] == 0:
                        kinds["empty_container"] = kinds.get("empty_container", 0) + 1
            if e["t"] == "key" and e["key"] in ARROWS and any(a["focus"] != b["focus"] for a in e["pre"] for b in e["post"] if a["id"] == b["id"]):
                kinds["arrow_moved_focus"] = kinds.get("arrow_moved_focus", 0) + 1
                nontriv.add(json.dumps([e["pre"], e["key"]]))
    chk.cov["clause_counts"] = kinds
    chk.cov["distinct_nontrivial"] = len(nontriv)
    chk.cov["rule"] = ("seeded random nestings (depth <= 3) of Pile/Columns/GridFlow/Frame/Overlay/ListBox around probe leaves; histories of keys, button-1 "
                       "presses, valid and invalid focus_position assignments, focus-path round trips and contents edits; non-trivial = distinct "
                       "(tree, arrow key) pairs where the key moved a focus")
    for v in ("arrow_moved_focus", "empty_container", "invalid_focus_assignment", "setcontents", "roundtrip", "container.Frame", "container.Overlay",
              "container.GridFlow", "container.ListBox"):
        if not kinds.get(v):
            chk.vacuity.append("driver." + v)
    chk.sample({"seed": traces[0]["seed"], "first_tree": traces[0]["ev"][0]["post"]})
    chk.cov["trusted_base"] = ["TLC", "World.table(): projection of real containers to the node table (vf/props/c08.py)", "probe Leaf widget"]
    chk.assumptions += ["the same widget instance is never placed twice in one container", "keys are sent only when the root is selectable (as MainLoop does)"]


def replay(chk, path):
    with open(path) as f:
        rp = json.load(f)["replay"]
    tr = run_history(rp["seed"], 12, depth=2 if rp["seed"] % 3 else 3)
    res = tlc.validate("FocusTreeTrace", [tr])
    chk.add_tv("replay", res)
    _handle(chk, [tr], res)
    chk.sample({"seed": rp["seed"]})
    return chk.finish()
