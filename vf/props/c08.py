"""C08 — container focus is always a valid child and input follows the focus path.
Contract: spec/FocusTreeOps.tla; model: spec/FocusTree.tla; trace spec: spec/FocusTreeTrace.tla."""
from __future__ import annotations

import concurrent.futures as cf
import json
import warnings

from .. import tlc

W, H = 14, 7
ARROWS = ["up", "down", "left", "right"]
KEYS = ARROWS + ["x", "page down", "page up", "tab", "home"]
# the wide alphabet of the "unsel" and "longlist" families: every navigation command of the default command map, the other
# commands (activate, next / previous selectable, redraw), characters, function and editing keys
NAVKEYS = ARROWS + ["page down", "page up", "home", "end"]
ALPHABET = NAVKEYS + ["tab", "shift tab", "enter", " ", "x", "A", "f5", "esc", "backspace", "delete", "ctrl n", "ctrl l", "meta x", "insert"]


class World:
    def __init__(self, rng, wide=False):
        import urwid

        self.wide = wide     # new families: leaves consume keys of the whole alphabet, containers are never built empty

        urwid.set_encoding("utf-8")
        self.u = urwid
        self.rng = rng
        self.nid = 0
        self.recv = []
        self.rfocus = []
        self.handled = [0]
        world = self

        class Leaf(urwid.Widget):
            _sizing = frozenset(["flow"])

            def __init__(self, sel, eats):
                super().__init__()
                self._sel = sel
                self.eats = eats
                world.nid += 1
                self._vf_id = world.nid

            def selectable(self):
                return self._sel

            def rows(self, size, focus=False):
                return 1

            def render(self, size, focus=False):
                if focus:
                    world.rfocus.append(self._vf_id)
                (cols,) = size
                return urwid.TextCanvas([f"L{self._vf_id}".ljust(cols)[:cols].encode()], maxcol=cols)

            def keypress(self, size, key):
                world.recv.append(self._vf_id)
                if key in self.eats:
                    world.handled[0] = 1
                    return None
                return key

            def mouse_event(self, size, event, button, col, row, focus):
                return False

        self.Leaf = Leaf
        self.moves = []      # every Columns.move_cursor_to_coords call since the last event (facts only; FocusTreeOps!MoveOk judges)

        class CursorLeaf(Leaf):
            """a selectable leaf with a cursor column: answers get_pref_col, takes (or refuses) a cursor sent to it"""

            def __init__(self, eats, pref, accepts=True):
                super().__init__(True, eats)
                self.pref = pref
                self.accepts = accepts

            def get_pref_col(self, size):
                return self.pref

            def move_cursor_to_coords(self, size, col, row):
                if not self.accepts:
                    return False
                if isinstance(col, int):
                    self.pref = max(col, 0)
                return True

        self.CursorLeaf = CursorLeaf

        class Columns(urwid.Columns):
            """urwid.Columns itself; move_cursor_to_coords additionally writes down what it was asked and what it did"""

            def move_cursor_to_coords(self, size, col, row):
                rec = None
                try:
                    widths = [int(x) for x in self.get_column_sizes(size, focus=True)[0]]
                    kids = [w for w, _ in self.contents][:len(widths)]
                    rec = {"id": getattr(self, "_vf_id", 0), "widths": widths, "sel": [1 if w.selectable() else 0 for w in kids],
                           "acc": [1 if not hasattr(w, "move_cursor_to_coords") else ((1 if w.accepts else 0) if isinstance(w, CursorLeaf) else 2)
                                   for w in kids],
                           "div": self.dividechars, "maxcol": size[0] if size else -1, "row": row, "before": self.focus_position,
                           "colk": "int" if type(col) is int else (str(col) if col in ("left", "right") else "other"),
                           "col": col if type(col) is int else 0}
                except Exception:  # noqa: BLE001
                    rec = None
                ret = super().move_cursor_to_coords(size, col, row)
                if rec is not None:
                    rec["ret"] = 0 if ret is False else 1
                    rec["after"] = self.focus_position
                    world.moves.append(rec)
                return ret

        self.Columns = Columns

    def tag(self, w):
        self.nid += 1
        w._vf_id = self.nid
        return w

    # ---- builders ---------------------------------------------------------------------------------
    def leaf(self, sel=None):
        if self.wide:
            if sel is None:
                sel = self.rng.random() < 0.5
            return self.Leaf(sel, tuple(self.rng.sample(ALPHABET, self.rng.choice([0, 0, 1, 2]))) if sel else ())
        sel = self.rng.random() < 0.6
        return self.Leaf(sel, ("x",) if (sel and self.rng.random() < 0.5) else ())

    def cursor_leaf(self, width=14, accepts=True):
        rng = self.rng
        q = rng.random()
        pref = rng.randrange(max(width, 1)) if q < 0.85 else rng.choice(["left", "right", 0, width + 3])
        return self.CursorLeaf(tuple(rng.sample(ALPHABET, rng.choice([0, 0, 1]))), pref, accepts)

    def flow(self, depth):
        r = self.rng.random()
        u = self.u
        if depth <= 0 or r < 0.4:
            return self.leaf()
        n = self.rng.randint(2 if self.wide else 0, 3)
        if r < 0.65:
            return self.tag(u.Pile([self.flow(depth - 1) for _ in range(n)]))
        if r < 0.85:
            return self.tag(self.Columns([self.flow(depth - 1) for _ in range(n)], dividechars=1))
        return self.tag(u.GridFlow([self.leaf() for _ in range(n)], 3, 1, 0, "left"))

    def box(self, depth):
        r = self.rng.random()
        u = self.u
        if depth <= 0 or r < 0.3:
            return u.Filler(self.flow(depth), valign="top")
        if r < 0.55:
            return self.tag(u.ListBox(u.SimpleFocusListWalker([self.flow(depth - 1) for _ in range(self.rng.randint(2 if self.wide else 0, 3))])))
        if r < 0.8:
            hdr = self.flow(1 if self.rng.random() < 0.35 else 0) if self.rng.random() < 0.6 else None     # sometimes several rows
            ftr = self.flow(1 if self.rng.random() < 0.35 else 0) if self.rng.random() < 0.6 else None
            return self.tag(u.Frame(self.box(depth - 1), header=hdr, footer=ftr, focus_part="body"))
        return self.tag(u.Overlay(u.Filler(self.flow(depth - 1), valign="top"), self.box(0), "center", 8, "middle", 3))

    # ---- projection -------------------------------------------------------------------------------
    def children(self, w):
        u = self.u
        if isinstance(w, (u.Pile, u.Columns, u.GridFlow)):
            return [c for c, _ in w.contents]
        if isinstance(w, u.ListBox):
            return list(w.body)
        if isinstance(w, u.Frame):
            return [p for p in (w.header, w.body, w.footer) if p is not None]
        if isinstance(w, u.Overlay):
            return [w.bottom_w, w.top_w]
        return None

    def focus_index(self, w, kids):
        u = self.u
        try:
            p = w.focus_position
        except IndexError:
            return -1, None
        if isinstance(w, u.Frame):
            part = {"header": w.header, "body": w.body, "footer": w.footer}[p]
            return next((i for i, k in enumerate(kids) if k is part), -1), p
        return (p if isinstance(p, int) else -1), p

    def base(self, w):
        while not hasattr(w, "_vf_id") and hasattr(w, "original_widget"):
            w = w.original_widget
        return w

    def table(self, root):
        nodes = []

        def visit(w, parent, idx):
            w = self.base(w)
            kids = self.children(w)
            nd = {"id": w._vf_id, "parent": parent, "idx": idx, "kind": type(w).__name__, "leaf": 1 if kids is None else 0, "nch": 0,
                  "focus": -1, "sel": 1 if w.selectable() else 0, "ok": 1, "emptyok": 1}
            nodes.append(nd)
            if kids is None:
                return
            nd["nch"] = len(kids)
            fi, _pos = self.focus_index(w, kids)
            nd["focus"] = fi
            if kids:
                try:
                    f = w.focus
                    nd["ok"] = 1 if (0 <= fi < len(kids) and self.base(f) is self.base(kids[fi])) else 0
                except Exception:  # noqa: BLE001
                    nd["ok"] = 0
            else:
                try:
                    f = w.focus
                except Exception:  # noqa: BLE001
                    f = "raised"
                raised = False
                try:
                    w.focus_position  # noqa: B018
                except IndexError:
                    raised = True
                except Exception:  # noqa: BLE001
                    raised = False
                nd["emptyok"] = 1 if (f is None and raised) else 0
            for i, k in enumerate(kids):
                visit(k, w._vf_id, i)

        visit(root, 0, 0)
        return nodes

    def containers(self, root):
        out = []

        def visit(w):
            w = self.base(w)
            kids = self.children(w)
            if kids is None:
                return
            out.append(w)
            for k in kids:
                visit(k)

        visit(root)
        return out

    def invalidate_all(self, root):
        def visit(w):
            w = self.base(w)
            kids = self.children(w)
            w._invalidate()
            for k in kids or []:
                visit(k)

        visit(root)

    # ---- addressing -------------------------------------------------------------------------------
    def positions(self, w):
        """[(position, child)] of a container, the positions being what focus_position / set_focus_path take."""
        u = self.u
        if isinstance(w, (u.Pile, u.Columns, u.GridFlow)):
            return [(i, c) for i, (c, _) in enumerate(w.contents)]
        if isinstance(w, u.ListBox):
            return list(enumerate(w.body))
        if isinstance(w, u.Frame):
            return [(nm, getattr(w, nm)) for nm in ("header", "body", "footer") if getattr(w, nm) is not None]
        if isinstance(w, u.Overlay):
            return [(1, w.top_w)]      # the bottom widget cannot take the focus
        return []

    def path_to(self, root, target):
        """positions leading from the root container to `target` (a container), or None when it cannot take the focus."""
        def visit(w, acc):
            w = self.base(w)
            if w is target:
                return acc
            for pos, k in self.positions(w):
                r = visit(k, [*acc, pos])
                if r is not None:
                    return r
            return None

        return visit(root, [])


EVENT_DEFAULTS = {"recv": [], "ate": 0, "ret": "same", "key": "", "samestruct": 0, "target": 0, "want": -1, "rfocus": [], "way": "",
                  "p_saved": [], "p_back": [], "p_later": [], "pre": [], "pendpre": [], "firstpre": [], "pend": [], "pendfirst": [], "moves": []}


class History:
    """One history on one tree.  Every operation appends ONE event: the operation, what it returned / raised, the focus indices
    read right after it (`foc`), then - unless layout=False - a rendering, then the node table (`post`)."""

    def __init__(self, seed, fam, depth, deep=False):
        import random

        self.seed, self.fam = seed, fam
        self.rng = rng = random.Random(seed)
        self.wd = wd = World(rng, wide=fam != "mix")
        self.u = wd.u
        self.ev = []
        self.W = 14
        self.lb = None
        if fam == "mix":
            self.root = wd.box(depth)
            # most histories at the usual size, some on a screen too short for everything (trimmed header / footer / items)
            self.H = rng.choice([7, 7, 7, 7, 4, 3, 2])
        elif fam == "unsel":
            for _ in range(6):      # a tree with a container that has an unselectable child the focus can be put on
                self.root = wd.box(depth)
                if self.unsel_candidates():
                    break
            self.H = rng.choice([7, 7, 7, 5])
        elif fam == "hidecols":
            self.W = rng.randint(5, 16)
            self.root = self.build_hidecols(deep)
            self.H = rng.choice([7, 7, 7, 5, 3]) if not deep else rng.choice([9, 9, 7, 4])
        else:
            self.root = self.build_longlist()
            self.H = rng.choice([7, 7, 6, 5, 4, 3])

    # ---- trees of the "hidecols" family: rows of given-width columns wider than the screen under a Pile / ListBox ------------
    def build_hidecols(self, deep):
        wd, u, rng = self.wd, self.u, self.rng
        W = self.W

        def row():
            n = rng.randint(2, 8 if deep else 6)
            kids = []
            for _ in range(n):
                if rng.random() < 0.6:
                    w = wd.cursor_leaf(W, accepts=rng.random() < 0.92) if rng.random() < 0.6 else wd.leaf(sel=True)
                else:
                    w = wd.leaf(sel=False)
                kids.append((rng.randint(1, 6), w) if rng.random() < 0.88 else ("weight", rng.randint(1, 2), w))
            if not any(k[-1].selectable() for k in kids):
                j = rng.randrange(n)
                kids[j] = (*kids[j][:-1], wd.cursor_leaf(W))
            return wd.tag(wd.Columns(kids, dividechars=rng.choice([0, 0, 1, 1, 2]), min_width=rng.choice([1, 1, 2])))

        def plain():
            return wd.cursor_leaf(W) if rng.random() < 0.7 else wd.leaf()

        items = [plain()]
        self.rows = []
        for _ in range(rng.randint(1, 3 if deep else 2)):
            r = row()
            self.rows.append(r)
            items.append(r)
            if rng.random() < 0.8:
                items.append(plain())
        if rng.random() < 0.3:
            del items[0]
        if len(items) == 1:
            items.append(wd.cursor_leaf(W))
        if rng.random() < 0.5:
            self.parent = wd.tag(u.Pile(items))
            return u.Filler(self.parent, valign="top")
        self.parent = self.lb = wd.tag(u.ListBox(rng.choice([u.SimpleFocusListWalker, u.SimpleListWalker])(items)))
        return self.parent

    # ---- trees of the "longlist" family ------------------------------------------------------------------------------
    def build_longlist(self):
        wd, u, rng = self.wd, self.u, self.rng
        n = rng.randint(6, 24)
        items = []
        for _ in range(n):
            q = rng.random()
            if q < 0.8:
                items.append(wd.leaf(sel=rng.random() < 0.7))
            elif q < 0.92:
                items.append(wd.tag(u.Pile([wd.leaf() for _ in range(2)])))
            else:
                items.append(wd.tag(wd.Columns([wd.leaf() for _ in range(2)], dividechars=1)))
        walker = rng.choice([u.SimpleFocusListWalker, u.SimpleListWalker])(items)
        self.walker_kind = type(walker).__name__
        self.lb = lb = wd.tag(u.ListBox(walker))
        wrap = rng.choice(["bare", "frame", "frame", "frame2", "pile", "columns", "overlay"])
        if wrap == "bare":
            return lb
        if wrap in ("frame", "frame2"):
            f = wd.tag(u.Frame(lb, header=wd.leaf() if rng.random() < 0.6 else None, footer=wd.leaf() if rng.random() < 0.6 else None, focus_part="body"))
            if wrap == "frame2":
                f = wd.tag(u.Frame(f, header=wd.leaf() if rng.random() < 0.5 else None, footer=None, focus_part="body"))
            return f
        if wrap == "pile":
            kids = [("pack", wd.leaf()), ("weight", 1, lb)]
            if rng.random() < 0.5:
                kids.reverse()
            return wd.tag(u.Pile(kids, focus_item=lb))
        if wrap == "columns":
            return wd.tag(wd.Columns([("weight", 3, lb), ("weight", 1, u.Filler(wd.leaf(), valign="top"))], dividechars=1))
        return wd.tag(u.Overlay(lb, u.Filler(wd.leaf(), valign="top"), "center", 10, "middle", 4))

    # ---- recording ----------------------------------------------------------------------------------------------------
    def render(self):
        # empty the canvas cache only: the widgets' own layout caches (GridFlow's display widget, Columns' widths, ...)
        # stay as the history left them, so staleness there is observable
        wd = self.wd
        self.u.CanvasCache.clear()
        del wd.rfocus[:]
        self.root.render((self.W, self.H), True)
        return list(wd.rfocus)

    def path(self):
        b = self.wd.base(self.root)
        return ["/"] + ([str(p) for p in b.get_focus_path()] if self.wd.children(b) is not None else [])    # "/": a path is never the empty sequence

    def pending(self):
        """ids of the ListBoxes with a focus assignment awaiting the next layout, and of those never laid out yet"""
        pend, first = [], []
        for c in self.wd.containers(self.root):
            if isinstance(c, self.u.ListBox):
                if c.set_focus_pending == "first selectable":
                    first.append(c._vf_id)
                elif c.set_focus_pending:
                    pend.append(c._vf_id)
        return pend, first

    def last_post(self):
        return self.ev[-1]["post"]

    def event(self, t, exc, expect, layout=True, **kw):
        wd, root = self.wd, self.root
        e = {"t": t, "exc": exc, "expect": expect, "short": 1 if self.H < 7 else 0, "laid": 0, "foc": [], "post": []}
        for k, v in EVENT_DEFAULTS.items():
            e[k] = list(v) if isinstance(v, list) else v
        e.update(kw)
        e["soft"] = ""
        if t in ("key", "press", "init", "edit", "setcontents", "render") and exc:
            # the property says nothing about these calls raising (rendering is C01): recorded as DIVERGENCE
            e["soft"], e["exc"] = exc, ""
        selnow = {}
        try:      # selectable() and the focus indices as the operation left them, before any rendering refreshes layout caches
            for c in wd.containers(root):
                selnow[c._vf_id] = 1 if c.selectable() else 0
            e["foc"] = [{"id": nd["id"], "nch": nd["nch"], "focus": nd["focus"]} for nd in wd.table(root) if not nd["leaf"]]
            e["pend"], e["pendfirst"] = self.pending()
        except Exception:  # noqa: BLE001
            selnow = {}
            e["foc"] = []
        if layout and (not e["exc"] or expect):
            try:
                e["rfocus"] = self.render()
                e["laid"] = 1
            except Exception as ex:  # noqa: BLE001
                e["soft"] = e["soft"] or ("render:" + type(ex).__name__)
                e["rfocus"] = []
                e["laid"] = 0
        e["moves"] = list(wd.moves)      # cursors sent into Columns by the operation and by the layout after it
        del wd.moves[:]
        try:
            e["post"] = wd.table(root)
            for nd in e["post"]:
                if nd["id"] in selnow:
                    nd["sel"] = selnow[nd["id"]]
            if e["p_saved"]:
                e["p_later"] = self.path()[:len(e["p_saved"])] if t == "setpath" else self.path()
        except Exception as ex:  # noqa: BLE001
            e["post"] = self.ev[-1]["post"] if self.ev else []
            if not e["exc"]:
                e["exc"] = "project:" + type(ex).__name__
        self.ev.append(e)
        return e

    def stop(self):
        e = self.ev[-1]
        return bool((e["exc"] and not e["expect"]) or e["soft"])

    def init(self):
        try:
            self.wd.table(self.root)
            self.event("init", "", "")
            return True
        except Exception as ex:  # noqa: BLE001
            e = {"t": "init", "exc": "build:" + type(ex).__name__, "expect": "", "short": 0, "laid": 0, "foc": [], "post": [], "soft": ""}
            e.update({k: (list(v) if isinstance(v, list) else v) for k, v in EVENT_DEFAULTS.items()})
            self.ev.append(e)
            return False

    # ---- operations ---------------------------------------------------------------------------------------------------
    def op_key(self, key, layout=True):
        wd = self.wd
        if not wd.base(self.root).selectable():
            return False
        pre = self.last_post()
        pendpre, first = self.pending()
        del wd.recv[:]
        wd.handled[0] = 0
        ret, exc = "?", ""
        try:
            ret = self.root.keypress((self.W, self.H), key)
        except Exception as ex:  # noqa: BLE001
            exc = type(ex).__name__
        self.event("key", exc, "", layout=layout, pre=pre, pendpre=pendpre, firstpre=first, key=key, recv=list(wd.recv), ate=wd.handled[0],
                   ret="same" if (exc or ret == key) else ("none" if ret is None else "other"), samestruct=1)
        return True

    def op_press(self):
        exc = ""
        try:
            self.root.mouse_event((self.W, self.H), "mouse press", 1, self.rng.randrange(self.W), self.rng.randrange(self.H), True)
        except Exception as ex:  # noqa: BLE001
            exc = type(ex).__name__
        self.event("press", exc, "")

    def want_index(self, c, pos):
        """index among the children (as the node table lists them) of the child a VALID position names, else -1"""
        for i, (p, _k) in enumerate(self.wd.positions(c) if not isinstance(c, self.u.Overlay) else [(0, None), (1, None)]):
            if p == pos and type(p) is type(pos):
                return i
        return -1

    def op_setfocus(self, c, pos, way="position", layout=True, widget=None, coming_from=None):
        u = self.u
        want = self.want_index(c, pos)
        if isinstance(c, u.Overlay) and pos != 1:
            want = -1
        expect = "" if want >= 0 else "IndexError"
        exc = ""
        try:
            with warnings.catch_warnings():
                warnings.simplefilter("ignore")
                if way == "position":
                    c.focus_position = pos
                elif way == "set_focus":           # the older spelling, by position
                    if isinstance(c, u.ListBox):
                        c.set_focus(pos, coming_from)
                    else:
                        c.set_focus(pos)
                elif way == "set_focus_widget":    # ... and by child widget (Pile, Columns, GridFlow)
                    c.set_focus(widget)
                elif way == "walker":              # the list walker's own focus
                    c.body.set_focus(pos)
                else:
                    raise AssertionError(way)
        except Exception as ex:  # noqa: BLE001
            exc = type(ex).__name__
        self.event("setfocus", exc, expect, layout=layout, target=c._vf_id, want=want, way=way)

    def op_setpath(self, positions, layout=True, way="path"):
        """set_focus_path() from the root with a path that addresses existing children"""
        exc = ""
        saved = ["/"] + [str(p) for p in positions]
        back = ["?"]
        try:
            self.wd.base(self.root).set_focus_path(positions)
            back = self.path()[:len(saved)]
        except Exception as ex:  # noqa: BLE001
            exc = type(ex).__name__
        self.event("setpath", exc, "", layout=layout, p_saved=saved, p_back=back, way=way)

    def op_render(self):
        self.event("render", "", "")

    def op_roundtrip(self, between):
        """read the focus path, let `between()` move the focus elsewhere, write the path back, read it again (and once more
        after the layout that follows)"""
        wd = self.wd
        exc = ""
        saved = None
        try:
            saved = wd.base(self.root).get_focus_path() if wd.children(wd.base(self.root)) is not None else None
        except Exception as ex:  # noqa: BLE001
            exc = type(ex).__name__
        if saved is None and not exc:
            return False
        back = ["?"]
        if not exc:
            try:
                between()
            except Exception:  # noqa: BLE001  (a key raising is not C08's business; skip the round trip)
                return False
            try:
                wd.base(self.root).set_focus_path(saved)
                back = self.path()
            except Exception as ex:  # noqa: BLE001
                exc = type(ex).__name__
        self.event("roundtrip", exc, "", p_saved=["/"] + [str(p) for p in (saved or [])], p_back=back)
        return True

    def op_edit_mix(self, c):
        wd, u, rng = self.wd, self.u, self.rng
        kids = wd.children(c)
        t = "edit"
        exc = ""
        try:
            if isinstance(c, (u.Pile, u.Columns, u.GridFlow)):
                opt = c.options()
                q = rng.random()
                if q < 0.35:
                    c.contents.insert(rng.randint(0, len(kids)), (wd.leaf(), opt))
                elif q < 0.5 and kids:
                    del c.contents[rng.randrange(len(kids))]
                elif q < 0.6:   # slice deletion incl. extended and negative steps (valid for any list)
                    a = rng.choice([None, 0, 1, 2, -1, -2])
                    b = rng.choice([None, None, 0, 1, 3, -1])
                    k = rng.choice([None, 1, 2, 2, 3, -1, -2])
                    del c.contents[a:b:k]
                elif q < 0.9:
                    c.contents[:] = [(wd.leaf(), opt) for _ in range(rng.randint(0, 3))]
                    t = "setcontents"
                else:
                    c.contents.clear()
                    t = "setcontents"
            elif isinstance(c, u.ListBox):
                if rng.random() < 0.5 or not kids:
                    c.body.insert(rng.randint(0, len(kids)), wd.leaf())
                else:
                    del c.body[rng.randrange(len(kids))]
            elif isinstance(c, u.Frame):
                part = rng.choice(["header", "footer"])
                q = rng.random()
                if q < 0.5:
                    setattr(c, part, wd.leaf() if rng.random() < 0.6 else None)
                elif q < 0.75 and getattr(c, part) is not None:
                    del c.contents[part]
                else:
                    c.contents[part] = (wd.leaf(), None)
            else:
                return False
        except Exception as ex:  # noqa: BLE001
            exc = type(ex).__name__
        self.event(t, exc, "", target=c._vf_id)
        return True

    # ---- family "mix": the original random histories ---------------------------------------------------------------------
    def run_mix(self, nops):
        wd, u, rng, root = self.wd, self.u, self.rng, self.root
        for _ in range(nops):
            r = rng.random()
            conts = wd.containers(root)
            if r < 0.4:
                key = rng.choice(KEYS)
                if not self.op_key(key):
                    continue
            elif r < 0.5:
                self.op_press()
            elif r < 0.65 and conts:
                c = rng.choice(conts)
                kids = wd.children(c)
                if isinstance(c, u.Frame):
                    pos = rng.choice(["header", "body", "footer", "nope"])
                elif isinstance(c, u.Overlay):
                    pos = rng.choice([1, 1, 0, 2])
                else:
                    pos = rng.randint(-1, len(kids) + 1)
                self.op_setfocus(c, pos)
            elif r < 0.75:
                def between():
                    if wd.base(root).selectable():
                        for _k in range(rng.randint(1, 3)):
                            root.keypress((self.W, self.H), rng.choice(ARROWS))
                if not self.op_roundtrip(between):
                    continue
            elif conts:
                if not self.op_edit_mix(rng.choice(conts)):
                    continue
            else:
                continue
            if self.stop():
                break

    # ---- family "unsel": the focus put on an unselectable child in every public way, then every key ------------------------
    def unsel_candidates(self):
        """(container, [indices of unselectable direct children]) for the containers the focus can be led to"""
        wd, u = self.wd, self.u
        out = []
        for c in wd.containers(self.root):
            if isinstance(c, u.Overlay) or wd.path_to(self.root, c) is None:
                continue
            idx = [i for i, (_p, k) in enumerate(wd.positions(c)) if not wd.base(k).selectable()]
            if idx:
                out.append((c, idx))
        return out

    def on_target(self, c, child):
        """the root's focus path runs through container c and c's focus is `child`"""
        wd = self.wd
        w = wd.base(self.root)
        while wd.children(w) is not None:
            try:
                f = w.focus
            except Exception:  # noqa: BLE001
                return False
            if w is c:
                return f is not None and wd.base(f) is child
            if f is None:
                return False
            w = wd.base(f)
        return False

    def place(self, c, i, way, layout):
        """put the focus of container c on its i-th child (an unselectable one) by `way`; returns the child now in focus"""
        wd, u, rng = self.wd, self.u, self.rng
        poss = wd.positions(c)
        pos, child = poss[i]
        child = wd.base(child)
        lead = wd.path_to(self.root, c)
        islist = isinstance(c, (u.Pile, u.Columns, u.GridFlow))
        if way == "path" or lead is None:
            self.op_setpath([*(lead or []), pos], layout=layout)
            return child
        if lead and not self.on_target_container(c):
            self.op_setpath(lead, layout=rng.random() < 0.5, way="lead")
            if self.stop():
                return child
        if way == "set_focus_widget" and islist:
            self.op_setfocus(c, pos, way=way, layout=layout, widget=poss[i][1])
        elif way == "set_focus" and not isinstance(c, u.Overlay):
            self.op_setfocus(c, pos, way=way, layout=layout, coming_from=rng.choice([None, "above", "below"]))
        elif way == "walker" and isinstance(c, u.ListBox):
            self.op_setfocus(c, pos, way=way, layout=layout)
        elif way == "replace" and (islist or isinstance(c, u.ListBox) or (isinstance(c, u.Frame) and pos != "body")):
            # the focus sits on a child which is then replaced in place by an unselectable one (a Frame's body stays: it is a box widget)
            j = i if isinstance(c, u.Frame) else rng.randrange(len(poss))
            jpos = poss[j][0]
            self.op_setfocus(c, jpos, layout=rng.random() < 0.5)
            if self.stop():
                return child
            child = wd.leaf(sel=False)
            exc = ""
            try:
                if islist:
                    c.contents[j] = (child, c.contents[j][1])
                elif isinstance(c, u.ListBox):
                    c.body[j] = child
                else:
                    c.contents[jpos] = (child, None)
            except Exception as ex:  # noqa: BLE001
                exc = type(ex).__name__
            self.event("edit", exc, "", layout=layout, target=c._vf_id, way="replace")
        elif way == "delete" and (islist or isinstance(c, u.ListBox)) and i > 0:
            # the focus sits on the child before, which is then deleted: the focus index stays and names the unselectable child
            self.op_setfocus(c, poss[i - 1][0], layout=rng.random() < 0.5)
            if self.stop():
                return child
            exc = ""
            try:
                if islist:
                    del c.contents[i - 1]
                else:
                    del c.body[i - 1]
            except Exception as ex:  # noqa: BLE001
                exc = type(ex).__name__
            self.event("edit", exc, "", layout=layout, target=c._vf_id, way="delete")
        else:
            self.op_setfocus(c, pos, way="position", layout=layout)
        return child

    def on_target_container(self, c):
        wd = self.wd
        w = wd.base(self.root)
        while wd.children(w) is not None:
            if w is c:
                return True
            try:
                f = w.focus
            except Exception:  # noqa: BLE001
                return False
            if f is None:
                return False
            w = wd.base(f)
        return False

    WAYS = ["position", "path", "set_focus", "set_focus_widget", "walker", "replace", "delete"]

    def run_unsel(self, rounds):
        wd, rng = self.wd, self.rng
        for _ in range(rounds):
            cands = self.unsel_candidates()
            if not cands:
                return
            both = [(c, idx) for c, idx in cands if c.selectable()]
            c, idx = rng.choice(both if (both and rng.random() < 0.8) else cands)
            i = rng.choice(idx)
            child = self.place(c, i, rng.choice(self.WAYS), layout=rng.random() < 0.6)
            if self.stop():
                return
            keys = list(ALPHABET)
            rng.shuffle(keys)
            for key in keys:
                if not self.on_target(c, child):
                    # the key before moved the focus away (or an edit went elsewhere): put it back, by another way
                    poss = wd.positions(c)
                    i = next((j for j, (_p, k) in enumerate(poss) if wd.base(k) is child), None)
                    if i is None:
                        break
                    child = self.place(c, i, rng.choice(self.WAYS), layout=rng.random() < 0.6)
                    if self.stop():
                        return
                if not self.op_key(key, layout=rng.random() < 0.8):
                    break
                if self.stop():
                    return

    # ---- family "longlist": far jumps in a ListBox longer than its viewport, then layout, path re-read and keys ------------
    def lb_jump(self, pos, layout):
        wd, rng, lb = self.wd, self.rng, self.lb
        way = rng.choice(["position", "position", "path", "path", "set_focus", "walker"])
        if way == "path" and 0 <= pos < len(lb.body):
            self.op_setpath([*wd.path_to(self.root, lb), pos], layout=layout)
        else:
            self.op_setfocus(lb, pos, way="position" if way == "path" else way, layout=layout, coming_from=rng.choice([None, "above", "below"]))

    def run_longlist(self, nops):
        wd, rng, lb, root = self.wd, self.rng, self.lb, self.root
        for _ in range(nops):
            r = rng.random()
            n = len(lb.body)
            if r < 0.3 and n:
                pos = rng.randrange(n) if rng.random() < 0.9 else rng.choice([-1, n, n + 1])
                self.lb_jump(pos, layout=rng.random() < 0.6)
            elif r < 0.55:
                if not self.op_key(rng.choice(ALPHABET if rng.random() < 0.6 else NAVKEYS), layout=rng.random() < 0.8):
                    continue
            elif r < 0.63:
                self.op_render()
            elif r < 0.7:
                self.op_press()
            elif r < 0.88 and n:
                def between():
                    # go somewhere else (mostly far away) and use the list there
                    lb.focus_position = rng.randrange(len(lb.body))
                    if rng.random() < 0.7:
                        self.u.CanvasCache.clear()
                        root.render((self.W, self.H), True)
                    if rng.random() < 0.5 and wd.base(root).selectable():
                        root.keypress((self.W, self.H), rng.choice(NAVKEYS))
                if not self.op_roundtrip(between):
                    continue
            else:
                exc = ""
                try:
                    if rng.random() < 0.5 or n < 4:
                        lb.body.insert(rng.randint(0, n), wd.leaf())
                    else:
                        del lb.body[rng.randrange(n)]
                except Exception as ex:  # noqa: BLE001
                    exc = type(ex).__name__
                self.event("edit", exc, "", target=lb._vf_id)
            if self.stop():
                break


    # ---- family "hidecols": the row's own focus far right (leftmost columns hidden), the parent's focus elsewhere, then up / down
    # (page keys) INTO the row: the parent sends the cursor into the Columns ------------------------------------------------
    def run_hidecols(self, rounds):
        wd, u, rng, par = self.wd, self.u, self.rng, self.parent
        islb = isinstance(par, u.ListBox)
        for _ in range(rounds):
            c = rng.choice(self.rows)
            kids = wd.children(par)
            ri = next((i for i, k in enumerate(kids) if wd.base(k) is c), None)
            n = len(c.contents)
            if ri is None or not n:
                return
            # 1. the row's own focus: mostly far right
            j = rng.randrange(n) if rng.random() < 0.35 else max(0, n - 1 - rng.choice([0, 0, 0, 1, 2]))
            if rng.random() < 0.5:
                self.op_setfocus(c, j, way=rng.choice(["position", "set_focus"]), layout=rng.random() < 0.5)
            else:
                self.op_setpath([*wd.path_to(self.root, par), ri, j], layout=rng.random() < 0.5)
            if self.stop():
                return
            # 2. the parent's focus elsewhere, on a selectable child; the cursor column there is set by hand (a probe's own state)
            others = [i for i, k in enumerate(kids) if i != ri and wd.base(k).selectable()]
            if not others:
                continue
            oi = rng.choice(others)
            ok = wd.base(kids[oi])
            if isinstance(ok, wd.CursorLeaf) and rng.random() < 0.7:
                ok.pref = rng.randrange(self.W) if rng.random() < 0.9 else rng.choice(["left", "right"])
            self.op_setfocus(par, oi, way=rng.choice(["position", "position", "set_focus", "walker"] if islb else ["position", "set_focus"]),
                             layout=rng.random() < 0.75, coming_from=rng.choice([None, "above", "below"]))
            if self.stop():
                return
            # 3. towards the row with the keys of the parent
            down = oi < ri
            for _k in range(abs(oi - ri) + 1):
                try:
                    if par.focus_position == ri:
                        break
                except IndexError:
                    return
                key = ("down" if down else "up") if (not islb or rng.random() < 0.8) else ("page down" if down else "page up")
                if not self.op_key(key, layout=rng.random() < 0.8):
                    return
                if self.stop():
                    return
            # 4. and a few keys more (the next key goes to the column the cursor was given to)
            for _k in range(rng.choice([0, 1, 1, 2])):
                if not self.op_key(rng.choice(["left", "right", "x", "up", "down", "enter", "home", "end"]), layout=rng.random() < 0.8):
                    return
                if self.stop():
                    return


QUICK_SIZES = {"mix": 1500, "unsel": 150, "longlist": 400, "hidecols": 300}
OFFSETS = {"mix": 0, "unsel": 400000, "longlist": 700000, "hidecols": 900000}
FAMILIES = {"mix": 12, "unsel": 2, "longlist": 14, "hidecols": 3}     # family -> default length (operations / placement rounds)


def run_history(seed, nops=None, depth=None, fam="mix"):
    if depth is None:
        depth = 2 if seed % 3 else 3
    if nops is None:
        nops = FAMILIES[fam]
    # the histories only the thorough tier reaches (index beyond the quick tier's) are the deeper ones: a function of the seed alone
    deep = fam == "hidecols" and (seed % 1000003) - OFFSETS[fam] >= QUICK_SIZES[fam]
    if deep:
        nops *= 2
    h = History(seed, fam, depth, deep)
    out = {"seed": seed, "fam": fam, "ev": h.ev}
    if fam == "longlist":
        out["walker"] = getattr(h, "walker_kind", "")
    if not h.init():
        return out
    {"mix": h.run_mix, "unsel": h.run_unsel, "longlist": h.run_longlist, "hidecols": h.run_hidecols}[fam](nops)
    return out


MC_CFG = """CONSTANTS MaxKids = {mk}
ListLen = {ll}
View = 2
Wide = {wide}
Variant = "{variant}"
ColW = 2
RowW = {roww}
Div = {div}
SPECIFICATION Spec
INVARIANT FocusInv
INVARIANT ColsFocusInv
INVARIANT KeyOfferedOnPath
INVARIANT UnhandledKeyComesBack
INVARIANT ArrowLandsOnSelectable
INVARIANT AssignmentKept
INVARIANT LayoutKeeps
INVARIANT CursorIntoColumnsOk
CHECK_DEADLOCK FALSE
"""
# wrong designs the model must refute: variant -> the invariants one of which TLC has to report
WRONG = {"guardOnFocusChild": {"UnhandledKeyComesBack"}, "staleWalker": {"LayoutKeeps", "KeyOfferedOnPath", "UnhandledKeyComesBack"},
         "shownIndex": {"CursorIntoColumnsOk", "ArrowLandsOnSelectable"}}


def _handle(chk, traces, res):
    for ti, l, why in res.rejects:
        tr = traces[ti]
        e = tr["ev"][l - 1]
        kinds = sorted({n["kind"] for n in e["post"]})
        target_kind = next((n["kind"] for n in e["post"] if n["id"] == e.get("target")), "")
        sig = {"event": e["t"], "exc": e["exc"], "expect": e["expect"], "key": e.get("key", ""), "target_kind": target_kind, "fam": tr.get("fam", "mix"),
               "way": e.get("way", "")}
        if "cursor_sent_into_columns" in why:
            sig["hidden_left"] = 1 if any(x == 0 for m in e.get("moves", []) for x in m["widths"]) else 0
        chk.reject(f"C08.{why}", sig, {"seed": tr["seed"], "fam": tr.get("fam", "mix"), "nops": len(tr["ev"]) - 1, "event_index": l, "kinds": kinds,
                                       "observed": {k: e[k] for k in ("t", "exc", "expect", "key", "recv", "ate", "ret", "rfocus", "target", "want", "way", "laid",
                                                                      "foc", "p_saved", "p_back", "p_later", "moves")},
                                       "pre": e["pre"], "post": e["post"]})


def _far(e, prev_post):
    """a ListBox assignment whose target is further from the old focus than the screen is high (coverage only)"""
    t = next((n for n in prev_post if n["id"] == e["target"]), None)
    return bool(t and t["kind"] == "ListBox" and e["want"] >= 0 and abs(e["want"] - t["focus"]) >= 7)


def _count(chk, traces, kinds, nontriv):
    """coverage / vacuity counters of one chunk of traces (no verdicts)"""
    def inc(k):
        kinds[k] = kinds.get(k, 0) + 1

    for t in traces:
        fam = t.get("fam", "mix")
        inc("family." + fam)
        if t.get("walker"):
            inc("walker." + t["walker"])
        prev = None
        for e in t["ev"]:
            inc(e["t"])
            if e.get("soft"):
                chk.divergence(f"{e['t']}_raised_{e['soft']}", {"seed": t["seed"], "fam": fam, "tree": [(n["kind"], n["nch"]) for n in e["post"]][:12]})
            if e["expect"]:
                inc("invalid_focus_assignment")
            if e["way"]:
                inc("way." + e["way"])
            if not e["laid"]:
                inc("no_layout_after." + e["t"])
            if e["pend"] and e["laid"] and any(f["focus"] != n["focus"] for f in e["foc"] for n in e["post"] if n["id"] == f["id"] and n["nch"] == f["nch"]):
                inc("listbox_layout_placed_cursor_in_new_item")
            for nd in e["post"]:
                if not nd["leaf"]:
                    inc("container." + nd["kind"])
                    if nd["nch"] == 0:
                        inc("empty_container")
            for m in e.get("moves", []):
                inc("cursor_sent_into_columns")
                hid = sum(1 for x in m["widths"] if x == 0)
                up = next((n["kind"] for n in e["post"] for c in e["post"] if c["id"] == m["id"] and n["id"] == c["parent"]), "root")
                if not m["ret"]:
                    inc("cursor_into_columns_refused")
                if m["colk"] != "int":
                    inc("cursor_into_columns_col." + m["colk"])
                if hid:
                    inc("cursor_into_columns_hidden_left")
                    inc("cursor_into_hidden_columns_under." + up)
                    inc(f"cursor_into_hidden_columns_k{min(hid, 3)}")
                    if m["div"]:
                        inc("cursor_into_hidden_columns_with_dividers")
                    if any(s_ and not x for s_, x in zip(m["sel"], m["widths"])):
                        inc("cursor_into_hidden_columns_hidden_selectable")
                    if e["t"] == "key":
                        inc("cursor_into_hidden_columns_key." + e["key"])
                    else:
                        inc("cursor_into_hidden_columns_by_layout")
                    if m["ret"] and m["after"] != m["before"]:
                        inc("cursor_into_hidden_columns_moved_focus")
                        nontriv.add(hash(json.dumps(m, sort_keys=True)))
            if e["t"] == "key":
                if e["key"] in ARROWS and any(a["focus"] != b["focus"] for a in e["pre"] for b in e["post"] if a["id"] == b["id"]):
                    inc("arrow_moved_focus")
                    nontriv.add(hash(json.dumps([e["pre"], e["key"]])))
                # a selectable container whose focus child is unselectable, on the focus path, when the key arrives
                kid = {(n["parent"], n["idx"]): n for n in e["pre"]}
                nd = next((n for n in e["pre"] if n["parent"] == 0), None)
                while nd and not nd["leaf"] and nd["focus"] >= 0:
                    ch = kid.get((nd["id"], nd["focus"]))
                    if ch is None:
                        break
                    if nd["sel"] and not ch["sel"]:
                        inc(f"key_on_unselectable_focus.{nd['kind']}")
                        inc("unsel_key." + e["key"])
                        if any(s["parent"] == nd["id"] and s["idx"] > ch["idx"] and s["sel"] for s in e["pre"]):
                            inc("key_on_unselectable_focus_selectable_below")
                        nontriv.add(hash(json.dumps([e["pre"], e["key"]])))
                    nd = ch
                if prev is not None and prev["t"] in ("setfocus", "setpath") and not prev["laid"] and not prev["exc"]:
                    inc("key_right_after_assignment")
                if e["pendpre"]:
                    inc("key_with_listbox_focus_change_pending")
            if e["t"] == "setfocus" and prev is not None and _far(e, prev["post"]):
                inc("far_jump" + ("_then_layout" if e["laid"] else "_without_layout"))
            if e["t"] == "roundtrip" and fam == "longlist":
                inc("roundtrip_longlist")
            prev = e


def run(chk):
    quick = chk.tier == "quick"
    pool = cf.ThreadPoolExecutor(4)
    mk, ll, wide = (3, 4, 0) if quick else (3, 6, 1)     # (4, 6, 1) with row widths 5 generates > 10^8 states: over the thorough budget on a busy machine
    futs = {"doc": pool.submit(tlc.mc, "FocusTree", MC_CFG.format(mk=mk, ll=ll, wide=wide, variant="doc", roww=3 if quick else 5, div=1), timeout=2400, workers=4 if quick else 5)}
    for v in WRONG:
        futs[v] = pool.submit(tlc.mc, "FocusTree", MC_CFG.format(mk=3, ll=4, wide=0, variant=v, roww=3, div=1), timeout=1200, workers=1)
    sizes = dict(QUICK_SIZES) if quick else {"mix": 24000, "unsel": 2000, "longlist": 8000, "hidecols": 8000}
    base = chk.seed * 1000003
    kinds, nontriv = {}, set()
    total = tlc.TVResult()
    tvpool = cf.ThreadPoolExecutor(4)      # trace validation runs while the next chunk of histories is executed
    inflight = []

    def gather(limit):
        while len(inflight) > limit:
            fut, trs = inflight.pop(0)
            res = fut.result()
            _handle(chk, trs, res)
            for f in ("traces", "events", "consumed", "states", "generated", "batches"):
                setattr(total, f, getattr(total, f) + getattr(res, f))
            total.rejects += res.rejects
            total.wall_s = max(total.wall_s, res.wall_s)

    samples = []
    for fam, n in sizes.items():
        off = OFFSETS[fam]
        step = {"mix": 300, "unsel": 50, "longlist": 200, "hidecols": 150}[fam]
        for lo in range(0, n, step):
            traces = [run_history(base + off + i, fam=fam) for i in range(lo, min(n, lo + step))]
            if lo == 0:
                tr = traces[0]
                samples.append({"seed": tr["seed"], "fam": fam, "first_tree": [(n_["kind"], n_["nch"], n_["sel"]) for n_ in tr["ev"][0]["post"]][:14],
                                "ops": [e["t"] + (":" + e["key"] if e["key"] else "") for e in tr["ev"]][:16]})
            _count(chk, traces, kinds, nontriv)
            inflight.append((tvpool.submit(tlc.validate, "FocusTreeTrace", traces, batch_events=6000, jobs=1, timeout=2400), traces))
            gather(8)
    gather(0)
    tvpool.shutdown()
    chk.add_tv("TV_FocusTreeTrace", total)
    r = futs["doc"].result()
    chk.add_mc("MC_FocusTree", r)
    if not r.ok:
        chk.reject("C08.model." + str(r.violated), {"model": "FocusTree"}, {"tlc_trace": r.trace[-5:]})
    refuted = {}
    for v, invs in WRONG.items():
        rw = futs[v].result()
        refuted[v] = rw.violated
        chk.cov["tlc_runs"].append({"run": "MC_FocusTree_wrong_" + v, "cmd": rw.cmd[-300:], "generated": rw.generated, "distinct": rw.distinct,
                                    "violated_as_demanded": rw.violated, "wall_s": round(rw.wall_s, 1)})
        if rw.ok or rw.violated not in invs:
            chk.reject("C08.model.wrong_design_not_refuted", {"model": "FocusTree", "variant": v}, {"violated": rw.violated})
    pool.shutdown()
    chk.cov["wrong_designs_refuted"] = refuted
    chk.cov["clause_counts"] = kinds
    chk.cov["distinct_nontrivial"] = len(nontriv)
    chk.cov["rule"] = ("seeded random nestings (depth <= 3) of Pile/Columns/GridFlow/Frame/Overlay/ListBox around probe leaves; family mix: histories of "
                       "keys, button-1 presses, valid and invalid focus_position assignments, focus-path round trips and contents edits; family unsel: "
                       "the focus put on an unselectable child (focus_position, set_focus_path, set_focus by index / widget, walker focus, in-place "
                       "replacement, deletion of the child before) followed by every key of a 22-key alphabet, with and without a rendering in "
                       "between; family longlist: ListBoxes of 6..24 items (both simple walkers) under Frame/Pile/Columns/Overlay with far jumps, "
                       "layouts, keys and far round trips; non-trivial = distinct (tree, key) pairs where an arrow moved a focus or the key met an "
                       "unselectable focus child of a selectable container")
    need = ["arrow_moved_focus", "empty_container", "invalid_focus_assignment", "setcontents", "roundtrip", "container.Frame", "container.Overlay",
            "container.GridFlow", "container.ListBox", "family.unsel", "family.longlist", "key_on_unselectable_focus.Pile",
            "key_on_unselectable_focus.Columns", "key_on_unselectable_focus.ListBox", "key_on_unselectable_focus.Frame", "key_on_unselectable_focus.GridFlow",
            "key_on_unselectable_focus_selectable_below", "key_right_after_assignment", "key_with_listbox_focus_change_pending", "far_jump_then_layout",
            "far_jump_without_layout", "roundtrip_longlist", "walker.SimpleListWalker", "walker.SimpleFocusListWalker", "setpath", "render",
            "no_layout_after.setfocus", "no_layout_after.key"]
    need += ["family.hidecols", "cursor_sent_into_columns", "cursor_into_columns_refused", "cursor_into_columns_col.left", "cursor_into_columns_hidden_left",
             "cursor_into_hidden_columns_under.Pile", "cursor_into_hidden_columns_under.ListBox", "cursor_into_hidden_columns_k1", "cursor_into_hidden_columns_k2",
             "cursor_into_hidden_columns_with_dividers", "cursor_into_hidden_columns_hidden_selectable", "cursor_into_hidden_columns_key.up",
             "cursor_into_hidden_columns_key.down", "cursor_into_hidden_columns_moved_focus"]
    need += ["way." + w for w in History.WAYS] + ["unsel_key." + k for k in ALPHABET]
    for v in need:
        if not kinds.get(v):
            chk.vacuity.append("driver." + v)
    for sm in samples:
        chk.sample(sm)
    chk.cov["trusted_base"] = ["TLC", "World.table(): projection of real containers to the node table (vf/props/c08.py)", "probe Leaf widget",
                               "History.pending(): reads ListBox.set_focus_pending to tell which ListBoxes have a focus change awaiting layout"]
    chk.assumptions += ["the same widget instance is never placed twice in one container", "keys are sent only when the root is selectable (as MainLoop does)",
                        "containers act on keys as documented: Pile up/down, Columns left/right, GridFlow the four arrows, ListBox up/down/page up/page down/home/end "
                        "(FocusTreeOps!Navigates); every other key is unhandled unless a leaf consumes it",
                        "a ListBox's very first layout may move its focus to the first visible selectable item; the layout completing a ListBox focus assignment "
                        "may place the cursor inside the new focus item, moving the focus of containers INSIDE that item onto a selectable child "
                        "(manual: 'ListBox uses move_cursor_to_coords when changing focus'); the ListBox's own focus must not move"]


def replay(chk, path):
    with open(path) as f:
        rp = json.load(f)["replay"]
    tr = run_history(rp["seed"], fam=rp.get("fam", "mix"))
    res = tlc.validate("FocusTreeTrace", [tr])
    chk.add_tv("replay", res)
    _handle(chk, [tr], res)
    chk.sample({"seed": rp["seed"], "fam": rp.get("fam", "mix")})
    return chk.finish()
