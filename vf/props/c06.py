"""C06 — the canvas cache is invisible: cached rendering equals fresh rendering.

Contract: spec/CanvasCacheOps.tla; design model of CanvasCache (store / fetch / invalidate / cleanup with the dependency
cascade, as coded, plus deliberately broken variants that TLC must refute): spec/CanvasCache.tla; trace specification:
spec/CanvasCacheTrace.tla.  See DESIGN.md §4 C06.

Binding.  Every history (TLC-simulated behaviours of CanvasCache.tla mapped onto concrete widgets, and seeded random
histories over a richer alphabet of operations on random widget trees) is executed on two identical real widget trees:

* tree 0 lives with the real CanvasCache: every render()/rows()/keypress() uses whatever the cache holds;
* the reference for each render()/rows() call is *the same tree with the caches emptied first*: a deep copy of the
  widget taken at that moment (so that the reference render cannot disturb tree 0: rendering has side effects in urwid),
  rendered while the three CanvasCache dictionaries are swapped for empty ones and with the per-widget layout caches
  (_cache_maxcol) reset;
* tree 1 (the twin) receives exactly the same operations but never sees a cache at all; its renderings are compared with
  the reference in Python and differences are reported as DIVERGENCE only (they show render side effects that a cache
  hit skips, which is outside the property statement), never as a verdict.

TLC (CanvasCacheTrace.tla) compares content, cursor, rows(), the answers of size-dependent queries (cursor coordinates, preferred
column, ends visible) and the later re-reading of every canvas that was handed out.
"""
from __future__ import annotations

import concurrent.futures as cf
import contextlib
import copy
import copyreg
import gc
import json
import random
import time
import warnings

from .. import tlc

# ------------------------------------------------------------------------------------------------
# vocabulary of the generated trees
# ------------------------------------------------------------------------------------------------
TEXTS = ["", "a", "hello", "hello world", "two\nlines", "a much longer text that wraps around", "字界 wide", "x" * 9, "tab end ",
         "one two three four five six"]
MARKUPS = [[("a1", "mark"), "up"], [("a2", "AB"), ("a1", "cd"), "ef gh"], ("a2", "all attr")]
LABELS = ["", "ok", "label", "long label text", "字"]
CAPTIONS = ["", "> ", "cap: "]
EDITS = ["", "x", "abc def", "line one\nline two", "0123456789abcdef"]
KEYS = ["a", "Z", " ", "backspace", "delete", "left", "right", "up", "down", "home", "end", "enter", "page up", "page down", "tab", "字"]
ATTRMAPS = [{None: "a1"}, {None: "a2"}, {"a1": "a2", None: "a1"}, {}]
ALIGNS = ["left", "center", "right"]
WRAPS = ["space", "any", "clip", "ellipsis"]
VALIGNS = ["top", "middle", "bottom"]
# layout families (long list boxes, Columns that do not all fit): every line / column is recognisable in the rendering
LINES = [f"line {i:02d}" for i in range(40)]
NAV_KEYS = ["down", "up", "page down", "page up", "end", "home", "down", "up"]
COL_KEYS = ["left", "right", "left", "right", "home", "end", "tab", "a", "up", "down"]
FLOW_LEAVES = ["Text", "Text", "Markup", "Edit", "Edit", "CheckBox", "Button", "ProgressBar", "Divider", "IntEdit", "Icon"]

_ATTR = {}


def _attr_id(a, cs):
    k = (repr(a), repr(cs))
    if k not in _ATTR:
        _ATTR[k] = len(_ATTR)
    return _ATTR[k]


def project(canv):
    """canvas -> [txt, att, cur]: sequences of ints only (see CanvasCacheOps Part 2)."""
    txt, att = [], []
    for row in canv.content():
        cps, runs = [], []
        for a, cs, seg in row:
            s = seg.decode("utf-8", "replace") if isinstance(seg, bytes) else seg
            cps.extend(ord(ch) for ch in s)
            aid = _attr_id(a, cs)
            if runs and runs[-2] == aid:
                runs[-1] += len(s)
            else:
                runs += [aid, len(s)]
        k = len(cps)
        while k and cps[k - 1] == 32:
            k -= 1
        txt.append([len(cps), *cps[:k]])
        att.append(runs)
    cur = canv.cursor
    return [txt, att, list(cur) if cur else []]


NOTHING = [[], [], []]


@contextlib.contextmanager
def empty_cache(CC):
    """The three CanvasCache dictionaries swapped for empty ones for the duration of the block."""
    saved = (CC._widgets, CC._refs, CC._deps)
    CC._widgets, CC._refs, CC._deps = {}, {}, {}
    try:
        yield
    finally:
        CC._widgets, CC._refs, CC._deps = saved


class Probe:
    """Call-through observer of CanvasCache.store / fetch for the duration of a history.  It decides nothing; it only lets a
    rejection say *which kind* of cached canvas answered (fields of rejection signatures):

    edit_focus_alias       an Edit's text layer (cached by Text.render's wrapper, which drops the focus flag because
                           Text.ignore_focus is set) answered although the Edit is now laid out for the other focus state;
    scroll_moved_by_render a cached canvas containing a Scrollable's canvas answered although that Scrollable's scroll
                           position is no longer the one the canvas was cut at, and every change of the position since
                           then was made inside render() (resolve-and-clamp for another size / focus), not by a mutator;
    scroll_follow_pending  a cached canvas containing a Scrollable's canvas answered although keypress() had left a
                           cursor-follow request (_old_cursor_coords, taken at the key press's size) that a render at this
                           size would act on."""

    def __init__(self, urwid, CC):
        import weakref

        self.u, self.CC = urwid, CC
        self.shift = weakref.WeakKeyDictionary()     # Edit text-layer canvas -> _shift_view_to_cursor it was laid out with
        self.trim = weakref.WeakKeyDictionary()      # Scrollable canvas -> (_trim_top after its render, op generation)
        self.gen = weakref.WeakKeyDictionary()       # Scrollable -> number of position changes made outside render()
        self.alias = 0
        self.scroll = 0
        self.follow = 0
        self.lb_clamp = 0     # a ListBox canvas was made at a height <= the stored offset of the focus (the view clamps it)
        self.cols_cut = 0     # a Columns canvas was made at a width where not every column is shown (the focus decides which)
        self.orig = None

    def reset(self):
        self.alias = self.scroll = self.follow = self.lb_clamp = self.cols_cut = 0

    def _scan(self, canv):
        stack = [canv]
        while stack:
            c = stack.pop()
            if c in self.trim:
                t0, g0 = self.trim[c]
                sw = c.widget_info[0] if c.widget_info else None
                if sw is not None and getattr(sw, "_trim_top", t0) != t0 and self.gen.get(sw, 0) == g0:
                    self.scroll += 1
                # keypress() left a cursor-follow request (_old_cursor_coords, taken at the size of the key press) that a
                # render at this size would act on, but the canvas cached for this size is still answered
                old = getattr(sw, "_old_cursor_coords", None)
                kids = getattr(c, "children", None)
                if old is not None and kids:
                    cur = kids[0][2].cursor
                    if cur is not None and tuple(old) != tuple(cur):
                        self.follow += 1
            for ch in getattr(c, "children", ()) or ():
                stack.append(ch[2])

    def __enter__(self):
        CC, probe = self.CC, self
        self.orig = (CC.__dict__["store"], CC.__dict__["fetch"])
        o_store, o_fetch = CC.store, CC.fetch
        Scrollable = getattr(self.u, "Scrollable", ())

        def store(cls, wcls, canvas):
            wi = canvas.widget_info
            if wi and isinstance(wi[0], probe.u.Edit) and wcls is probe.u.Text:
                probe.shift[canvas] = bool(getattr(wi[0], "_shift_view_to_cursor", False))
            if wi and Scrollable and isinstance(wi[0], Scrollable):
                probe.trim[canvas] = (wi[0]._trim_top, probe.gen.get(wi[0], 0))
            if wi and wcls is probe.u.ListBox and len(wi[1]) == 2 and wi[1][1] and getattr(wi[0], "offset_rows", 0) >= wi[1][1]:
                probe.lb_clamp += 1
            if wi and wcls is probe.u.Columns and wi[0]._cache_maxcol == wi[1][0]:
                cw = wi[0]._cache_column_widths
                if len(cw) < len(wi[0].contents) or 0 in cw:
                    probe.cols_cut += 1
            return o_store(wcls, canvas)

        def fetch(cls, widget, wcls, size, focus):
            canv = o_fetch(widget, wcls, size, focus)
            if canv is not None:
                if wcls is probe.u.Text and canv in probe.shift:
                    if probe.shift[canv] != bool(getattr(widget, "_shift_view_to_cursor", False)):
                        probe.alias += 1
                if probe.trim:
                    probe._scan(canv)
            return canv

        CC.store, CC.fetch = classmethod(store), classmethod(fetch)
        return self

    def __exit__(self, *a):
        self.CC.store, self.CC.fetch = self.orig
        return False


_COPY_READY = False


def _copy_support(urwid):
    """copy.deepcopy of widget trees: MonitoredList subclasses are rebuilt without firing their callbacks."""
    global _COPY_READY
    if _COPY_READY:
        return
    from urwid.widget.monitored_list import MonitoredFocusList, MonitoredList

    def rebuild(cls, items):
        y = cls.__new__(cls)
        list.extend(y, items)
        return y

    def reduce(x):
        return (rebuild, (type(x), list(x)), dict(x.__dict__))

    for k in (MonitoredList, MonitoredFocusList, urwid.SimpleListWalker, urwid.SimpleFocusListWalker):
        copyreg.pickle(k, reduce)

    def rebuild_delegating(cls):
        # BoxAdapter / AttrWrap forward unknown attributes to the wrapped widget: a half-built copy would recurse forever
        y = cls.__new__(cls)
        y.__dict__["_original_widget"] = None
        return y

    for k in (urwid.BoxAdapter, urwid.AttrWrap):
        copyreg.pickle(k, lambda x: (rebuild_delegating, (type(x),), dict(x.__dict__)))
    _COPY_READY = True


def clone(urwid, w):
    """A deep copy of widget w (its whole subtree and state) with every cache emptied."""
    memo = {}
    c = copy.deepcopy(w, memo)
    for v in list(memo.values()):
        if isinstance(v, urwid.Widget):
            if isinstance(v, (urwid.Pile, urwid.Columns, urwid.GridFlow)):
                # the constructor's closure over the *original* container is copied by reference: rebind it
                v._contents.set_focus_changed_callback(lambda f, v=v: v._invalidate())
            if getattr(v, "_cache_maxcol", None) is not None:
                v._cache_maxcol = None
    return c


# ------------------------------------------------------------------------------------------------
# tree descriptions (JSON-able) and their construction
# ------------------------------------------------------------------------------------------------
def gen_leaf(rng):
    k = rng.choice(FLOW_LEAVES)
    if k == "Text":
        return ["Text", rng.randrange(len(TEXTS)), rng.choice(ALIGNS), rng.choice(WRAPS[:2] if rng.random() < 0.8 else WRAPS)]
    if k == "Markup":
        return ["Markup", rng.randrange(len(MARKUPS))]
    if k == "Edit":
        return ["Edit", rng.randrange(len(CAPTIONS)), rng.randrange(len(EDITS)), rng.random() < 0.3, rng.choice(WRAPS[:2] if rng.random() < 0.8 else WRAPS[:3])]
    if k == "CheckBox":
        return ["CheckBox", rng.randrange(len(LABELS)), rng.random() < 0.5]
    if k == "Button":
        return ["Button", rng.randrange(len(LABELS))]
    if k == "ProgressBar":
        return ["ProgressBar", rng.choice([0, 10, 45, 100])]
    if k == "Divider":
        return ["Divider", rng.choice(["-", " ", "="])]
    if k == "IntEdit":
        return ["IntEdit", rng.choice([0, 7, 123])]
    return ["Icon", rng.randrange(len(LABELS))]


def gen_flow(rng, depth):
    if depth <= 0 or rng.random() < 0.25:
        return gen_leaf(rng)
    k = rng.choice(["Pile", "Pile", "Columns", "Columns", "GridFlow", "Padding", "AttrMap", "AttrMap", "Placeholder", "LineBox", "BoxAdapter"])
    if k == "Pile":
        return ["Pile", [gen_flow(rng, depth - 1) for _ in range(rng.randint(1, 3))]]
    if k == "Columns":
        return ["Columns", [gen_flow(rng, depth - 1) for _ in range(rng.randint(1, 3))], rng.choice([0, 1]),
                [rng.choice([0, 0, 4, 7]) for _ in range(3)]]
    if k == "GridFlow":
        return ["GridFlow", [gen_leaf(rng) for _ in range(rng.randint(1, 4))], rng.choice([4, 6, 9]), rng.choice([0, 1]), rng.choice([0, 1]),
                rng.choice(ALIGNS)]
    if k == "Padding":
        return ["Padding", gen_flow(rng, depth - 1), rng.choice(ALIGNS), rng.choice([0, 1, 2]), rng.choice([0, 1]),
                rng.choice([None, None, "pack", "pack", "clip", 6])]
    if k == "AttrMap":
        return ["AttrMap", gen_flow(rng, depth - 1), rng.randrange(len(ATTRMAPS)), rng.randrange(len(ATTRMAPS))]
    if k == "Placeholder":
        return ["Placeholder", gen_flow(rng, depth - 1)]
    if k == "LineBox":
        return ["LineBox", gen_flow(rng, depth - 1), rng.choice(LABELS[1:])]
    return ["BoxAdapter", gen_box(rng, depth - 1), rng.randint(1, 4)]


def gen_box(rng, depth):
    k = rng.choice(["ListBox", "ListBox", "ListBox", "Filler", "Filler", "Frame", "Scrollable", "ScrollBar", "PileB", "ColumnsB", "Overlay", "AttrMap",
                    "Placeholder", "LineBox", "Padding"] if depth > 0 else ["ListBox", "Filler", "SolidFill"])
    if k == "ListBox":
        return ["ListBox", [gen_flow(rng, max(0, depth - 1)) for _ in range(rng.randint(0, 5))], rng.choice(["focus", "simple"])]
    if k == "Filler":
        return ["Filler", gen_flow(rng, depth - 1), rng.choice(VALIGNS)]
    if k == "Frame":
        return ["Frame", gen_box(rng, depth - 1), gen_flow(rng, 0) if rng.random() < 0.7 else None, gen_flow(rng, 0) if rng.random() < 0.5 else None]
    if k in ("Scrollable", "ScrollBar"):
        # mostly taller than the view, so that the scroll position matters
        child = ["Pile", [gen_leaf(rng) for _ in range(rng.randint(3, 7))]] if rng.random() < 0.75 else gen_flow(rng, depth - 1)
        return ["Scrollable", child] if k == "Scrollable" else ["ScrollBar", ["Scrollable", child]]
    if k == "PileB":
        kids = [gen_flow(rng, depth - 1) if rng.random() < 0.5 else gen_box(rng, depth - 1) for _ in range(rng.randint(0, 2))]
        kids.insert(rng.randint(0, len(kids)), gen_box(rng, depth - 1))     # a Pile is a box widget only with a box child
        return ["PileB", kids]
    if k == "ColumnsB":
        return ["ColumnsB", [gen_box(rng, depth - 1) for _ in range(rng.randint(1, 2))], rng.choice([0, 1])]
    if k == "Overlay":
        return ["Overlay", gen_flow(rng, 0), gen_box(rng, depth - 1), rng.choice(ALIGNS), rng.choice([5, 8]), rng.choice(VALIGNS)]
    if k == "AttrMap":
        return ["AttrMapB", gen_box(rng, depth - 1), rng.randrange(len(ATTRMAPS)), rng.randrange(len(ATTRMAPS))]
    if k == "Placeholder":
        return ["PlaceholderB", gen_box(rng, depth - 1)]
    if k == "LineBox":
        return ["LineBoxB", gen_box(rng, depth - 1), rng.choice(LABELS[1:])]
    if k == "Padding":
        return ["PaddingB", gen_box(rng, depth - 1), rng.choice(ALIGNS), rng.choice([0, 1]), rng.choice([0, 1])]
    return ["SolidFill", rng.choice(["#", "."])]


BOX_KINDS = {"ListBox", "Filler", "Frame", "Scrollable", "ScrollBar", "PileB", "ColumnsB", "Overlay", "AttrMapB", "PlaceholderB", "LineBoxB",
             "PaddingB", "SolidFill"}


def sizing_of(desc):
    return "box" if desc[0] in BOX_KINDS else "flow"


class World:
    """Two identical widget trees, the live cache, the canvases the environment holds, and the recorded events."""

    def __init__(self, desc, sizes):
        import urwid
        from urwid.canvas import CanvasCache

        urwid.set_encoding("utf-8")
        _copy_support(urwid)
        self.u = urwid
        self.CC = CanvasCache
        CanvasCache.clear()
        self.nodes = ({}, {})
        self.meta = {}
        self.tags = {}
        self.counter = [0, 0]
        self.desc = desc
        self.sizes = [list(s) for s in sizes]
        self.root_sizing = sizing_of(desc[2] if desc[0] == "@" else desc)
        self.roots = [self.build(desc, 0)]
        with empty_cache(CanvasCache):
            self.roots.append(self.build(desc, 1))
        self.held = []
        self.ev = []
        self.keys = {}
        self.ops = []
        self.twin_diff = 0
        self.twin_diff_at = []
        self.twin_same = 0
        self.op_exc_diff = 0
        self.opn = 0                # operations (mutators, keys, ...) applied so far
        self.probe = Probe(urwid, CanvasCache)
        self.probe.__enter__()
        self.last_trim = {}

    def close(self):
        self.probe.__exit__()
        self.held.clear()
        self.CC.clear()

    def _scroll_positions(self, by_op):
        """Note which Scrollables of tree 0 changed their position, and whether an operation (not a render) did it."""
        S = getattr(self.u, "Scrollable", None)
        if S is None:
            return
        for w in self.nodes[0].values():
            if isinstance(w, S):
                t = w._trim_top
                if self.last_trim.get(id(w), t) != t and by_op:
                    self.probe.gen[w] = self.probe.gen.get(w, 0) + 1
                self.last_trim[id(w)] = t

    # ---- construction ----------------------------------------------------------------------
    def build(self, d, t):
        u = self.u
        if d[0] == "@":           # ["@", tag, desc]: names a node of the design model
            w = self.build(d[2], t)
            self.tags[d[1]] = self._last_id     # build() of a node sets _last_id last: the outermost node of d[2]
            return w
        nid = self.counter[t]
        self.counter[t] += 1
        k = d[0]
        B = lambda x: self.build(x, t)  # noqa: E731
        if k == "Text":
            w = u.Text(TEXTS[d[1]], align=d[2], wrap=d[3])
        elif k == "Line":
            w = u.Text(LINES[d[1] % len(LINES)] + ("\nmore" if len(d) > 2 and d[2] else ""))
        elif k == "LEdit":
            w = u.Edit(f"e{d[1]}:", "ab" * (1 + d[1] % 3))
        elif k == "Markup":
            m = MARKUPS[d[1]]
            w = u.Text(copy.deepcopy(m))
        elif k == "Edit":
            w = u.Edit(CAPTIONS[d[1]], EDITS[d[2]], multiline=bool(d[3]), wrap=d[4])
        elif k == "IntEdit":
            w = u.IntEdit("n ", d[1])
        elif k == "CheckBox":
            w = u.CheckBox(LABELS[d[1]], bool(d[2]))
        elif k == "Button":
            w = u.Button(LABELS[d[1]])
        elif k == "Icon":
            w = u.SelectableIcon(LABELS[d[1]], 0)
        elif k == "ProgressBar":
            w = u.ProgressBar("a1", "a2", d[1], 100)
        elif k == "Divider":
            w = u.Divider(d[1])
        elif k == "SolidFill":
            w = u.SolidFill(d[1])
        elif k == "Pile":
            w = u.Pile([("pack", B(x)) for x in d[1]])
        elif k == "PileB":
            w = u.Pile([("pack", B(x)) if sizing_of(x) == "flow" else ("weight", 1, B(x)) for x in d[1]])
        elif k == "Columns":
            items = []
            for i, x in enumerate(d[1]):
                given = d[3][i % len(d[3])]
                items.append((given, B(x)) if given else ("weight", 1, B(x)))
            w = u.Columns(items, dividechars=d[2], **({"min_width": d[4]} if len(d) > 4 and d[4] else {}),
                          **({"focus_column": d[5]} if len(d) > 5 and d[5] is not None else {}))
        elif k == "ColumnsB":
            gv = d[3] if len(d) > 3 else [0]
            w = u.Columns([((gv[i % len(gv)], B(x)) if gv[i % len(gv)] else ("weight", 1, B(x))) for i, x in enumerate(d[1])], dividechars=d[2],
                          **({"min_width": d[4]} if len(d) > 4 and d[4] else {}))
        elif k == "GridFlow":
            w = u.GridFlow([B(x) for x in d[1]], d[2], d[3], d[4], d[5])
        elif k == "ListBox":
            items = [B(x) for x in d[1]]
            w = u.ListBox(u.SimpleFocusListWalker(items) if d[2] == "focus" else u.SimpleListWalker(items))
        elif k == "Filler":
            w = u.Filler(B(d[1]), valign=d[2])
        elif k == "Frame":
            body = B(d[1])
            w = u.Frame(body, header=B(d[2]) if d[2] else None, footer=B(d[3]) if d[3] else None)
        elif k == "Scrollable":
            w = u.Scrollable(B(d[1]))
        elif k == "ScrollBar":
            w = u.ScrollBar(B(d[1]))
        elif k == "Overlay":
            w = u.Overlay(B(d[1]), B(d[2]), d[3], d[4], d[5], "pack")
        elif k in ("Padding", "PaddingB"):
            w = u.Padding(B(d[1]), align=d[2], left=d[3], right=d[4], **({"width": d[5]} if len(d) > 5 and d[5] is not None else {}))
        elif k in ("AttrMap", "AttrMapB"):
            w = u.AttrMap(B(d[1]), dict(ATTRMAPS[d[2]]) or None, dict(ATTRMAPS[d[3]]) or None)
        elif k in ("Placeholder", "PlaceholderB"):
            w = u.WidgetPlaceholder(B(d[1]))
        elif k in ("LineBox", "LineBoxB"):
            w = u.LineBox(B(d[1]), title=d[2])
        elif k == "BoxAdapter":
            w = u.BoxAdapter(B(d[1]), d[2])
        else:
            raise AssertionError(k)
        self.nodes[t][nid] = w
        self.meta[nid] = ({"Line": "Text", "LEdit": "Edit"}.get(k, k), sizing_of(d))
        self._last_id = nid
        return w

    # ---- observation -----------------------------------------------------------------------
    def _key(self, nid, size, focus):
        k = (nid, tuple(size), bool(focus))
        if k not in self.keys:
            self.keys[k] = len(self.keys) + 1
        return self.keys[k]

    def _fresh(self, w, size, focus, what):
        """The same widget with the caches emptied first."""
        out, exc = (NOTHING if what == "render" else 0), ""
        with empty_cache(self.CC):
            try:
                c = clone(self.u, w)
                if what == "render":
                    canv = c.render(size, focus)
                    out = project(canv)
                    del canv
                else:
                    out = int(c.rows(size, focus))
                del c
            except Exception as ex:  # noqa: BLE001
                exc = type(ex).__name__
        return out, exc

    def _twin(self, nid, size, focus, what):
        out, exc = (NOTHING if what == "render" else 0), ""
        with empty_cache(self.CC):
            try:
                w = self.nodes[1][nid]
                if what == "render":
                    canv = w.render(size, focus)
                    out = project(canv)
                    del canv
                else:
                    out = int(w.rows(size, focus))
            except Exception as ex:  # noqa: BLE001
                exc = type(ex).__name__
        return out, exc

    def do_render(self, nid, size, focus, keep, extra=None):
        CC = self.CC
        w = self.nodes[0][nid]
        size = tuple(size)
        focus = bool(focus)
        # the reference first: a copy of the tree as it is *before* this call (rendering has side effects)
        f, f_exc = self._fresh(w, size, focus, "render")
        tw, tw_exc = self._twin(nid, size, focus, "render")
        h0, f0 = CC.hits, CC.fetches
        canv = None
        c, c_exc = NOTHING, ""
        self.probe.reset()
        try:
            canv = w.render(size, focus)
        except Exception as ex:  # noqa: BLE001
            c_exc = type(ex).__name__
        hits, fetches = CC.hits - h0, CC.fetches - f0
        alias, scroll, follow = self.probe.alias, self.probe.scroll, self.probe.follow
        lb_clamp, cols_cut = self.probe.lb_clamp, self.probe.cols_cut
        self._scroll_positions(by_op=False)
        if canv is not None:
            try:
                c = project(canv)
            except Exception as ex:  # noqa: BLE001
                c_exc = "content:" + type(ex).__name__
        if (tw, tw_exc) == (f, f_exc):
            self.twin_same += 1
        else:
            self.twin_diff += 1
            self.twin_diff_at.append(len(self.ops))
        kept = 1 if (keep and canv is not None and c_exc == "") else 0
        e = {"t": "render", "nid": nid, "kind": self.meta[nid][0], "size": list(size), "focus": int(focus), "key": self._key(nid, size, focus),
             "c_exc": c_exc, "c_txt": c[0], "c_att": c[1], "c_cur": c[2], "f_exc": f_exc, "f_txt": f[0], "f_att": f[1], "f_cur": f[2],
             "hit": int(fetches >= 1 and hits >= 1 and fetches == 1), "subhits": hits, "fetches": fetches, "keep": kept,
             "opn": self.opn, "twin_same": int((tw, tw_exc) == (f, f_exc)), "edit_focus_alias": int(alias > 0), "scroll_moved_by_render": int(scroll > 0), "scroll_follow_pending": int(follow > 0),
             "lb_clamp": int(lb_clamp > 0), "cols_cut": int(cols_cut > 0)}
        if extra:
            e.update(extra)
        if kept:
            self.held.append(canv)
        del canv
        self.ev.append(e)
        return e

    def do_rows(self, nid, size, focus):
        CC = self.CC
        w = self.nodes[0][nid]
        size = tuple(size)
        focus = bool(focus)
        f_rows, f_exc = self._fresh(w, size, focus, "rows")
        tw, tw_exc = self._twin(nid, size, focus, "rows")
        h0 = CC.hits
        c_rows, c_exc = 0, ""
        try:
            c_rows = int(w.rows(size, focus))
        except Exception as ex:  # noqa: BLE001
            c_exc = type(ex).__name__
        hits = CC.hits - h0
        if (tw, tw_exc) == (f_rows, f_exc):
            self.twin_same += 1
        else:
            self.twin_diff += 1
            self.twin_diff_at.append(len(self.ops))
        self.ev.append({"t": "rows", "nid": nid, "kind": self.meta[nid][0], "size": list(size), "focus": int(focus), "c_exc": c_exc, "c_rows": c_rows,
                        "f_exc": f_exc, "f_rows": f_rows, "hit": int(hits > 0)})

    def do_query(self, nid, size, focus, what):
        """A size-dependent question that changes nothing (get_cursor_coords / get_pref_col / ListBox.ends_visible), answered by the
        live tree (sub-widget rows may come from cached canvases) and by the same tree with the caches emptied first."""
        def ask(w):
            try:
                if what == "ends":
                    v = w.ends_visible(tuple(size), bool(focus))
                    return [int("top" in v), int("bottom" in v)], ""
                v = getattr(w, "get_cursor_coords" if what == "cursor" else "get_pref_col")(tuple(size))
                if v is None:
                    return [], ""
                return ([int(x) for x in v] if isinstance(v, tuple) else [int(v) if isinstance(v, int) else -1]), ""
            except Exception as ex:  # noqa: BLE001
                return [], type(ex).__name__
        w = self.nodes[0][nid]
        if not hasattr(w, "ends_visible" if what == "ends" else ("get_cursor_coords" if what == "cursor" else "get_pref_col")):
            return
        with empty_cache(self.CC):
            try:
                f_val, f_exc = ask(clone(self.u, w))
            except Exception as ex:  # noqa: BLE001
                f_val, f_exc = [], "clone:" + type(ex).__name__
            ask(self.nodes[1][nid])
        h0 = self.CC.hits
        c_val, c_exc = ask(w)
        self._scroll_positions(by_op=False)
        self.ev.append({"t": "query", "what": what, "nid": nid, "kind": self.meta[nid][0], "size": list(size), "focus": int(focus), "c_val": c_val, "c_exc": c_exc,
                        "f_val": f_val, "f_exc": f_exc, "hit": int(self.CC.hits > h0)})

    def do_check(self):
        now = []
        for c in self.held:
            try:
                now.append(project(c))
            except Exception as ex:  # noqa: BLE001
                now.append([[[0]], [[999999]], []])
        self.ev.append({"t": "check", "now": now})

    # ---- operations applied to both trees -----------------------------------------------------
    def _both(self, fn, name):
        """fn(tree index) on tree 0 with the live cache, on the twin without any cache."""
        excs = []
        for t in (0, 1):
            ctx = empty_cache(self.CC) if t else contextlib.nullcontext()
            with ctx:
                try:
                    fn(t)
                    excs.append("")
                except Exception as ex:  # noqa: BLE001
                    excs.append(type(ex).__name__)
        if excs[0] != excs[1]:
            self.op_exc_diff += 1
        self._scroll_positions(by_op=True)
        self.ev.append({"t": "op", "name": name, "exc": excs[0]})
        self.opn += 1

    def apply(self, op):
        """op: JSON list.  Returns nothing; appends events."""
        u = self.u
        n = op[0]
        self.ops.append(op)
        if n == "render":
            self.do_render(op[1], op[2], op[3], op[4], op[5] if len(op) > 5 else None)
            return
        if n == "rows":
            self.do_rows(op[1], op[2], op[3])
            return
        if n == "query":
            self.do_query(op[1], op[2], op[3], op[4])
            return
        if n == "drop":
            if self.held:
                i = op[1] % len(self.held)
                del self.held[i]
                self.ev.append({"t": "drop", "i": i + 1})
            return
        if n == "gc":
            gc.collect()
            self.ev.append({"t": "op", "name": "gc", "exc": ""})
            return
        if n == "check":
            self.do_check()
            return
        N = lambda t: self.nodes[t][op[1]]  # noqa: E731

        def new(t, d):
            return self.build(d, t)

        def opt(cont, sizing, given=0):
            if isinstance(cont, u.Pile):
                return ("pack", None) if sizing == "flow" else ("weight", 1)
            if isinstance(cont, u.Columns):
                return cont.options("given", given) if given else cont.options("weight", 1)
            return cont.options()

        if n == "set_text":
            fn = lambda t: N(t).set_text(TEXTS[op[2]] if op[2] >= 0 else copy.deepcopy(MARKUPS[-op[2] - 1]))  # noqa: E731
        elif n == "set_align":
            fn = lambda t: N(t).set_align_mode(op[2])  # noqa: E731
        elif n == "set_wrap":
            fn = lambda t: N(t).set_wrap_mode(op[2])  # noqa: E731
        elif n == "set_edit_text":
            fn = lambda t: N(t).set_edit_text(op[2])  # noqa: E731
        elif n == "set_edit_pos":
            fn = lambda t: N(t).set_edit_pos(op[2])  # noqa: E731
        elif n == "set_caption":
            fn = lambda t: N(t).set_caption(op[2])  # noqa: E731
        elif n == "insert_text":
            fn = lambda t: N(t).insert_text(op[2])  # noqa: E731
        elif n == "set_state":
            fn = lambda t: N(t).set_state(bool(op[2]))  # noqa: E731
        elif n == "toggle_state":
            fn = lambda t: N(t).toggle_state()  # noqa: E731
        elif n == "set_label":
            fn = lambda t: N(t).set_label(op[2])  # noqa: E731
        elif n == "set_completion":
            fn = lambda t: N(t).set_completion(op[2])  # noqa: E731
        elif n == "c_insert":
            def fn(t):
                c = N(t)
                c.contents.insert(op[2], (new(t, op[3]), opt(c, sizing_of(op[3]), op[4])))
        elif n == "c_append":
            def fn(t):
                c = N(t)
                c.contents.append((new(t, op[2]), opt(c, sizing_of(op[2]), op[3])))
        elif n == "c_delete":
            def fn(t):
                del N(t).contents[op[2]]
        elif n == "c_assign":
            def fn(t):
                c = N(t)
                c.contents[op[2]] = (new(t, op[3]), opt(c, sizing_of(op[3]), op[4]))
        elif n == "c_options":
            def fn(t):
                c = N(t)
                c.contents[op[2]] = (c.contents[op[2]][0], opt(c, "flow", op[3]))
        elif n == "c_delslice":
            def fn(t):
                del N(t).contents[op[2]:op[3]]
        elif n == "focus_position":
            def fn(t):
                N(t).focus_position = op[2]
        elif n == "set_focus_path":
            fn = lambda t: N(t).set_focus_path(op[2])  # noqa: E731
        elif n == "w_insert":
            fn = lambda t: N(t).body.insert(op[2], new(t, op[3]))  # noqa: E731
        elif n == "w_append":
            fn = lambda t: N(t).body.append(new(t, op[2]))  # noqa: E731
        elif n == "w_delete":
            def fn(t):
                del N(t).body[op[2]]
        elif n == "w_assign":
            def fn(t):
                N(t).body[op[2]] = new(t, op[3])
        elif n == "w_reverse":
            fn = lambda t: N(t).body.reverse()  # noqa: E731
        elif n == "lb_body":
            def fn(t):
                N(t).body = u.SimpleFocusListWalker([new(t, d) for d in op[2]])
        elif n == "lb_focus":
            fn = lambda t: N(t).set_focus(op[2], op[3] or None)  # noqa: E731
        elif n == "lb_valign":
            fn = lambda t: N(t).set_focus_valign(op[2])  # noqa: E731
        elif n == "frame_part":
            def fn(t):
                setattr(N(t), op[2], new(t, op[3]) if op[3] else None)
        elif n == "pad":
            def fn(t):
                setattr(N(t), op[2], tuple(op[3]) if isinstance(op[3], list) else op[3])
        elif n == "set_attr_map":
            fn = lambda t: N(t).set_attr_map(dict(ATTRMAPS[op[2]]))  # noqa: E731
        elif n == "set_focus_map":
            fn = lambda t: N(t).set_focus_map(dict(ATTRMAPS[op[2]]))  # noqa: E731
        elif n == "swap":
            def fn(t):
                N(t).original_widget = new(t, op[2])
        elif n == "set_title":
            fn = lambda t: N(t).set_title(op[2])  # noqa: E731
        elif n == "scrollpos":
            fn = lambda t: N(t).set_scrollpos(op[2])  # noqa: E731
        elif n == "overlay_params":
            fn = lambda t: N(t).set_overlay_parameters(op[2], op[3], op[4], "pack")  # noqa: E731
        elif n == "key":
            def fn(t):
                w = N(t)
                if w.selectable():
                    w.keypress(tuple(op[2]), op[3])
        elif n == "mouse":
            fn = lambda t: N(t).mouse_event(tuple(op[2]), "mouse press", op[3], op[4], op[5], True)  # noqa: E731
        else:
            raise AssertionError(n)
        self._both(fn, n)

    # ---- online generation of the next operation (uses the state of tree 0 only) -------------
    def attached(self):
        return sorted(self.nodes[0])

    def pick(self, rng, kinds):
        ids = [i for i in self.attached() if self.meta[i][0] in kinds]
        return rng.choice(ids) if ids else None

    def size_for(self, rng, nid):
        w = self.nodes[0][nid]
        if nid == 0:
            return rng.choice(self.sizes) if rng.random() < 0.9 else self.rand_size(rng, self.root_sizing)
        cached = sorted({k[1] for k in self.CC._widgets.get(w, {})})
        if cached and rng.random() < 0.75:
            return list(rng.choice(cached))
        return self.rand_size(rng, self.meta[nid][1])

    @staticmethod
    def rand_size(rng, sizing):
        return [rng.randint(4, 24)] if sizing == "flow" else [rng.randint(4, 24), rng.randint(1, 8)]

    def gen_op(self, rng):
        r = rng.random()
        u = self.u
        if r < 0.34:
            nid = 0 if rng.random() < 0.6 else rng.choice(self.attached())
            return ["render", nid, self.size_for(rng, nid), int(rng.random() < (0.7 if nid == 0 else 0.5)), int(len(self.held) < 4 and rng.random() < 0.5)]
        if r < 0.39:
            ids = [i for i in self.attached() if self.meta[i][1] == "flow"]
            if ids:
                nid = rng.choice(ids)
                s = self.size_for(rng, nid)
                if len(s) == 1:
                    return ["rows", nid, s, int(rng.random() < 0.5)]
        if r < 0.45:
            return ["drop", rng.randrange(8)] if self.held else ["gc"]
        if r < 0.47:
            return ["gc"]
        if r < 0.57:
            return ["key", 0, rng.choice(self.sizes), rng.choice(KEYS)]
        if r < 0.59:
            s = rng.choice(self.sizes)
            return ["mouse", 0, s, rng.choice([1, 1, 4, 5]), rng.randrange(s[0]), rng.randrange(s[1] if len(s) > 1 else 6)]
        if r < 0.62:
            path = []
            w = self.roots[0].base_widget
            while rng.random() < 0.85:
                try:
                    if isinstance(w, u.Frame):
                        p = rng.choice([x for x in ("header", "body", "footer") if getattr(w, x) is not None])
                        nxt = getattr(w, p)
                    elif isinstance(w, u.ListBox):
                        if not len(w.body):
                            break
                        p = rng.randrange(len(w.body))
                        nxt = w.body[p]
                    elif hasattr(w, "contents") and len(w.contents):
                        p = rng.randrange(len(w.contents))
                        nxt = w.contents[p][0]
                    else:
                        break
                except Exception:  # noqa: BLE001
                    break
                path.append(p)
                w = nxt.base_widget
            return ["set_focus_path", 0, path]
        # ---- mutations through public mutators, by kind of a randomly chosen node
        for _ in range(12):
            nid = rng.choice(self.attached())
            k, sizing = self.meta[nid]
            w = self.nodes[0][nid]
            if k in ("Text", "Markup"):
                c = rng.random()
                if c < 0.8:
                    return ["set_text", nid, rng.randrange(len(TEXTS)) if rng.random() < 0.8 else -1 - rng.randrange(len(MARKUPS))]
                return ["set_align", nid, rng.choice(ALIGNS)] if c < 0.9 else ["set_wrap", nid, rng.choice(WRAPS)]
            if k in ("Edit", "IntEdit"):
                c = rng.random()
                if k == "IntEdit":
                    return ["set_edit_text", nid, str(rng.randrange(1000))] if c < 0.5 else ["set_edit_pos", nid, rng.randrange(4)]
                if c < 0.35:
                    return ["set_edit_text", nid, rng.choice(EDITS)]
                if c < 0.6:
                    return ["set_edit_pos", nid, rng.randrange(len(w.edit_text) + 2)]
                if c < 0.75:
                    return ["set_caption", nid, rng.choice(CAPTIONS)]
                if c < 0.9:
                    return ["insert_text", nid, rng.choice(["q", "wx", "字"])]
                return ["set_align", nid, rng.choice(ALIGNS)]
            if k == "CheckBox":
                c = rng.random()
                return ["set_state", nid, int(rng.random() < 0.5)] if c < 0.5 else (["toggle_state", nid] if c < 0.75 else ["set_label", nid, rng.choice(LABELS)])
            if k == "Button":
                return ["set_label", nid, rng.choice(LABELS)]
            if k == "ProgressBar":
                return ["set_completion", nid, rng.choice([0, 5, 33, 50, 99, 100])]
            if k in ("Pile", "PileB", "Columns", "ColumnsB", "GridFlow"):
                n = len(w.contents)
                c = rng.random()
                if k == "GridFlow":
                    d, given = gen_leaf(rng), 0
                elif k == "ColumnsB":
                    d, given = gen_box(rng, 0), 0
                elif k == "PileB":
                    d, given = (gen_flow(rng, 1) if rng.random() < 0.6 else gen_box(rng, 0)), 0
                else:
                    d, given = gen_flow(rng, 1), (rng.choice([0, 0, 5]) if k == "Columns" else 0)
                if c < 0.3 and n:
                    return ["focus_position", nid, rng.randrange(n) if rng.random() < 0.9 else n]
                if c < 0.5 and n < 5:
                    return ["c_insert", nid, rng.randint(0, n), d, given] if rng.random() < 0.7 else ["c_append", nid, d, given]
                if c < 0.7 and n:
                    return ["c_delete", nid, rng.randrange(n)] if rng.random() < 0.8 else ["c_delslice", nid, rng.randrange(n), rng.randrange(n + 1)]
                if c < 0.9 and n:
                    return ["c_assign", nid, rng.randrange(n), d, given]
                if n and k == "Columns":
                    return ["c_options", nid, rng.randrange(n), rng.choice([0, 3, 6])]
                continue
            if k == "ListBox":
                n = len(w.body)
                c = rng.random()
                if c < 0.25 and n:
                    return ["lb_focus", nid, rng.randrange(n), rng.choice(["", "above", "below"])]
                if c < 0.35 and n:
                    return ["focus_position", nid, rng.randrange(n)]
                if c < 0.5 and n < 7:
                    return ["w_insert", nid, rng.randint(0, n), gen_flow(rng, 1)] if rng.random() < 0.7 else ["w_append", nid, gen_flow(rng, 1)]
                if c < 0.65 and n:
                    return ["w_delete", nid, rng.randrange(n)]
                if c < 0.8 and n:
                    return ["w_assign", nid, rng.randrange(n), gen_flow(rng, 1)]
                if c < 0.88:
                    return ["lb_valign", nid, rng.choice(VALIGNS)]
                if c < 0.94:
                    return ["w_reverse", nid]
                return ["lb_body", nid, [gen_flow(rng, 0) for _ in range(rng.randint(0, 4))]]
            if k == "Frame":
                c = rng.random()
                if c < 0.5:
                    return ["focus_position", nid, rng.choice(["header", "body", "footer"])]
                part = rng.choice(["header", "footer", "body"])
                return ["frame_part", nid, part, gen_box(rng, 0) if part == "body" else (gen_flow(rng, 0) if rng.random() < 0.8 else None)]
            if k in ("Padding", "PaddingB"):
                c = rng.random()
                if c < 0.4:
                    return ["pad", nid, "align", rng.choice(ALIGNS)]
                if c < 0.8:
                    return ["pad", nid, "width", rng.choice([["relative", 100], ["relative", 60], 5, 9, "pack", "pack", "clip"])]
                return ["swap", nid, gen_flow(rng, 0) if sizing == "flow" else gen_box(rng, 0)]
            if k == "Filler":
                return ["swap", nid, gen_flow(rng, 1)]
            if k in ("AttrMap", "AttrMapB"):
                c = rng.random()
                if c < 0.4:
                    return ["set_attr_map", nid, rng.randrange(len(ATTRMAPS))]
                if c < 0.8:
                    return ["set_focus_map", nid, rng.randrange(len(ATTRMAPS))]
                return ["swap", nid, gen_flow(rng, 0) if sizing == "flow" else gen_box(rng, 0)]
            if k in ("Placeholder", "PlaceholderB"):
                return ["swap", nid, gen_flow(rng, 1) if sizing == "flow" else gen_box(rng, 0)]
            if k in ("LineBox", "LineBoxB"):
                return ["set_title", nid, rng.choice(LABELS[1:] + ["T"])] if rng.random() < 0.8 else ["swap", nid, gen_flow(rng, 0) if sizing == "flow" else gen_box(rng, 0)]
            if k == "Scrollable":
                return ["scrollpos", nid, rng.randrange(6)]
            if k == "BoxAdapter":
                return ["swap", nid, gen_box(rng, 0)]
            if k == "Overlay":
                return ["overlay_params", nid, rng.choice(ALIGNS), rng.choice([4, 7, 10]), rng.choice(VALIGNS)]
        return ["gc"]

    def trace(self, driver, extra=None):
        tr = {"driver": driver, "desc": self.desc, "sizes": self.sizes, "ops": self.ops, "nkeys": max(1, len(self.keys)), "ev": self.ev,
              "twin_same": self.twin_same, "twin_diff": self.twin_diff, "twin_diff_at": self.twin_diff_at, "op_exc_diff": self.op_exc_diff}
        if extra:
            tr.update(extra)
        return tr


class TreeRefused(Exception):
    pass


BUILD_ERRORS = (TreeRefused,)


def run_history(desc, sizes, ops=None, rng=None, n=0, driver="random", gen=None):
    """Execute a history (given ops, or n operations generated online from rng) and return the trace."""
    was = gc.isenabled()
    gc.disable()            # the cyclic collector runs only where the history says so ("gc") and at the end
    try:
        warnings.simplefilter("ignore")     # urwid warns about deprecated / too-narrow layouts; not this property's business
        try:
            w = World(desc, sizes)
        except Exception as ex:  # noqa: BLE001
            raise TreeRefused(f"{type(ex).__name__}: {ex}") from ex
        try:
            if ops is None:
                w.apply(["render", 0, w.sizes[0], 1, 1])
                for _ in range(n):
                    o = gen(w, rng) if gen else w.gen_op(rng)
                    for op in (o if o and isinstance(o[0], list) else [o]):      # a family may answer with a burst of operations
                        w.apply(op)
                for s in w.sizes:   # closing renders at the base sizes: whatever the history left stale shows here
                    w.apply(["render", 0, s, 1, 0])
                w.apply(["check"])
            else:
                for op in (ops(w) if callable(ops) else ops):
                    w.apply(op)
            return w.trace(driver)
        finally:
            w.close()
    finally:
        gc.collect()
        gc.freeze()     # recorded traces are plain data: keep them out of later collections
        if was:
            gc.enable()


def directed_histories():
    """Every single-child decoration / small container around a leaf that starts EMPTY (zero columns / zero rows) or tiny and
    is then given content through its public mutator, rendered before and after at two sizes with the first canvas held:
    the corner where a wrapper answers for a child it did not really render (and so never registered a dependency on)."""
    out = []
    for t0, t1 in ((0, 2), (0, 5), (1, 0), (2, 0), (0, 4)):
        leaf = ["Text", t0, "left", "space"]
        wraps = [["Padding", leaf, a, l, 0, wd] for a in ("left", "right") for l in (0, 1) for wd in (None, "pack", "clip", 6)]
        wraps += [["AttrMap", leaf, 0, 1], ["Placeholder", leaf], ["Pile", [leaf]], ["Columns", [leaf], 0, [0]],
                  ["Columns", [leaf, ["Text", 1, "left", "space"]], 1, [0, 4]]]
        descs = list(wraps)
        descs += [["Pile", [w, ["Text", 1, "left", "space"]]] for w in wraps]
        descs += [["Columns", [w, ["Text", 3, "left", "space"]], 1, [0, 0]] for w in wraps[:8]]
        descs += [["Padding", w, "left", 0, 0, "pack"] for w in wraps[:4]]
        for d in descs:
            def ops(w, t1=t1):
                leafs = [i for i in w.attached() if w.meta[i][0] == "Text"]
                tgt = leafs[0] if leafs else 0
                s0, s1 = w.sizes[0], w.sizes[1]
                return [["render", 0, s0, 1, 1], ["render", 0, s1, 0, 0], ["rows", 0, s0, 0], ["set_text", tgt, t1],
                        ["render", 0, s0, 1, 0], ["rows", 0, s0, 0], ["render", 0, s1, 0, 0], ["set_text", tgt, 0],
                        ["render", 0, s0, 0, 0], ["render", 0, s1, 1, 0], ["check"]]
            try:
                out.append(run_history(json.loads(json.dumps(d)), [[12], [7]], ops=ops, driver="directed"))
            except BUILD_ERRORS:
                pass
    # ---- a PACKED child that is hidden because it reports zero columns / zero rows: its container's canvas depends on it although
    #      nothing of it is drawn; it is then given content (and emptied again), with every frame held ----
    one = ["Text", 1, "left", "space"]
    for t1 in (2, 5):
        empty = ["Text", 0, "left", "space"]
        hidden = [["Columns", [empty, one], 1, ["pack", 0]], ["Columns", [one, empty], 0, [0, "pack"]], ["Columns", [empty], 0, ["pack"]],
                  ["Columns", [empty, empty, one], 1, ["pack", "pack", 0]]]
        descs = list(hidden) + [["Pile", [h, one]] for h in hidden] + [["AttrMap", h, 0, 1] for h in hidden] + [["Padding", h, "left", 1, 0, None] for h in hidden]
        for d in descs:
            def ops(w, t1=t1):
                leafs = [i for i in w.attached() if w.meta[i][0] == "Text"]
                s0, s1 = w.sizes[0], w.sizes[1]
                seq = [["render", 0, s0, 1, 1], ["render", 0, s1, 0, 1]]
                for tgt in leafs[:2]:
                    seq += [["set_text", tgt, t1], ["render", 0, s0, 1, 1], ["rows", 0, s0, 0], ["set_text", tgt, 0], ["render", 0, s0, 1, 1], ["render", 0, s1, 0, 1]]
                return seq + [["check"]]
            try:
                out.append(run_history(json.loads(json.dumps(d)), [[12], [7]], ops=ops, driver="directed-hidden"))
            except BUILD_ERRORS:
                pass
    for outer in (["Pile", [["Pile", []], one]], ["Pile", [one, ["Pile", []]]], ["Pile", [["Pile", []]]], ["Columns", [["Pile", []], one], 1, ["pack", 0]],
                  ["AttrMap", ["Pile", [["Pile", []], one]], 0, 1]):
        def ops(w):
            piles = [i for i in w.attached() if w.meta[i][0] == "Pile"]
            inner = piles[-1]
            s0, s1 = w.sizes[0], w.sizes[1]
            return [["render", 0, s0, 1, 1], ["render", 0, s1, 0, 1], ["c_append", inner, ["Text", 2, "left", "space"], 0], ["render", 0, s0, 1, 1],
                    ["rows", 0, s0, 0], ["c_delete", inner, 0], ["render", 0, s0, 1, 1], ["render", 0, s1, 0, 1], ["c_append", inner, ["Text", 3, "left", "space"], 0],
                    ["render", 0, s1, 0, 1], ["render", 0, s0, 1, 1], ["check"]]
        try:
            out.append(run_history(json.loads(json.dumps(outer)), [[12], [7]], ops=ops, driver="directed-hidden"))
        except BUILD_ERRORS:
            pass
    # ---- garbage collection of an OLD canvas while a NEWER one for the same leaf key is cached: keep canvas A, change the leaf,
    #      render the same tree under another ancestor key (focus flag / one more row) so that the leaf is cached again under its old
    #      key, keep B, release A (+ gc), change the leaf again, render: the entry made for B must survive A's death ----
    flow_trees = [["Pile", [["Text", 2, "left", "space"], ["Edit", 1, 1, False, "space"]]],
                  ["Columns", [["Text", 2, "left", "space"], ["CheckBox", 1, False]], 1, [0, 0]],
                  ["Padding", ["Pile", [["Text", 3, "left", "space"], ["Button", 1]]], "left", 1, 0, None],
                  ["AttrMap", ["Pile", [["Text", 1, "left", "space"], ["Edit", 0, 2, False, "space"]]], 0, 1],
                  ["LineBox", ["Pile", [["Text", 2, "left", "space"], ["Button", 2]]], "t"]]
    box_trees = [["Filler", t, "top"] for t in flow_trees[:3]] + [["Frame", ["Filler", flow_trees[0], "top"], ["Text", 1, "left", "space"], None]]
    for d, sizes in [(t, [[14], [14]]) for t in flow_trees] + [(t, [[14, 5], [14, 6]]) for t in box_trees]:
        for t1, t2 in ((5, 1), (0, 3)):
            for other in ("focus", "size"):
                def ops(w, t1=t1, t2=t2, other=other):
                    leafs = [i for i in w.attached() if w.meta[i][0] == "Text"]
                    tgt = leafs[0] if leafs else 0
                    s0 = w.sizes[0]
                    sB = w.sizes[1] if other == "size" else s0
                    fB = 1 if other == "size" else 0
                    return [["render", 0, s0, 1, 1], ["set_text", tgt, t1], ["render", 0, sB, fB, 1], ["drop", 0], ["gc"], ["set_text", tgt, t2],
                            ["render", 0, sB, fB, 0], ["render", 0, s0, 1, 0], ["rows", 0, s0, 0] if len(s0) == 1 else ["render", 0, s0, 0, 0], ["check"]]
                try:
                    out.append(run_history(json.loads(json.dumps(d)), sizes, ops=ops, driver="directed-gc"))
                except BUILD_ERRORS:
                    pass
    # ---- a list box whose focus item is taller than the box: page / arrow keys move the view inside the item and back ----
    for first in (5, 9):
        for h in (2, 3):
            for keys in (["page down", "page up"], ["page down", "page down", "page up", "page up"], ["down", "down", "up", "up"],
                         ["end", "home"], ["page down", "up"]):
                sizes = [[8, h], [8, h + 1]]

                def ops(w, keys=keys):
                    s0 = w.sizes[0]
                    seq = [["render", 0, s0, 1, 1]]
                    for k in keys:
                        seq += [["key", 0, s0, k], ["render", 0, s0, 1, 1]]      # the screen keeps every frame alive: cache entries stay
                    return seq + [["render", 0, w.sizes[1], 1, 0], ["render", 0, s0, 0, 0], ["check"]]
                for wrap, items in [(w_, i_) for w_ in (None, "Frame", "LineBox") for i_ in (0, 1, 2)]:
                    d = ["ListBox", [[["Text", first, "left", "space"], ["Edit", 1, 1, False, "space"], ["Text", 5, "left", "any"]],
                                     [["Text", first, "left", "space"]],                                  # a pager: one tall, unselectable item
                                     [["Text", first, "left", "space"], ["Text", 1, "left", "space"]]][items], "focus"]
                    dd = d if wrap is None else (["Frame", d, ["Text", 1, "left", "space"], None] if wrap == "Frame" else ["LineBox", d, "t"])
                    ss = sizes if wrap is None else [[s[0] + 2, s[1] + 2] for s in sizes]
                    try:
                        out.append(run_history(json.loads(json.dumps(dd)), ss, ops=ops, driver="directed-scroll"))
                    except BUILD_ERRORS:
                        pass
    return out


def random_history(rng):
    box = rng.random() < 0.55
    depth = rng.choice([1, 2, 2, 3])
    desc = gen_box(rng, depth) if box else gen_flow(rng, depth)
    if box:
        sizes = [[rng.randint(8, 24), rng.randint(2, 8)] for _ in range(2)]
        if rng.random() < 0.3:
            sizes.append([sizes[0][0], rng.randint(1, 8)])
    else:
        sizes = [[rng.randint(6, 24)] for _ in range(2)]
    try:
        return run_history(desc, sizes, rng=rng, n=rng.randint(8, 22))
    except BUILD_ERRORS:      # the generated description is not a constructible tree (urwid refuses it): draw another
        return random_history(rng)


# ------------------------------------------------------------------------------------------------
# layout families: widgets whose rendering depends on stored layout state that size-dependent calls work with
#   * a list box much longer than its view, shown at two or three HEIGHTS (two panes / a resize and back): the stored
#     scroll position (offset_rows / inset_fraction, set by set_focus, set_focus_valign, keys, mouse) is resolved per size;
#   * Columns whose given / weighted columns do not all fit at some of the WIDTHS: the focus column decides which are
#     shown and the column widths are remembered per width (_cache_maxcol / _cache_column_widths).
# Histories interleave renders (canvases held), rows(), cursor / ends_visible queries and key presses at the different
# sizes with the public calls that move the focus or the scroll position.
# ------------------------------------------------------------------------------------------------
def _lb_item(rng, i):
    r = rng.random()
    if r < 0.5:
        return ["Line", i, int(rng.random() < 0.12)]
    if r < 0.8:
        return ["LEdit", i]
    return ["CheckBox", rng.randrange(len(LABELS)), False] if r < 0.9 else ["Button", rng.randrange(len(LABELS))]


def gen_layout_listbox(rng):
    n = rng.randint(7, 26)
    lb = ["ListBox", [_lb_item(rng, i) for i in range(n)], rng.choice(["focus", "focus", "simple"])]
    wrap = rng.choice([None, None, None, "Frame", "LineBoxB", "PaddingB", "AttrMapB", "PileB", "ColumnsB", "PlaceholderB"])
    extra = {"Frame": 1, "LineBoxB": 2, "PileB": 1}.get(wrap, 0)
    if wrap == "Frame":
        d = ["Frame", lb, ["Line", 30], None]
    elif wrap == "LineBoxB":
        d = ["LineBoxB", lb, "t"]
    elif wrap == "PaddingB":
        d = ["PaddingB", lb, "left", 1, 0]
    elif wrap == "AttrMapB":
        d = ["AttrMapB", lb, 0, 1]
    elif wrap == "PileB":
        d = ["PileB", [["Line", 31], lb]]
    elif wrap == "ColumnsB":
        d = ["ColumnsB", [lb, ["SolidFill", "."]], 1, [0, 3]]
    elif wrap == "PlaceholderB":
        d = ["PlaceholderB", lb]
    else:
        d = lb
    cols = rng.randint(9, 18)
    tall = rng.randint(5, 12)
    hs = [tall, rng.randint(1, max(1, min(4, tall - 2)))]
    if rng.random() < 0.4:
        hs.append(rng.randint(2, tall))
    sizes = [[cols, h + extra] for h in hs]
    if rng.random() < 0.2:
        sizes.append([cols + 3, tall + extra])
    return d, sizes


def op_layout_listbox(w, rng):
    lbs = [i for i in w.attached() if w.meta[i][0] == "ListBox"]
    if not lbs:
        return w.gen_op(rng)
    lb = lbs[0]
    n = len(w.nodes[0][lb].body)
    r = rng.random()
    if r < 0.08:    # every pane repainted (the same list box shown at each of the sizes), frames kept
        f = int(rng.random() < 0.85)
        return [["render", 0, s, f, int(len(w.held) < 8)] for s in rng.sample(w.sizes, len(w.sizes))]
    if r < 0.30:
        return ["render", 0, rng.choice(w.sizes), int(rng.random() < 0.85), int(len(w.held) < 8 and rng.random() < 0.7)]
    if r < 0.35:
        return ["render", lb, w.size_for(rng, lb), int(rng.random() < 0.8), int(len(w.held) < 6 and rng.random() < 0.5)]
    if r < 0.49 and n:
        return ["lb_focus", lb, rng.randrange(n), rng.choice(["", "", "above", "below"])]
    if r < 0.57:
        return ["lb_valign", lb, rng.choice(VALIGNS)]
    if r < 0.71:
        return ["key", 0, rng.choice(w.sizes), rng.choice(NAV_KEYS)]
    if r < 0.75:
        s = rng.choice(w.sizes)
        return ["mouse", 0, s, rng.choice([1, 4, 5]), rng.randrange(s[0]), rng.randrange(s[1])]
    if r < 0.80:
        return ["query", 0, rng.choice(w.sizes), 1, "cursor"] if rng.random() < 0.6 else ["query", lb, w.size_for(rng, lb), 1, "ends"]
    if r < 0.85:
        return ["drop", rng.randrange(8)] if w.held else ["gc"]
    if r < 0.87:
        return ["gc"]
    if r < 0.90 and n:
        return ["focus_position", lb, rng.randrange(n)]
    if r < 0.94 and n:
        c = rng.random()
        if c < 0.4:
            return ["w_insert", lb, rng.randint(0, n), ["Line", 32 + rng.randrange(8)]]
        return ["w_delete", lb, rng.randrange(n)] if c < 0.7 else ["w_assign", lb, rng.randrange(n), ["Line", 32 + rng.randrange(8), 1]]
    return w.gen_op(rng)


def gen_layout_columns(rng):
    n = rng.randint(3, 5)
    div = rng.choice([0, 1])
    minw = rng.choice([1, 4, 6])
    box = rng.random() < 0.25
    givens = [rng.choice([0, 4, 5, 6, 8, 10]) if rng.random() < 0.8 else 0 for _ in range(n)]
    need = sum(g or minw for g in givens) + div * (n - 1)
    if box:
        kids = [["Filler", ["LEdit", i] if rng.random() < 0.7 else ["Line", i], "top"] for i in range(n)]
        cols = ["ColumnsB", kids, div, givens, minw]
    else:
        kids = [(["LEdit", i] if rng.random() < 0.6 else (["Line", i] if rng.random() < 0.6 else ["CheckBox", 1 + i % 3, False])) for i in range(n)]
        cols = ["Columns", kids, div, givens, minw, rng.choice([None, None, 0, n - 1])]
    if box:
        wrap = rng.choice([None, None, "LineBoxB", "AttrMapB", "Frame"])
        d = {"LineBoxB": ["LineBoxB", cols, "t"], "AttrMapB": ["AttrMapB", cols, 0, 1], "Frame": ["Frame", cols, ["Line", 30], None]}.get(wrap, cols)
    else:
        wrap = rng.choice([None, None, None, "Pile", "LineBox", "Padding", "AttrMap", "Filler", "ListBox"])
        d = {"Pile": ["Pile", [["Line", 30], cols, ["LEdit", 9]]], "LineBox": ["LineBox", cols, "t"], "Padding": ["Padding", cols, "left", 1, 0, None],
             "AttrMap": ["AttrMap", cols, 0, 1], "Filler": ["Filler", cols, "top"], "ListBox": ["ListBox", [["Line", 30], cols, ["LEdit", 9]], "focus"]}.get(wrap, cols)
    extra = {"LineBox": 2, "LineBoxB": 2, "Padding": 1}.get(wrap, 0)
    lo = max(3, need // 2)
    ws = [rng.randint(lo, max(lo, need - 1)), rng.randint(need, need + 6) if rng.random() < 0.7 else rng.randint(lo, max(lo, need - 1))]
    if rng.random() < 0.4:
        ws.append(rng.randint(lo, need + 3))
    if sizing_of(d) == "box":
        h = rng.randint(2, 5)
        sizes = [[x + extra, h + ({"LineBoxB": 2, "Frame": 1}.get(wrap, 0))] for x in ws]
    else:
        sizes = [[x + extra] for x in ws]
    return d, sizes


def op_layout_columns(w, rng):
    cs = [i for i in w.attached() if w.meta[i][0] in ("Columns", "ColumnsB")]
    if not cs:
        return w.gen_op(rng)
    c = cs[0]
    n = len(w.nodes[0][c].contents)
    r = rng.random()
    flow = w.root_sizing == "flow"
    if r < 0.06:
        f = int(rng.random() < 0.85)
        return [["render", 0, s, f, int(len(w.held) < 8)] for s in rng.sample(w.sizes, len(w.sizes))]
    if r < 0.32:
        return ["render", 0, rng.choice(w.sizes), int(rng.random() < 0.85), int(len(w.held) < 6 and rng.random() < 0.7)]
    if r < 0.38:
        if flow:
            return ["rows", 0, rng.choice(w.sizes), int(rng.random() < 0.7)]
        return ["render", 0, rng.choice(w.sizes), 0, 0]
    if r < 0.43:
        return ["render", c, w.size_for(rng, c), int(rng.random() < 0.8), int(len(w.held) < 6 and rng.random() < 0.5)]
    if r < 0.60 and n:
        return ["focus_position", c, rng.randrange(n)]
    if r < 0.72:
        return ["key", 0, rng.choice(w.sizes), rng.choice(COL_KEYS)]
    if r < 0.76:
        s = rng.choice(w.sizes)
        return ["mouse", 0, s, 1, rng.randrange(s[0]), rng.randrange(s[1] if len(s) > 1 else 2)]
    if r < 0.80:
        return ["query", 0, rng.choice(w.sizes), 1, rng.choice(["cursor", "cursor", "pref_col"])]
    if r < 0.85:
        return ["drop", rng.randrange(8)] if w.held else ["gc"]
    if r < 0.87:
        return ["gc"]
    if r < 0.91 and n and w.meta[c][0] == "Columns":
        return ["c_options", c, rng.randrange(n), rng.choice([0, 3, 6, 9])]
    return w.gen_op(rng)


def layout_history(rng, which):
    gen_d, gen_o, name = ((gen_layout_listbox, op_layout_listbox, "layout-listbox") if which == 0 else (gen_layout_columns, op_layout_columns, "layout-columns"))
    for _ in range(20):
        desc, sizes = gen_d(rng)
        try:
            return run_history(desc, sizes, rng=rng, n=rng.randint(14, 30), driver=name, gen=gen_o)
        except BUILD_ERRORS:
            continue
    raise AssertionError("layout family: no constructible tree")



# ------------------------------------------------------------------------------------------------
# spec -> code: behaviours of CanvasCache.tla on concrete realisations of the model tree R -> {A, I -> {B, C}}
# ------------------------------------------------------------------------------------------------
def T(tag, d):
    return ["@", tag, d]


REALISATIONS = [
    {"name": "pile_columns", "exact": True, "sizes": [[15], [22]],
     "desc": T("R", ["Pile", [T("A", ["Text", 2, "left", "space"]),
                               T("I", ["Columns", [T("B", ["Edit", 1, 1, False, "space"]), T("C", ["CheckBox", 1, False])], 1, [0]])]])},
    {"name": "frame_listbox", "exact": False, "sizes": [[16, 6], [22, 8]],
     "desc": T("R", ["Frame", T("I", ["ListBox", [T("B", ["Edit", 1, 2, False, "space"]), T("C", ["Button", 1])], "focus"]),
                     T("A", ["Text", 2, "left", "space"]), None])},
    {"name": "linebox_pile_gridflow", "exact": False, "sizes": [[18], [24]],
     "desc": T("R", ["LineBox", T("R!", ["Pile", [T("A", ["Text", 3, "center", "space"]),
                                                   T("I", ["Padding", T("I!", ["GridFlow", [T("B", ["Button", 1]), T("C", ["CheckBox", 2, True])], 8, 1, 0, "left"]),
                                                           "left", 1, 1])]]), "ttl"])},
    {"name": "columns_placeholder_pile", "exact": False, "sizes": [[20], [26]],
     "desc": T("R", ["Columns", [T("A", ["Text", 5, "left", "space"]),
                                  T("I", ["AttrMap", T("I!", ["Pile", [T("B", ["Placeholder", T("B!", ["ProgressBar", 10])]),
                                                                        T("C", ["Edit", 2, 3, True, "any"])]]), 0, 1])], 1, [0]])},
    {"name": "filler_pile_columns", "exact": False, "sizes": [[14, 5], [20, 7]],
     "desc": T("R", ["Filler", T("R!", ["Pile", [T("A", ["Text", 1, "left", "space"]),
                                                  T("I", ["Columns", [T("B", ["CheckBox", 1, False]), T("C", ["Edit", 0, 1, False, "space"])], 0, [0]])]]), "top"])},
]
FRAME_POS = ["header", "body"]


def model_ops(world, beh, sub_sizes):
    """Translate one TLC behaviour (list of states with `last`) into concrete operations, executing them as we go."""
    tags = world.tags
    held = []          # model canvas values, parallel to world.held
    prev_held = []
    agree = differ = 0
    for st in beh[1:]:
        op = st["last"]
        n, x = op["n"], op["w"]
        cur_held = [json.dumps(c, sort_keys=True) for c in st["held"]]
        if n == "render":
            new = [c for c in cur_held if c not in prev_held]
            keep = 1 if new else 0
            size = sub_sizes[x][op["s"] - 1]
            before = len(world.held)
            world.apply(["render", tags[x], size, int(op["f"]), keep, {"m_hit": int(op["hit"])}])
            e = world.ev[-1]
            if e["c_exc"] == "":
                if e["hit"] == int(op["hit"]):
                    agree += 1
                else:
                    differ += 1
            if keep and len(world.held) > before:
                held.append(new[0])
        elif n == "mutate":
            target = tags.get(x + "!", tags[x])
            kind = world.meta[target][0]
            v = op["s"]
            if kind in ("Text", "Markup"):
                world.apply(["set_text", target, [2, 3, 7, 1][v % 4]])
            elif kind == "Edit":
                world.apply(["set_edit_text", target, ["x", "abc def", "0123456789abcdef", ""][v % 4]])
            elif kind == "CheckBox":
                world.apply(["set_state", target, v % 2])
            elif kind == "Button":
                world.apply(["set_label", target, LABELS[1 + v % 3]])
            elif kind == "ProgressBar":
                world.apply(["set_completion", target, [10, 45, 80, 100][v % 4]])
            elif kind == "Frame":
                world.apply(["focus_position", target, FRAME_POS[v % 2]])
            else:   # containers: the model's mutation of a container is a focus change
                world.apply(["focus_position", target, v % 2])
        elif n == "drop":
            gone = [c for c in prev_held if c not in cur_held]
            if gone and gone[0] in held:
                i = held.index(gone[0])
                world.apply(["drop", i])
                del held[i]
        prev_held = cur_held
    return agree, differ


_SUB_SIZES = {}


def sub_sizes_of(real):
    """The size each model widget is rendered at when the root is rendered at base size s (read from the cache keys)."""
    name = real["name"]
    if name not in _SUB_SIZES:
        w = World(real["desc"], real["sizes"])
        try:
            out = {x: [] for x in "RAIBC"}
            for s in real["sizes"]:
                w.CC.clear()
                canv = w.roots[0].render(tuple(s), True)
                for x in "RAIBC":
                    keys = sorted({k[1] for k in w.CC._widgets.get(w.nodes[0][w.tags[x]], {})})
                    out[x].append(list(keys[0]) if keys else list(s))
                del canv
        finally:
            w.close()
        _SUB_SIZES[name] = out
    return _SUB_SIZES[name]


def model_history(real, beh):
    was = gc.isenabled()
    gc.disable()
    try:
        sub = sub_sizes_of(real)
        w = World(real["desc"], real["sizes"])
        try:
            for x in ("R", "I"):        # the model starts with the first child in focus
                target = w.tags.get(x + "!", w.tags[x])
                w.apply(["focus_position", target, FRAME_POS[0] if w.meta[target][0] == "Frame" else 0])
            agree, differ = model_ops(w, beh, sub)
            for s in w.sizes:
                w.apply(["render", 0, s, 1, 0])
            w.apply(["check"])
            return w.trace("tlc-simulate", {"real": real["name"], "hit_agree": agree, "hit_differ": differ})
        finally:
            w.close()
    finally:
        gc.collect()
        gc.freeze()     # recorded traces are plain data: keep them out of later collections
        if was:
            gc.enable()


# ------------------------------------------------------------------------------------------------
MC_CFG = """CONSTANTS Sizes = {{{sizes}}} MaxVer = {maxver} MaxHeld = {maxheld} NoCache = {nocache} IgnoreFocus = {ign} Layout = {layout} Frozen = {frozen}
Variant = "{variant}" MaxOps = {maxops}
SPECIFICATION {spec}
{invs}
CHECK_DEADLOCK FALSE
"""
INVS = ["NoStaleFetch", "NoStale", "ChangeVisibleInv", "CacheSane", "DepsRegistered", "StoredOnlyOverCached", "OnlyLive", "LayoutSane"]
VARIANTS = ["no_cascade", "no_deps", "cleanup_drops_deps", "store_ignores_uncached", "mutator_forgets_invalidate",
            # layout state (widget "I" keeps a stored scroll offset and a layout remembered per size):
            "query_moves_layout_state",             # a sized call writes the clamped offset back, no _invalidate()  (class of ListBox seeds)
            "layout_cache_survives_invalidate"]     # _invalidate() keeps the remembered layout (class of Columns seeds)
LAYOUT_VARIANTS = {"query_moves_layout_state", "layout_cache_survives_invalidate"}
LAY = '{"I"}'


def cfg(variant="as_coded", sizes="1, 2", maxver=1, maxheld=1, nocache="{}", ign='{"A"}', maxops=0, invs=INVS, spec="Spec", layout="{}", frozen="{}"):
    return MC_CFG.format(sizes=sizes, maxver=maxver, maxheld=maxheld, nocache=nocache, ign=ign, variant=variant, maxops=maxops, spec=spec, layout=layout, frozen=frozen,
                         invs="\n".join("INVARIANT " + i for i in invs))


def _sig(tr, e):
    return {"driver": tr["driver"], "event": e["t"], "kind": e.get("kind", ""), "hit": e.get("hit", 0), "subhits_pos": int(e.get("subhits", 0) > 0),
            "c_exc": e.get("c_exc", ""), "f_exc": e.get("f_exc", ""), "root": int(e.get("nid", -1) == 0), "focus": e.get("focus", 0),
            "edit_focus_alias": e.get("edit_focus_alias", 0), "scroll_moved_by_render": e.get("scroll_moved_by_render", 0),
            "scroll_follow_pending": e.get("scroll_follow_pending", 0)}


def _handle(chk, traces, res):
    for ti, l, why in res.rejects:
        tr = traces[ti]
        e = tr["ev"][l - 1]
        obs = {k: v for k, v in e.items() if k not in ("now",)}
        chk.reject(f"C06.{why}", _sig(tr, e), {"driver": tr["driver"], "desc": tr["desc"], "sizes": tr["sizes"], "ops": tr["ops"], "event_index": l,
                                              "observed": obs})


def _coverage(chk, traces):
    c = {}

    def add(k, n=1):
        c[k] = c.get(k, 0) + n

    nontriv = set()
    for tr in traces:
        last = {}
        seen_at = {}          # key -> index of the last render event of that key
        clamped, focus_ops, sized = [], [], []      # (event index, size) of clamped list-box renders / focus-moving operations / any sized call
        for ei, e in enumerate(tr["ev"]):
            if e["t"] in ("render", "rows", "query"):
                sized.append((ei, tuple(e["size"])))
            if e["t"] == "op" and e["name"] in ("focus_position", "key", "mouse", "set_focus_path"):
                focus_ops.append(ei)
            if e["t"] == "render":
                k0, sz = e["key"], tuple(e["size"])
                if e.get("lb_clamp"):
                    add("layout.listbox_rendered_with_offset_beyond_view")
                    clamped.append((ei, sz))
                if e.get("cols_cut"):
                    add("layout.columns_rendered_not_all_fit")
                if k0 in seen_at:
                    since = seen_at[k0]
                    if (e["hit"] or e["subhits"]) and any(i > since and z != sz for i, z in clamped):
                        # a canvas cached before answers after the same list box was laid out at a height that clamps its stored offset
                        add("layout.cached_answer_after_clamped_listbox_render_at_other_size")
                    if e.get("cols_cut") and any(i > since for i in focus_ops) and any(i > since and z != sz for i, z in sized):
                        # cut-off Columns rendered again at a width after a focus move and calls at another width in between
                        add("layout.cut_columns_rerendered_after_focus_move_and_other_width")
                seen_at[k0] = ei
            if e["t"] == "render":
                add("render")
                add("render.hit" if e["hit"] else ("render.miss_with_subhits" if e["subhits"] else "render.miss"))
                if e["c_exc"]:
                    add("render.both_raise" if e["c_exc"] == e["f_exc"] else "render.raise_differs")
                if e["c_cur"]:
                    add("render.with_cursor")
                if e["keep"]:
                    add("render.kept")
                add("render.root" if e["nid"] == 0 else "render.subwidget")
                k = e["key"]
                fr = (e["f_txt"], e["f_att"], e["f_cur"], e["f_exc"])
                if k in last:
                    mutated = e["opn"] > last[k][1]
                    if last[k][0] != fr:
                        add("rerender.fresh_changed_since_last")     # what happened in between changed the rendering
                        if e["subhits"]:
                            add("rerender.changed_and_partly_from_cache")
                        nontriv.add(json.dumps([tr["desc"], e["size"], e["focus"], e["f_txt"]])[:4000])
                    else:
                        add("rerender.fresh_same_as_last")
                        if e["hit"]:
                            add("rerender.same_and_hit")
                    if mutated:
                        add("rerender.after_operations.changed" if last[k][0] != fr else "rerender.after_operations.same")
                last[k] = (fr, e["opn"])
            elif e["t"] == "rows":
                add("rows")
                add("rows.from_cache" if e["hit"] else "rows.computed")
            elif e["t"] == "query":
                add("query." + e["what"])
                if e["hit"]:
                    add("query.partly_from_cache")
            elif e["t"] == "op":
                add("op." + e["name"] + (".raised" if e["exc"] else ""))
            elif e["t"] == "drop":
                add("drop")
            elif e["t"] == "check":
                add("check.held_canvases", len(e["now"]))
        add("twin.same", tr["twin_same"])
        add("twin.differs", tr["twin_diff"])
    return c, nontriv


def run(chk):
    quick = chk.tier == "quick"
    rng = chk.rng
    t_start = time.time()
    pool_main, pool_var, pool_sim = cf.ThreadPoolExecutor(1), cf.ThreadPoolExecutor(2), cf.ThreadPoolExecutor(1)
    # ---- GEN: behaviours of the model for the spec -> code direction -------------------------------
    simcfg = cfg(maxver=3, maxheld=3, maxops=16 if quick else 24, invs=["NoStale"], spec="SimSpec")
    sim = pool_sim.submit(tlc.simulate, "CanvasCache", simcfg, num=250 if quick else 2400, depth=17 if quick else 25, seed=chk.seed, timeout=900,
                          jobs=2 if quick else 6)
    # ---- MC: the design model as coded (must hold) and the broken variants (must be refuted) -------
    mc_jobs = []
    if quick:
        # widget I with layout state (stored offset resolved per size, layout remembered per size); quick: only I (focus) and B change
        main_cfgs = [("MC_CanvasCache_as_coded", cfg(maxver=1, maxheld=1)),
                     ("MC_CanvasCache_as_coded_layout_state", cfg(maxver=1, maxheld=1, layout=LAY, frozen='{"A", "C", "R"}')),
                     ("MC_CanvasCache_as_coded_uncacheable_leaf", cfg(maxver=1, maxheld=1, sizes="1", nocache='{"C"}'))]
    else:
        main_cfgs = [("MC_CanvasCache_as_coded", cfg(maxver=1, maxheld=2)),
                     ("MC_CanvasCache_as_coded_ver2", cfg(maxver=2, maxheld=1)),
                     ("MC_CanvasCache_as_coded_uncacheable_leaf", cfg(maxver=2, maxheld=1, nocache='{"C"}')),
                     ("MC_CanvasCache_as_coded_no_ignore_focus", cfg(maxver=1, maxheld=1, ign="{}")),
                     ("MC_CanvasCache_as_coded_layout_state", cfg(maxver=1, maxheld=1, layout=LAY)),
                     ("MC_CanvasCache_as_coded_layout_state_ver2", cfg(maxver=2, maxheld=1, layout=LAY, frozen='{"A", "C", "R"}')),
                     # accepted alternative design (what Scrollable does): the resolved offset is written back AND _invalidate() is called
                     ("MC_CanvasCache_clamp_stored_and_invalidated", cfg("clamp_stored_and_invalidated", maxver=1, maxheld=1, layout=LAY))]
    for name, c in main_cfgs:
        mc_jobs.append((name, None, pool_main.submit(tlc.mc, "CanvasCache", c, workers=6, timeout=1100, heap="6g")))
    for v in VARIANTS:
        c = cfg(v, maxver=1, maxheld=1, nocache='{"C"}' if v == "store_ignores_uncached" else "{}", invs=["NoStaleFetch", "NoStale"],
                layout=LAY if v in LAYOUT_VARIANTS else "{}")
        mc_jobs.append((f"MC_CanvasCache_variant_{v}", v, pool_var.submit(tlc.mc, "CanvasCache", c, workers=1, timeout=600, heap="2g")))

    traces = []
    # ---- code -> spec: seeded random histories on random trees (runs while TLC works) -----------------
    n_rand = 800 if quick else 12000
    for _ in range(n_rand):
        traces.append(random_history(rng))
    # ---- layout families: long list boxes at several heights, Columns that do not all fit at several widths ----
    n_lay = 200 if quick else 4000
    for i in range(n_lay):
        traces.append(layout_history(rng, i % 2))
    chk.cov["layout_histories"] = n_lay
    directed = directed_histories()
    traces += directed
    chk.cov["directed_histories"] = len(directed)
    t_rand = time.time()
    # ---- spec -> code ----------------------------------------------------------------------------------
    behs = sim.result()
    t_sim = time.time()
    agree = differ = 0
    exact_agree = exact_differ = 0
    for i, b in enumerate(behs):
        real = REALISATIONS[i % len(REALISATIONS)] if i % 2 else REALISATIONS[0]
        tr = model_history(real, b)
        traces.append(tr)
        agree += tr["hit_agree"]
        differ += tr["hit_differ"]
        if real["exact"]:
            exact_agree += tr["hit_agree"]
            exact_differ += tr["hit_differ"]
            if tr["hit_differ"]:
                chk.divergence("model_hit_prediction_differs", {"real": real["name"], "ops": tr["ops"][:12]})
    chk.cov["spec_to_code_behaviours"] = len(behs)
    chk.cov["spec_to_code_hit_predictions"] = {"agree": agree, "differ": differ, "exact_realisation_agree": exact_agree,
                                               "exact_realisation_differ": exact_differ}
    t_model = time.time()
    # ---- TV ---------------------------------------------------------------------------------------------
    res = tlc.validate("CanvasCacheTrace", traces, batch_events=4000 if quick else 6000, jobs=4 if quick else 8, timeout=2400)
    chk.add_tv("TV_CanvasCacheTrace", res)
    _handle(chk, traces, res)
    t_tv = time.time()
    # ---- MC results -------------------------------------------------------------------------------------
    for name, variant, fut in mc_jobs:
        r = fut.result()
        chk.add_mc(name, r)
        if variant is None:
            if not r.ok:
                chk.reject("C06.model." + str(r.violated), {"model": "CanvasCache", "variant": "as_coded", "inv": r.violated}, {"tlc_trace": r.trace[-8:]})
        else:
            chk.count("model.variant_refuted." + variant, 1 if not r.ok else 0)
            if r.ok:   # a broken design that TLC cannot refute means the model has no teeth
                chk.vacuity.append(f"model.variant_{variant}_not_refuted")
    for p in (pool_main, pool_var, pool_sim):
        p.shutdown()
    chk.cov["phase_wall_s"] = {"random_histories": round(t_rand - t_start, 1), "wait_for_simulation": round(t_sim - t_rand, 1),
                               "model_histories": round(t_model - t_sim, 1), "trace_validation": round(t_tv - t_model, 1),
                               "wait_for_model_checking": round(time.time() - t_tv, 1)}
    chk.note(f"phases: {chk.cov['phase_wall_s']}")
    # ---- coverage / vacuity -----------------------------------------------------------------------------
    counts, nontriv = _coverage(chk, traces)
    for k, v in counts.items():
        chk.count(k, v)
    cc = chk.cov["clause_counts"]
    for need in ("render.hit", "render.miss_with_subhits", "rerender.fresh_changed_since_last", "rerender.changed_and_partly_from_cache",
                 "rerender.same_and_hit", "rows.from_cache", "render.with_cursor", "check.held_canvases", "drop",
                 "layout.listbox_rendered_with_offset_beyond_view", "layout.columns_rendered_not_all_fit",
                 "layout.cached_answer_after_clamped_listbox_render_at_other_size", "layout.cut_columns_rerendered_after_focus_move_and_other_width",
                 "query.cursor", "query.ends", "query.partly_from_cache"):
        if not cc.get(need):
            chk.vacuity.append("driver." + need)
    hit_rate = (cc.get("render.hit", 0) + cc.get("render.miss_with_subhits", 0)) / max(1, cc.get("render", 1))
    chk.cov["hit_rate"] = round(hit_rate, 3)
    chk.cov["mutation_visible_rate"] = round(cc.get("rerender.after_operations.changed", 0) /
                                             max(1, cc.get("rerender.after_operations.changed", 0) + cc.get("rerender.after_operations.same", 0)), 3)
    if chk.cov["mutation_visible_rate"] < 0.3:
        chk.vacuity.append("driver.mutations_rarely_change_the_rendering")
    if hit_rate < 0.2:
        chk.vacuity.append("driver.hit_rate_below_20_percent")
    for tr in traces:
        if tr["twin_diff"]:       # render side effects skipped by a cache hit became visible later (outside the property statement)
            chk.divergence("twin_tree_without_cache_renders_differently",
                           {"renders_compared": cc.get("twin.differs", 0) + cc.get("twin.same", 0), "desc": tr["desc"], "sizes": tr["sizes"],
                            "ops": tr["ops"][:(tr["twin_diff_at"] or [len(tr["ops"])])[0]]})
    ndiff = sum(t["op_exc_diff"] for t in traces)
    if ndiff:
        chk.divergence("operation_outcome_differs_with_cache", {"count": ndiff})
    chk.cov["distinct_nontrivial"] = len(nontriv)
    chk.cov["rule"] = ("histories of render / rows / hold / drop / gc interleaved with public mutators, keys, mouse presses, contents and list-walker edits, "
                       "focus changes, attr maps, placeholder swaps, titles, scroll positions on random trees (depth <= 3) of Pile/Columns/GridFlow/ListBox/Frame/"
                       "Filler/Padding/AttrMap/WidgetPlaceholder/LineBox/BoxAdapter/Scrollable/ScrollBar/Overlay around Text/Edit/IntEdit/CheckBox/Button/"
                       "ProgressBar/Divider/SelectableIcon; layout families: list boxes of 7..26 recognisable items shown at 2..4 sizes (heights 1..12) and Columns of 3..5 "
                       "given / weighted columns that do not all fit at some of 2..3 widths, bare or inside one decoration / container, with renders (held), rows, "
                       "cursor / pref_col / ends_visible queries and keys at every size interleaved with set_focus, set_focus_valign, focus_position, mouse, "
                       "walker and options edits; and TLC-simulated behaviours of CanvasCache.tla on five realisations of the model tree; "
                       "non-trivial = distinct (tree, size, focus, fresh content) re-rendered after the content had changed")
    chk.cov["exhaustive"] = True     # the design model within its constants; histories on the real code are sampled
    chk.cov["bounds"] = {"model": "tree R->{A, I->{B,C}}, I with layout state (stored offset 0..1 clamped to size-1, one remembered layout), sizes {1,2} x focus, MaxVer/MaxHeld per run (see tlc_runs), all reachable states",
                         "random_histories": n_rand, "layout_histories": n_lay, "ops_per_history": "8..22 + closing renders", "tlc_behaviours": len(behs), "cols": "4..26", "rows": "1..8"}
    for tr in (traces[0], traces[-1]):
        fr = next(e for e in tr["ev"] if e["t"] == "render")
        chk.sample({"driver": tr["driver"], "desc": tr["desc"], "sizes": tr["sizes"], "ops": tr["ops"][:8],
                    "first_render": {k: fr[k] for k in ("size", "focus", "c_txt", "f_txt", "c_cur", "f_cur", "hit")}})
    chk.cov["trusted_base"] = ["TLC", "vf/props/c06.py: canvas projection, World driver, deep-copy reference (copy.deepcopy of the widget + the three "
                               "CanvasCache dictionaries swapped for empty ones + _cache_maxcol reset), cross-checked against a twin tree that never sees a cache",
                               "CPython reference counting for the death of unreferenced canvases"]
    chk.assumptions += ["the reference 'same tree with the cache emptied first' is a deep copy of the widget taken at that moment; the twin tree (same operations, "
                        "no cache ever) is compared as DIVERGENCE only: a cache hit skips render side effects (Edit view shift, ListBox pending focus), which the "
                        "property statement does not speak about",
                        "when cached and fresh rendering raise the same exception class (size too small for the tree) the event is accepted",
                        "timing of the cyclic garbage collector is not explored: gc runs only at explicit gc operations and between histories",
                        "design model: versions only grow, so equal canvases of one widget are identified (see CanvasCache.tla)"]


def replay(chk, path):
    with open(path) as f:
        rp = json.load(f)["replay"]
    tr = run_history(rp["desc"], rp["sizes"], ops=rp["ops"], driver=rp.get("driver", "replay"))
    res = tlc.validate("CanvasCacheTrace", [tr], jobs=1)
    chk.add_tv("replay", res)
    _handle(chk, [tr], res)
    chk.sample({"ops": tr["ops"][:10]})
    return chk.finish()
