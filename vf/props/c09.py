"""C09 — cursor position and mouse hit-testing agree with what is drawn.
Generator model: spec/WidgetTree.tla (probe leaves, geometry kinds); trace spec: spec/GeometryTrace.tla;
probes, term -> widget builder and observation: vf/wtree.py.  TLC computes the geometry and judges every event."""
from __future__ import annotations

import concurrent.futures as cf
import json

from .. import tlc, wtree
from . import c01

BOX_SIZES = [(6, 4), (9, 6), (12, 7), (7, 8)]
FLOW_SIZES = [(6,), (10,)]


def observe(job):
    t, size, max_press, max_move, seed, max_steps, max_hpress = job
    return wtree.observe_geometry(t, "utf8", size, max_press, max_move, seed, max_steps, max_hpress)


CURSOR_LEAVES = ("TEdit",)


def is_cursor_leaf(t):
    """A leaf that takes part in the whole cursor protocol (selectable, shows a cursor, implements move_cursor_to_coords)."""
    return t["k"] in CURSOR_LEAVES or (t["k"] == "Probe" and t["o"][4] == 1 and t["o"][5] != "nocursor")


def stratum(t):
    """Sampling stratum of a depth<=1 term: root kind x (two or more cursor leaves side by side) x (no gap between the children)."""
    many = sum(1 for x in t["c"] if is_cursor_leaf(x)) >= 2
    gap = {"Columns": lambda o: o[0], "GridFlow": lambda o: o[1]}.get(t["k"], lambda o: 1)(t["o"])
    return (t["k"], many, gap == 0)


def sizes_for(t):
    """Sizes for every mode the real widget reports (decided by the widget, not by the model)."""
    wtree.set_enc("utf8")
    try:
        w = wtree.World().build(t, "utf8")
        modes = {str(getattr(m, "value", m)) for m in w.sizing()}
    except Exception:  # noqa: BLE001
        return []
    out = []
    if "box" in modes:
        out += BOX_SIZES
    if "flow" in modes:
        out += FLOW_SIZES
    if "fixed" in modes:
        out.append(())
    return out


def tight_sizes(t, modes_sizes):
    """Generator guidance only: sizes (same modes, same rows) at whose width some real Edit of the tree is given exactly the
    columns one of its lines needs (the text fills the line, the cursor behind it has no cell of its own)."""
    import urwid

    wtree.set_enc("utf8")
    out = []
    for base in modes_sizes:
        if not base:
            continue
        for c in range(2, 15):
            size = (c, *base[1:])
            if size in modes_sizes or size in out:
                continue
            try:
                wd = wtree.World()
                w = wd.build(t, "utf8")
                w.render(size, True)
            except Exception:  # noqa: BLE001
                continue
            for lw in wd.probes.values():
                if hasattr(lw, "edit_text") and lw.last is not None:
                    lines = (lw.caption + lw.edit_text).split("\n")
                    if any(ln and urwid.calc_width(ln, 0, len(ln)) == lw.last[0] for ln in lines):
                        out.append(size)
                        break
    return out


def tight_job(job):
    return tight_sizes(job[1], job[2])


def path_to(t, pid, acc=()):
    acc = (*acc, t["k"])
    if t["k"] in wtree.TAGGED_KINDS:
        return acc if t["o"][0] == pid else None
    for x in t["c"]:
        p = path_to(x, pid, acc)
        if p:
            return p
    return None


def fits_py(e):
    """Mirror of GeometryTrace!Fits, used ONLY to count coverage (vacuity), never for a verdict."""
    g = e["grid"]
    if not g or any(n["need"] > n["given"] for n in e["nodes"]):
        return False
    for lf in e["leaves"]:
        if lf["bg"]:
            continue
        cells = [(x, y) for y, r in enumerate(g) for x, v in enumerate(r) if v == lf["id"]]
        if not lf["rendered"] or not cells or len(cells) != lf["w"] * lf["h"]:
            return False
        xs, ys = [c[0] for c in cells], [c[1] for c in cells]
        if max(xs) - min(xs) + 1 != lf["w"] or max(ys) - min(ys) + 1 != lf["h"]:
            return False
    return True


def footer_ids(t):
    """Ids of the tagged leaves drawn in the footer of a Frame that also has a header (coverage only)."""
    out = set()
    if t["k"] == "Frame" and t["o"][0] and t["o"][1] and len(t["c"]) == 3:
        out |= {lt["o"][0] for lt, _bg in wtree.tagged_leaves(t["c"][2])}
    for x in t["c"]:
        out |= footer_ids(x)
    return out


GEOM_KINDS = ("Pile", "Columns", "Frame", "Overlay", "GridFlow", "ListBox", "Padding", "Filler", "LineBox", "AttrMap", "BoxAdapter")


def _handle(chk, traces, res):
    """Report the rejections; returns continuation traces (rendering + the events after a rejection that matched a
    known finding) so that one known defect does not hide the rest of the trace."""
    cont = []
    for ti, l, why in res.rejects:
        tr = traces[ti]
        e = tr["ev"][l - 1]
        r0 = tr["ev"][0]
        if e["t"] == "press" and e.get("after"):       # a press inside a history: the geometry is that of the step before it
            r0 = next(x for x in reversed(tr["ev"][:l - 1]) if x["t"] in ("step", "render"))
        subs = list(c01.sub(tr["term"]))
        sig = {"root": tr["term"]["k"], "event": e["t"], "mode": ("fixed", "flow", "box")[len(tr["size"])], "exc": e.get("exc", "") or e.get("gcc_exc", "")}
        sig["step"] = (e["op"] + ":" + e["key"]) if e["t"] == "step" else ""
        sig["after_steps"] = 1 if e.get("after") else 0
        if e["t"] in ("press", "move"):
            pid = r0["grid"][e["row"]][e["col"]]
            on = set(path_to(tr["term"], pid) or ())
            sig["leaf"] = next((lf["kind"] for lf in r0["leaves"] if lf["id"] == pid), "")
        else:
            on = set(wtree.kinds(tr["term"]))
            sig["leaf"] = ""
        for k in GEOM_KINDS:       # containers / decorations between the root and the leaf concerned (whole term for cursor events)
            sig["via_" + k] = 1 if k in on else 0
        sig["refused_unasked"] = 1 if (e["t"] == "move" and not e["ret"] and not e["asked"] and not e["exc"]) else 0
        sig["accepted_unasked"] = 1 if (e["t"] == "move" and e["ret"] and not e["asked"] and not e["exc"]) else 0
        sig["via_no_move_impl"] = 1 if (sig["via_Frame"] or sig["via_ListBox"] or sig["via_Overlay"]) else 0
        sig["fixed_context"] = 1 if (sig["mode"] == "fixed" or any((x["k"] == "Overlay" and x["o"][1] == "pack") or (x["k"] == "Padding" and x["o"][1] == "clip")
                                                                      for x in subs)) else 0
        sig["gridflow_nested"] = 1 if any(x["k"] == "GridFlow" for x in subs[1:]) else 0
        sig["overlay_pack_height"] = 1 if any(x["k"] == "Overlay" and x["o"][3] == "pack" and x["o"][1] != "pack" for x in subs) else 0
        sig["padding_given"] = 1 if any(x["k"] == "Padding" and x["o"][1] in ("g1", "g3") for x in subs) else 0
        obs = {k: v for k, v in e.items() if k not in ("grid", "leaves")}
        verdict = chk.reject(f"C09.{why}", sig, {"term": tr["term"], "show": wtree.show(tr["term"]), "size": tr["size"], "event_index": l, "observed": obs,
                                                 "grid": ["".join(chr(64 + v) if v else "." for v in r) for r in r0["grid"]],
                                                 "leaves": [{k: v for k, v in lf.items() if k != "acc"} for lf in r0["leaves"]],
                                                 "max_press": tr["max_press"], "max_move": tr["max_move"], "seed": tr["seed"], "max_steps": tr["max_steps"],
                                                 "max_hpress": tr["max_hpress"]})
        if verdict == "known" and l < len(tr["ev"]):
            # continue on the geometry in force after the rejected event (the last rendering / step up to it)
            k = max(i for i, x in enumerate(tr["ev"][:l]) if x["t"] in ("step", "render"))
            head = dict(tr["ev"][k], t="render", skipcur=1, steps=tr["ev"][0]["steps"] + sum(1 for x in tr["ev"][:k + 1] if x["t"] == "step"))
            rest = dict(tr)
            rest["ev"] = [head, *tr["ev"][max(l, 1):]]
            cont.append(rest)
    return cont


def validate_all(chk, good, jobs, name="TV_GeometryTrace"):
    cur, rnd = good, 0
    while cur and rnd < 5:
        res = tlc.validate("GeometryTrace", cur, batch_events=4000, jobs=jobs, timeout=2400)
        chk.add_tv(name if rnd == 0 else f"{name}_continuation{rnd}", res)
        cur = _handle(chk, cur, res)
        rnd += 1


def run(chk):
    quick = chk.tier == "quick"
    rng = chk.rng
    with cf.ThreadPoolExecutor(2) as ex:        # the enumeration overlaps the simulation (independent TLC runs)
        f_d1 = ex.submit(c01.enumerate_terms, chk, "GEN_geom_depth1", workers=3, profile="tiny" if quick else "rep", leaf="probe", d=1, kids=2, sib=0, nodes=8, kinds="geom")
        if quick:
            f_sims = ex.submit(c01.simulate_terms, chk, 300, chk.seed, 8, 3, profile="full", leaf="probe", d=3, kids=3, sib=2, nodes=9, kinds="geom")
        else:
            f_sims = ex.submit(c01.simulate_terms, chk, 5000, chk.seed, 9, 5, profile="full", leaf="probe", d=4, kids=3, sib=3, nodes=11, kinds="geom")
        d1, sims = f_d1.result(), f_sims.result()
    if quick:
        by = {}
        for t in d1:
            by.setdefault(stratum(t), []).append(t)
        d1_run = []
        for key in sorted(by):
            d1_run += rng.sample(by[key], min(len(by[key]), 22 if key[1] else 30))
        max_press, max_move, max_steps, max_hpress = 20, 12, 5, 6
    else:
        d1_run = d1
        max_press, max_move, max_steps, max_hpress = 60, 24, 12, 16
    terms = [wtree.renumber(t) for t in d1_run + sims if any(k in wtree.TAGGED_KINDS for k in wtree.kinds(t))]
    chk.note(f"terms: depth<=1 {len(d1_run)}/{len(d1)}, simulated {len(sims)}")
    jobs, tjobs, tight_at = [], [], set()
    for i, t in enumerate(terms):
        szs = sizes_for(t)
        if quick and len(szs) > 3:
            szs = rng.sample(szs, 3)
        if "TEdit" in wtree.kinds(t):
            base = {len(sz): sz for sz in szs}          # one size per mode
            tjobs.append((i, t, [base[k] for k in sorted(base)]))
        for size in szs:
            jobs.append((t, size, max_press, max_move, chk.seed * 7919 + i, max_steps, max_hpress))
    procs = 4 if quick else 8
    with cf.ProcessPoolExecutor(procs) as ex:
        # more sizes for the trees that hold a real Edit: widths at which one of its lines is exactly full
        for (i, t, _b), tight in zip(tjobs, ex.map(tight_job, tjobs, chunksize=max(1, len(tjobs) // (procs * 8)))):
            for size in (rng.sample(tight, min(len(tight), 2)) if quick else tight):
                tight_at.add(len(jobs))
                jobs.append((t, size, max_press, max_move, chk.seed * 7919 + i, max_steps, max_hpress))
        traces = list(ex.map(observe, jobs, chunksize=max(1, len(jobs) // (procs * 8))))
    for k in tight_at:
        traces[k]["tight"] = 1
    for tr, j in zip(traces, jobs):
        tr["max_press"], tr["max_move"], tr["seed"], tr["max_steps"], tr["max_hpress"] = j[2], j[3], j[4], j[5], j[6]
    good = [tr for tr in traces if tr["ev"]]
    validate_all(chk, good, 4 if quick else 8)
    _coverage(chk, traces, good)


def _coverage(chk, traces, good):
    cc = {}

    def bump(k, n=1):
        cc[k] = cc.get(k, 0) + n

    nontriv = set()
    for tr in traces:
        if tr.get("build_exc"):
            bump("skipped.constructor_rejected")
        elif not tr["ev"]:
            bump("skipped.render_raised_or_ragged(C01)")
    for tr in good:
        r0 = tr["ev"][0]
        fit = fits_py(r0)
        bump("size_fits" if fit else "size_does_not_fit(skipped)")
        if not fit:
            continue
        ks = set(wtree.kinds(tr["term"]))
        if tr.get("tight"):
            bump("tight_size_traces")
            if any(e["t"] == "step" and e["op"] in ("focus", "lbfocus") and fits_py(e) for e in tr["ev"]):
                bump("tight_size_traces.focus_by_program")
        if tr.get("replay_diverged"):
            bump("history_replay_diverged(presses skipped)", tr["replay_diverged"])
        for k in ks:
            bump("fit.kind." + k)
        if r0["rcur"]:
            bump("cursor_compared")
        ids = {lf["id"]: lf for lf in r0["leaves"]}
        foot = footer_ids(tr["term"])
        prev = r0
        for si, e in enumerate(tr["ev"][1:]):
            if e["t"] != "step":
                continue
            bump("step." + e["op"])
            if fits_py(e):
                bump("step_judged")
                if e["op"] == "key" and e["handled"]:
                    bump("step_judged.key_handled")
                if e["rcur"] and prev["rcur"] and e["rcur"] != prev["rcur"]:
                    bump("step_judged.cursor_moved")
                    if "ListBox" in ks:
                        bump("step_judged.cursor_moved_inside_ListBox")
                nontriv.add((json.dumps(tr["term"]), tuple(tr["size"]), "s", si, e["op"] + e["key"]))
            prev = e
        geo, geo_fits = r0, True
        for e in tr["ev"][1:]:
            if e["t"] == "step":
                geo, geo_fits = e, fits_py(e)
                if geo_fits and e["op"] in wtree.STRUCT_OPS:
                    bump("step_judged.structure." + e["op"])
                    # an Edit given exactly the columns its line needs, or clipped, was asked for its cursor after the focus was changed by program
                    if e["op"] in ("focus", "lbfocus") and e["rcur"] and any(lf["kind"] == "TEdit" and lf["rendered"] for lf in e["leaves"]):
                        bump("step_judged.focus_by_program_with_Edit")
                continue
            if e["t"] == "press" and e.get("after"):
                if not geo_fits:
                    continue
                lf = {x["id"]: x for x in geo["leaves"]}.get(geo["grid"][e["row"]][e["col"]])
                if lf and not lf["bg"]:
                    bump("press_after_structure_step")
                    bump("press_after_structure_step." + geo["op"])
                    nontriv.add((json.dumps(tr["term"]), tuple(tr["size"]), "hp", e["after"], e["col"], e["row"]))
                continue
            pid = r0["grid"][e["row"]][e["col"]]
            lf = ids.get(pid)
            if not lf or lf["bg"]:
                continue
            if e["t"] == "press":
                bump("press_on_leaf")
                if pid in foot:
                    bump("press_on_footer_of_frame_with_header")
                    if lf["h"] > 1 or lf["kind"] == "TEdit":
                        bump("press_on_footer_of_frame_with_header.leaf_uses_the_row")
                nontriv.add((json.dumps(tr["term"]), tuple(tr["size"]), "p", e["col"], e["row"]))
            elif lf["sel"] and lf["cursor"]:
                bump("move_on_cursor_leaf")
                bump("move_accepted" if e["ret"] else "move_refused")
                own = [(x, y) for y, r in enumerate(r0["grid"]) for x, v in enumerate(r) if v == pid]
                if (e["col"], e["row"]) in {(f(x for x, _ in own), g(y for _, y in own)) for f in (min, max) for g in (min, max)}:
                    bump("move_on_corner_of_leaf_area")
                    if any(0 <= e["col"] + dx < len(r0["grid"][0]) and ids.get(r0["grid"][e["row"]][e["col"] + dx], {"cursor": 0})["cursor"]
                           and r0["grid"][e["row"]][e["col"] + dx] != pid for dx in (-1, 1)):
                        bump("move_on_cell_touching_another_cursor_leaf")
                nontriv.add((json.dumps(tr["term"]), tuple(tr["size"]), "m", e["col"], e["row"]))
                if lf["kind"] != "Probe":
                    bump("move_on_real_" + lf["kind"])
    chk.cov["clause_counts"] = cc
    chk.cov["distinct_nontrivial"] = len(nontriv)
    chk.cov["rule"] = ("terms enumerated by TLC from spec/WidgetTree.tla with probe / tagged Edit / tagged SelectableIcon leaves under Padding, Filler, LineBox, AttrMap, "
                       "BoxAdapter, Pile, Columns, Frame (body, header and footer: its arity is not bounded by the child bound of the list-like containers), Overlay, GridFlow, "
                       "ListBox (all well-formed depth<=1 terms, TLC-simulated deeper ones); each at box/flow/fixed "
                       "sizes of every mode it reports; move cells: corners of the leaves' areas first, then random; then a history of keys / application cursor moves, "
                       "the reported cursor taken before the next rendering; non-trivial = distinct (term, size, cell) press or move events on a foreground leaf "
                       "and judged history steps at a size satisfying the fit precondition; histories also change the structure by program (focus_position of a "
                       "container, a ListBox's focus through its walker, set_focus_valign, items deleted / inserted above the focus, one frame drawn without "
                       "the focus) and hit-test the state reached (presses on copies brought there by the same steps); trees with a real Edit also at widths "
                       "where one of its lines is exactly full")
    chk.cov["exhaustive"] = True
    for need in ("size_fits", "cursor_compared", "press_on_leaf", "press_on_footer_of_frame_with_header", "press_on_footer_of_frame_with_header.leaf_uses_the_row", "move_accepted", "move_refused", "move_on_real_TEdit", "move_on_corner_of_leaf_area",
                 "move_on_cell_touching_another_cursor_leaf", "step.key", "step.setpos", "step.probecur", "step_judged",
                 "step_judged.focus_by_program_with_Edit", "press_after_structure_step", "tight_size_traces", "tight_size_traces.focus_by_program",
                 *("step_judged.structure." + o for o in wtree.STRUCT_OPS),
                 *("press_after_structure_step." + o for o in ("lbfocus", "lbvalign", "lbdel", "lbins", "focus")), "step_judged.key_handled",
                 "step_judged.cursor_moved", "step_judged.cursor_moved_inside_ListBox") + tuple(
            "fit.kind." + k for k in ("Pile", "Columns", "Frame", "Overlay", "GridFlow", "ListBox", "Padding", "Filler", "LineBox", "AttrMap", "BoxAdapter")):
        if not cc.get(need):
            chk.vacuity.append("driver." + need)
    for tr in good[:1] + good[len(good) // 2:len(good) // 2 + 1]:
        r0 = tr["ev"][0]
        chk.sample({"term": wtree.show(tr["term"]), "size": tr["size"], "grid": ["".join(chr(64 + v) if v else "." for v in r) for r in r0["grid"]],
                    "gcc": r0["gcc"], "render_cursor": r0["rcur"], "events": [{k: v for k, v in e.items()} for e in tr["ev"][1:3]]})
    chk.cov["trusted_base"] = ["TLC", "vf/wtree.py probes (paint their id, record mouse_event / move_cursor_to_coords arguments), build(), observe_geometry()",
                               "vf/wtree.py row_ids(): canvas attributes -> id grid", "vf/tlaparse.py"]
    chk.assumptions += [
        "fit precondition (computed in TLA+): every foreground leaf was rendered and is painted as one full rectangle of the size it was rendered at; sizes that do not fit are skipped",
        "leaves below an Overlay are covered on purpose and are never judged; cells where no leaf is painted (padding, dividers, borders) are not judged",
        "move_cursor_to_coords is judged only on cells painted by a selectable leaf that implements the cursor protocol; the leaf's own answer for each of its cells "
        "(accepts or not, and where it then shows its cursor) is asked on a separate copy rendered at the same size with the same focus flag",
        "after an accepted move the reported cursor must be the one the leaf drawn at the cell chose for the translated cell (the statement's 'on the requested row' "
        "read together with 'delivered to the child drawn there'): the leaf asked is the leaf drawn at the cell and no other leaf accepted anything",
        "each press / move is applied to a copy of the widget in its freshly rendered state (a press may move the focus, which C08 covers)",
        "histories (keys, set_edit_pos, a probe moving its cursor) run on one copy in the rendered state with the last frame held; a key that raises ends the history unjudged (what a key does is C08's)",
        "Scrollable/ScrollBar geometry is C20's; WidgetDisable removes selectability and is not part of the cursor protocol chain",
    ]


def replay(chk, path):
    with open(path) as f:
        rp = json.load(f)["replay"]
    tr = observe((rp["term"], tuple(rp["size"]), rp["max_press"], rp["max_move"], rp["seed"], rp.get("max_steps", 0), rp.get("max_hpress", 0)))
    tr["max_press"], tr["max_move"], tr["seed"], tr["max_steps"], tr["max_hpress"] = rp["max_press"], rp["max_move"], rp["seed"], rp.get("max_steps", 0), rp.get("max_hpress", 0)
    if not tr["ev"]:
        chk.note("term no longer renders")
        return chk.finish()
    validate_all(chk, [tr], 1, "replay")
    chk.sample({"term": wtree.show(tr["term"]), "size": tr["size"]})
    return chk.finish()
