"""C04 — the bytes sent to the terminal paint exactly the rendered canvas (+ HTML back-end).
Oracle: spec/Terminal.tla via spec/RawDisplayTrace.tla; design-level: spec/TerminalMC.tla."""
from __future__ import annotations

import html.parser
import io
import itertools
import json

from .. import term, tlc

PAL = [
    # name, fg, bg, mono, fg_high, bg_high
    ("p_red", "dark red", "dark blue", None, None, None),
    ("p_brt", "light red,bold", "default", "bold", None, None),
    ("p_und", "default,underline", "light gray", "underline", None, None),
    ("p_hi", "yellow", "black", "standout", "#ff0000,italics", "#0000ff"),
    ("p_so", "white,standout", "dark green", "standout", None, None),
    ("p_st", "light blue,strikethrough", "default", "strikethrough,blink", "h100", "h17"),
]
PAL_BY = {p[0]: p for p in PAL}
DEPTHS = [1, 16, 88, 256, 2 ** 24]


NONE_ENTRY = (None, "yellow", "dark blue", "underline", "#ffff00", "#0000ff")     # a palette entry for the attribute None


def expected_pen(attr, depth, none_entry=False):
    """What a terminal should show for a canvas attribute at a colour depth (independent table)."""
    if attr == "nope" or (attr is None and not none_entry):
        return [-1, -1, []]
    if isinstance(attr, tuple) and attr[0] == "spec":   # ("spec", fg, bg): an AttrSpec object
        return term.spec_to_pen(attr[1], attr[2], depth)
    name, fg, bg, mono, fgh, bgh = PAL_BY[attr] if attr is not None else NONE_ENTRY
    if depth == 1:
        return term.spec_to_pen(mono or "default", "default", 1)
    if depth == 16:
        return term.spec_to_pen(fg, bg, 16)
    fgh2 = fgh if fgh is not None else fg
    bgh2 = bgh if bgh is not None else bg
    if depth == 88:
        def large_h(d):
            d = d.split(",")[0]
            return d.startswith("h") and int(d[1:]) > 15
        if large_h(fgh2) or large_h(bgh2):
            return term.spec_to_pen(fg, bg, 16)
    return term.spec_to_pen(fgh2, bgh2, depth)


class Rig:
    """A real raw_display.Screen writing into a string buffer."""

    def __init__(self, colors, bce, encoding, bib, pal_first=False, none_entry=False):
        import urwid
        from urwid.display import raw

        self.urwid = urwid
        urwid.set_encoding(encoding)
        self.encoding = encoding
        self.out = io.StringIO()
        self.screen = raw.Screen(input=io.StringIO(), output=self.out)
        pal = PAL + ([NONE_ENTRY] if none_entry else [])
        if pal_first:   # the order MainLoop(palette=...) uses: palette registered before the terminal properties are set
            for name, fg, bg, mono, fgh, bgh in pal:
                self.screen.register_palette_entry(name, fg, bg, mono, fgh, bgh)
        self.screen.set_terminal_properties(colors=colors, bright_is_bold=bib)
        self.screen.bg_bright_is_blink = False
        self.screen.back_color_erase = bce
        if not pal_first:
            for name, fg, bg, mono, fgh, bgh in pal:
                self.screen.register_palette_entry(name, fg, bg, mono, fgh, bgh)
        self.screen._started = True
        self.colors = colors
        self.cache = {}
        self.back = {}

    def conc_attr(self, a):
        if isinstance(a, (tuple, list)) and a[0] == "spec":
            k = tuple(a)
            if k not in self.cache:
                c = self.urwid.AttrSpec(a[1], a[2], self.colors if self.colors > 1 else 16)
                self.cache[k] = c
                self.back[id(c)] = k
            return self.cache[k]
        return a

    def canvas(self, rows, cursor):
        """rows: list of rows; row = list of (char, attr)."""
        from urwid import util
        from urwid.canvas import TextCanvas

        text, attrs, css = [], [], []
        for row in rows:
            tb = b""
            ar = []
            cr = []
            for ch, a in row:
                b, cs = util.apply_target_encoding(ch)
                tb += b
                a = self.conc_attr(a)
                if ar and ar[-1][0] == a and not (isinstance(a, self.urwid.AttrSpec)):
                    ar[-1] = (a, ar[-1][1] + len(b))
                else:
                    ar.append((a, len(b)))
                for c, n in cs:
                    if cr and cr[-1][0] == c:
                        cr[-1] = (c, cr[-1][1] + n)
                    else:
                        cr.append((c, n))
            text.append(tb)
            attrs.append(ar)
            css.append(cr)
        return TextCanvas(text, attrs, css, cursor=cursor, check_width=True)

    def take(self):
        s = self.out.getvalue()
        self.out.seek(0)
        self.out.truncate()
        return s


class InterruptedCanvas:
    """A canvas during whose traversal the window size changes: content() delivers SIGWINCH to the screen (calls the handler
    the way the signal module would, between two byte codes of the generator) after `k` rows have been handed out.
    One shot: traversed again, it is an ordinary canvas (the canvas cache hands the same object back after the resize)."""

    def __init__(self, canv, k, handler):
        self._canv, self._k, self._handler = canv, k, handler
        self.fired = False

    def __getattr__(self, name):
        return getattr(self._canv, name)

    def _fire(self):
        if not self.fired:
            self.fired = True
            self._handler(28, None)

    def content(self, *args, **kw):
        n = 0
        for row in self._canv.content(*args, **kw):
            if n == self._k:
                self._fire()
            yield row
            n += 1
        if n <= self._k:
            self._fire()      # after the last row, before draw_screen goes on to write


def project(canvas, encoding, depth, attr_back, none_entry=False):
    cells = []
    for row in canvas.content():
        cells.append(term.project_row(row, encoding, lambda a: expected_pen(attr_back(a), depth, none_entry)))
    return cells


def run_sequence(cfg, w, h, ops):
    """ops: ('draw', rows, cursor) | ('redraw',) | ('clear',) | ('resize', w, h) |
    ('draw_interrupted', rows, cursor, k, w, h): the window becomes w x h while the frame is being composed (after k rows).
    Returns a trace."""
    colors, bce, enc, bib = cfg[:4]
    pal_first = bool(cfg[4]) if len(cfg) > 4 else False
    none_entry = bool(cfg[5]) if len(cfg) > 5 else False
    rig = Rig(colors, bce, enc, bib, pal_first, none_entry)
    ev = []

    def attr_back(a):
        # AttrSpec objects project back to the abstract ("spec", fg, bg) they were made from
        if isinstance(a, rig.urwid.AttrSpec):
            return rig.back[id(a)]
        return a

    cw, chh = w, h
    last = None      # (canvas object, rows, cursor, size) of the last frame drawn
    for op in ops:
        if op[0] == "redraw" and (last is None or last[3] != (cw, chh)):
            continue
        if op[0] in ("draw", "redraw"):
            rows, cursor = (op[1], op[2]) if op[0] == "draw" else (last[1], last[2])
            try:
                # "redraw": the very same canvas object again, as the widget canvas cache hands it back
                canv = rig.canvas(rows, tuple(cursor) if cursor else None) if op[0] == "draw" else last[0]
                last = (canv, rows, cursor, (cw, chh))
                rig.screen.draw_screen((cw, chh), canv)
                toks = term.tokenize(rig.take())
                ev += toks
                ev.append({"t": "frame", "cells": project(canv, enc, colors, attr_back, none_entry), "cur": list(cursor) if cursor else []})
            except Exception as ex:  # noqa: BLE001
                ev += term.tokenize(rig.take())
                ev.append({"t": "exc", "exc": type(ex).__name__, "msg": str(ex)[:100]})
        elif op[0] == "draw_interrupted":
            rows, cursor, k, nw, nh = op[1:6]
            try:
                canv = InterruptedCanvas(rig.canvas(rows, tuple(cursor) if cursor else None), k, rig.screen._sigwinch_handler)
                rig.screen.draw_screen((cw, chh), canv)
                if not canv.fired:
                    raise AssertionError("harness: the canvas was not traversed")
                ev += term.tokenize(rig.take())      # whatever was still written for the frame composed for the old size
                # no "frame" event: nothing is claimed about a frame the size change overtook.  The reference terminal has the
                # new size and unknown contents from here on.
                ev.append({"t": "interrupt", "w": nw, "h": nh, "k": k})
                # the application reads its input: Screen.parse_input reports 'window resize' to the main loop
                rig.screen._resized = False
                # a SIGWINCH that ends at the same size: the canvas cache hands the very same canvas object back
                last = (canv, rows, cursor, (nw, nh)) if (nw, nh) == (cw, chh) else None
                cw, chh = nw, nh
            except Exception as ex:  # noqa: BLE001
                ev += term.tokenize(rig.take())
                ev.append({"t": "exc", "exc": type(ex).__name__, "msg": str(ex)[:100]})
        elif op[0] == "clear":
            rig.screen.clear()
            ev.append({"t": "clear"})
        elif op[0] == "resize":
            cw, chh = op[1], op[2]
            rig.screen._sigwinch_handler(28, None)
            # what Screen.parse_input does when it reports 'window resize' to the main loop
            rig.screen._resized = False
            ev.append({"t": "resize", "w": cw, "h": chh})
    # nobce: the display was told the terminal erases to its default background, and is judged on such a terminal
    return {"w": w, "h": h, "bib": bool(bib), "nobce": 0 if bce else 1, "cfg": [colors, bce, enc, bib, pal_first, none_entry], "ops": ops, "ev": ev}


ATTRS_COMMON = [None, "p_red", "p_brt", "p_und", "p_hi", "p_so", "p_st", "nope", ("spec", "dark cyan,italics", "brown"),
                ("spec", "default,strikethrough", "default"), ("spec", "yellow,bold,underline", "dark magenta"),
                ("spec", "light gray", "black")]      # an explicit black background is not the terminal's default background


def alphabet(enc):
    if enc == "utf-8":
        return ["a", "b", " ", " ", "字", "┼", "界"]
    if enc == "euc-jp":
        return ["a", "b", " ", " ", "字", "┼", "界"]
    return ["a", "b", " ", " ", "┼", "é"]


def rand_row(rng, w, enc, attrs, p_space=0.3):
    row = []
    col = 0
    alpha = alphabet(enc)
    a = rng.choice(attrs)
    while col < w:
        if rng.random() < 0.35:
            a = rng.choice(attrs)
        ch = rng.choice(alpha)
        cw = term.char_width(ch)
        if col + cw > w:
            ch = rng.choice(["a", " "])
            cw = 1
        row.append((ch, a))
        col += cw
    if rng.random() < p_space:  # trailing blanks exercise the erase-to-end-of-line shortcut
        k = rng.randint(1, w)
        cut = []
        col = 0
        for ch, at in row:
            if col + term.char_width(ch) > w - k:
                break
            cut.append((ch, at))
            col += term.char_width(ch)
        at = rng.choice(attrs)
        cut += [(" ", at)] * (w - col)
        row = cut
    return row


def attrs_for(depth):
    attrs = list(ATTRS_COMMON)
    if depth in (88, 256):
        attrs.append(("spec", "h9", "h0"))       # colour number 0 chosen by number (at 2^24 low numbers become RGB values: C18)
    if depth >= 256:
        attrs.append(("spec", "h100", "h200"))
    if depth == 2 ** 24:
        attrs.append(("spec", "#123456,bold", "#abcdef"))
    return attrs


def _vary(rng, rows, w, h, enc, attrs, p_change):
    """h rows of width w: the given rows where they fit (each replaced with probability p_change), new rows below them."""
    out = []
    for y in range(h):
        if y < len(rows) and rng.random() >= p_change:
            out.append(list(rows[y]))
        else:
            out.append(rand_row(rng, w, enc, attrs))
    return out


def _cursor(rng, w, h, p=0.5):
    return [rng.randrange(w), rng.randrange(h)] if rng.random() < p else None


def interrupt_sequence(rng, cfg):
    """[a frame,] a frame overtaken by a size change while it is being composed (SIGWINCH after k of its rows), the
    application's 'window resize' processing, then frames at the new size that share rows with the overtaken one
    (same width, height changed or not: what the row diff would skip if it trusted the overtaken frame)."""
    enc, attrs = cfg[2], attrs_for(cfg[0])
    w, h = rng.randint(1, 6), rng.randint(1, 4)
    w0, h0 = w, h
    ops = []
    rows = None
    if rng.random() < 0.7:
        rows = [rand_row(rng, w, enc, attrs) for _ in range(h)]
        ops.append(("draw", rows, _cursor(rng, w, h)))
    for _ in range(rng.choice((1, 1, 2))):
        rows = _vary(rng, rows or [], w, h, enc, attrs, 0.6)
        r = rng.random()
        if r < 0.55:
            nw, nh = w, rng.choice([x for x in range(1, 5) if x != h])
        elif r < 0.8:
            nw, nh = w, h
        else:
            nw, nh = rng.randint(1, 6), rng.randint(1, 4)
        ops.append(("draw_interrupted", rows, _cursor(rng, w, h), rng.randint(0, h), nw, nh))
        if (nw, nh) == (w, h) and rng.random() < 0.4:
            ops.append(("redraw",))             # the canvas cache hands the overtaken canvas object back
        else:
            rows = _vary(rng, rows if nw == w else [], nw, nh, enc, attrs, 0.25)
            ops.append(("draw", rows, _cursor(rng, nw, nh)))
        w, h = nw, nh
        if rng.random() < 0.5:                  # and the incremental path goes on from there
            rows = _vary(rng, rows, w, h, enc, attrs, 0.4)
            ops.append(("draw", rows, _cursor(rng, w, h)))
    return w0, h0, ops


def exhaustive_interrupts(maxh):
    """Every (height, new height, rows handed out before the signal) up to maxh at a fixed width, with and without a frame
    before the overtaken one; the frame after the size change repeats the overtaken frame's rows."""
    mk = lambda tag, n: [[(c, "p_red" if i == y else None) for i, c in enumerate(tag + str(y) + " ")] for y in range(n)]  # noqa: E731
    out = []
    for h in range(1, maxh + 1):
        for nh in range(1, maxh + 1):
            for k in range(h + 1):
                for first in (False, True):
                    ops = [("draw", mk("a", h), [0, 0])] if first else []
                    ops.append(("draw_interrupted", mk("b", h), None, k, 3, nh))
                    ops.append(("draw", mk("b", nh), [1, nh - 1]))
                    out.append((3, h, ops))
    return out


def rand_sequence(rng, cfg):
    enc = cfg[2]
    depth = cfg[0]
    attrs = attrs_for(depth)
    w, h = rng.randint(1, 6), rng.randint(1, 3)
    ops = []
    cw, ch = w, h
    prev = None
    for _ in range(rng.randint(2, 5)):
        r = rng.random()
        if r < 0.12:
            ops.append(("clear",))
            if prev is not None and rng.random() < 0.5:
                ops.append(("redraw",))      # forced repaint of the unchanged (identical) canvas
            continue
        if r < 0.16 and prev is not None:
            ops.append(("resize", cw, ch))   # SIGWINCHs that end at the same size: everything must be repainted
            ops.append(("redraw",))
            continue
        if r < 0.24:
            cw, ch = rng.randint(1, 6), rng.randint(1, 3)
            ops.append(("resize", cw, ch))
            prev = None
        if prev is not None and rng.random() < 0.6:
            # change only some rows / cells: the incremental path
            rows = [list(r0) for r0 in prev]
            for y in range(ch):
                if rng.random() < 0.5:
                    rows[y] = rand_row(rng, cw, enc, attrs)
        else:
            rows = [rand_row(rng, cw, enc, attrs) for _ in range(ch)]
        cursor = [rng.randrange(cw), rng.randrange(ch)] if rng.random() < 0.5 else None
        ops.append(("draw", rows, cursor))
        prev = rows
    return w, h, ops


def exhaustive_bottom_rows(enc, maxw):
    """Every bottom row over the alphabet (two attributes on the last glyphs) at widths 1..maxw, drawn on a
    one- and a two-row screen, fresh and after a different frame: the insert-mode trick's whole input space."""
    alpha = ["a", " ", "字", "┼"] if enc != "iso8859-1" else ["a", " ", "┼", "é"]
    out = []
    for w in range(1, maxw + 1):
        rows = []

        def gen(prefix, col):
            if col == w:
                rows.append(list(prefix))
                return
            for ch in alpha:
                cw = term.char_width(ch)
                if col + cw <= w:
                    gen(prefix + [ch], col + cw)

        gen([], 0)
        for chars in rows:
            for split in (0, 1, 2):   # attribute boundary before the last `split` glyphs
                n = len(chars)
                row = [(c, "p_red" if i >= n - split else None) for i, c in enumerate(chars)]
                out.append((w, 1, [("draw", [row], None)]))
            row = [(c, None) for c in chars]
            other = [("b", "p_und")] * w
            out.append((w, 2, [("draw", [other, other], [0, 0]), ("draw", [other, row], None)]))
    return out


# ---- HTML back-end ---------------------------------------------------------------------------------
class _HP(html.parser.HTMLParser):
    def __init__(self):
        super().__init__(convert_charrefs=True)
        self.text = []
        self.spans = []  # (style, text)
        self.cur = None

    def handle_starttag(self, tag, attrs):
        if tag == "span":
            self.cur = dict(attrs).get("style", "")

    def handle_endtag(self, tag):
        if tag == "span":
            self.cur = None

    def handle_data(self, data):
        self.text.append(data)
        self.spans.append((self.cur, data))


def html_case(rows, cursor, enc):
    """Render through HtmlGenerator; return an event for HtmlTrace (decided inside RawDisplayTrace.tla's HtmlVerdict)."""
    import urwid
    from urwid.display import html_fragment

    urwid.set_encoding(enc)
    rig = Rig(16, True, enc, False)
    canv = rig.canvas(rows, tuple(cursor) if cursor else None)
    scr = html_fragment.HtmlGenerator()
    for name, fg, bg, mono, fgh, bgh in PAL:
        scr.register_palette_entry(name, fg, bg, mono, fgh, bgh)
    html_fragment.HtmlGenerator.fragments = []
    w = sum(term.char_width(c) for c, _ in rows[0])
    try:
        scr.draw_screen((w, len(rows)), canv)
        frag = html_fragment.HtmlGenerator.fragments[-1]
    except Exception as ex:  # noqa: BLE001
        return {"t": "html", "exc": type(ex).__name__, "got": [], "want": [], "cursor_cells": 0, "wantcur": 0, "cur": [], "marks": [], "widths": []}
    p = _HP()
    p.feed(frag)
    got = "".join(p.text)
    got_rows = got.split("\n")
    if got_rows and got_rows[-1] == "":
        got_rows.pop()
    want_rows = []
    for row in rows:
        want_rows.append("".join(c for c, _ in row))
    # a cursor cell is drawn with swapped colours; which span style marks it is back-end specific, so the back-end's own marker is
    # not assumed: the fragment is compared, character by character, with the fragment of the same canvas without a cursor.
    # Recorded per row: for every character its width in screen columns and whether its style changed (HtmlTrace.tla counts
    # the columns and decides which cell that is).
    ncur = 0
    marks = [[0] * len(r) for r in got_rows]
    if cursor:
        canv2 = rig.canvas(rows, None)
        scr.draw_screen((w, len(rows)), canv2)
        frag2 = html_fragment.HtmlGenerator.fragments[-1]
        p2 = _HP()
        p2.feed(frag2)
        # cells whose style changed
        a = [(st, ch) for st, t in p.spans for ch in t]
        b = [(st, ch) for st, t in p2.spans for ch in t]
        ncur = sum(1 for x, y in zip(a, b) if x != y) if len(a) == len(b) else -1
        if len(a) == len(b):
            y = x = 0
            for (sa, ch), (sb, _) in zip(a, b):
                if ch == "\n":
                    y, x = y + 1, 0
                    continue
                if y < len(marks) and x < len(marks[y]):
                    marks[y][x] = 1 if sa != sb else 0
                x += 1
    return {"t": "html", "exc": "", "got": [[ord(c) for c in r] for r in got_rows],
            "want": [[ord(c) for c in r] for r in want_rows], "cursor_cells": ncur, "wantcur": 1 if cursor else 0,
            "cur": list(cursor) if cursor else [], "marks": marks, "widths": [[term.char_width(c) for c in r] for r in got_rows]}


MC_CFG = """CONSTANTS W = {w} H = {h} Depth = {d}
SPECIFICATION Spec
INVARIANT WF
CHECK_DEADLOCK FALSE
"""


RESIZE_CFG = """CONSTANTS MaxH = {h} RowVals = {{1, 2}} Variant = "{v}" MaxDraws = {d}
SPECIFICATION Spec
{invs}
CHECK_DEADLOCK FALSE
"""


def exhaustive_html_cursor(maxw):
    """Every row over {narrow, wide, HTML-special} glyphs up to maxw columns, every cursor column, attribute boundary nowhere /
    after the first glyph / before the last glyph; a second row below so that the cursor row is not the only one."""
    out = []
    for w in range(1, maxw + 1):
        rows = []

        def gen(prefix, col):
            if col == w:
                rows.append(list(prefix))
                return
            for ch in ("a", "字", "&"):
                cw = term.char_width(ch)
                if col + cw <= w:
                    gen(prefix + [ch], col + cw)

        gen([], 0)
        for chars in rows:
            n = len(chars)
            for split in {0, 1, n - 1}:
                row = [(c, "p_red" if i >= split else "p_und") for i, c in enumerate(chars)]
                for cx in range(w):
                    for cy, canvas_rows in ((0, [row, [("b", None)] * w]), (1, [[("界", "p_so")] * (w // 2) + [("b", None)] * (w % 2), row])):
                        out.append((canvas_rows, [cx, cy]))
    return out


def _sig_of(tr, l):
    e = tr["ev"][l - 1]
    sig = {"colors": tr["cfg"][0], "bce": tr["cfg"][1], "enc": tr["cfg"][2], "palette_first": bool(tr["cfg"][4]) if len(tr["cfg"]) > 4 else False}
    if e["t"] == "exc":
        sig["exc"] = e["exc"]
    # characterise the bottom row of the frame being drawn: the insert trick's input
    draws = [o for o in tr["ops"] if o[0] == "draw"]
    nframe = sum(1 for x in tr["ev"][:l] if x["t"] in ("frame", "exc"))
    if draws and nframe:
        rows = draws[min(nframe, len(draws)) - 1][1]
        last = rows[-1]
        widths = [term.char_width(c) for c, _ in last]
        sig["bottom_row_glyph_widths_tail"] = widths[-2:]
        sig["bottom_row_cols"] = sum(widths)
    return sig


def _handle(chk, traces, res, label):
    for ti, l, why in res.rejects:
        tr = traces[ti]
        chk.reject(f"C04.{why}", _sig_of(tr, l), {"driver": label, "cfg": tr["cfg"], "w": tr["w"], "h": tr["h"], "ops": tr["ops"],
                                                   "rejected_event": tr["ev"][l - 1], "tokens_before": tr["ev"][max(0, l - 25):l - 1]})


def configs(quick):
    out = []
    for colors in DEPTHS:
        for bce in (True, False):
            for enc in ("utf-8", "euc-jp", "iso8859-1"):
                for bib in (False, True):
                    for pal_first in (False, True):
                        out.append((colors, bce, enc, bib, pal_first, (len(out) % 3) == 1))    # every third: a palette entry for None
    return out


def run(chk):
    quick = chk.tier == "quick"
    rng = chk.rng
    import concurrent.futures

    pool = concurrent.futures.ThreadPoolExecutor(3)
    f_term = pool.submit(tlc.mc, "TerminalMC", MC_CFG.format(w=3, h=2, d=4 if quick else 5), workers=6, timeout=2400)
    # design model of the row diff against an asynchronous size change: the design holds, the variant that still writes a frame
    # the size change overtook is refuted
    rz = dict(h=3 if quick else 4, d=3 if quick else 4)
    f_rz = pool.submit(tlc.mc, "RawDisplayResize", RESIZE_CFG.format(v="recheck", invs="INVARIANT TypeOK\nINVARIANT ShowsLastCanvas\nINVARIANT BufIsShown", **rz),
                       workers=4, timeout=1200)
    f_rzw = pool.submit(tlc.mc, "RawDisplayResize", RESIZE_CFG.format(v="write", invs="INVARIANT ShowsLastCanvas", **rz), workers=2, timeout=1200)
    traces = []
    cfgs = configs(quick)
    # exhaustive bottom rows (insert trick) on a few configurations
    ex_cfgs = [(16, True, "utf-8", False), (16, False, "utf-8", False), (256, False, "euc-jp", False), (16, False, "iso8859-1", True)]
    n_ex = 0
    for cfg in ex_cfgs:
        for w, h, ops in exhaustive_bottom_rows(cfg[2], 4 if quick else 5):
            traces.append(run_sequence(cfg, w, h, ops))
            n_ex += 1
    n_rand = 2500 if quick else 120000
    for i in range(n_rand):
        cfg = cfgs[i % len(cfgs)]
        w, h, ops = rand_sequence(rng, cfg)
        traces.append(run_sequence(cfg, w, h, ops))
    # size changes that overtake a frame: every (height, new height, signal position) on a few configurations + random sequences
    n_int = 0
    for cfg in ex_cfgs[:2] + ex_cfgs[3:]:
        for w, h, ops in exhaustive_interrupts(3 if quick else 4):
            traces.append(run_sequence(cfg, w, h, ops))
            n_int += 1
    for i in range(500 if quick else 20000):
        cfg = cfgs[(7 * i + 3) % len(cfgs)]
        w, h, ops = interrupt_sequence(rng, cfg)
        traces.append(run_sequence(cfg, w, h, ops))
        n_int += 1
    r = f_term.result()
    chk.add_mc("MC_Terminal_wellformed", r)
    if not r.ok:
        chk.reject("C04.model." + str(r.violated), {"model": "TerminalMC"}, {"tlc_trace": r.trace[-6:]})
    r = f_rz.result()
    chk.add_mc("MC_RawDisplayResize_design", r)
    if not r.ok:
        chk.reject("C04.model." + str(r.violated), {"model": "RawDisplayResize"}, {"tlc_trace": r.trace[-8:]})
    r = f_rzw.result()
    chk.add_mc("MC_RawDisplayResize_refute_write_overtaken_frame", r)
    chk.count("model.variant_refuted.write_overtaken_frame", 0 if r.ok else 1)
    if r.ok:
        chk.vacuity.append("model.RawDisplayResize: writing a frame the size change overtook is not refuted")
    pool.shutdown()
    res = tlc.validate("RawDisplayTrace", traces, batch_events=15000, timeout=2400)
    chk.add_tv("TV_RawDisplayTrace", res)
    _handle(chk, traces, res, "c04")
    # ---- HTML back-end ------------------------------------------------------------------
    htraces = []
    for i in range(400 if quick else 8000):
        enc = "utf-8"
        w, h = rng.randint(1, 6), rng.randint(1, 3)
        rows = [rand_row(rng, w, enc, [None, "p_red", "p_und", "nope", "p_so"]) for _ in range(h)]
        # HTML-special characters must come out escaped
        if rng.random() < 0.5:
            rows[0][0] = (rng.choice("<>&\""), rows[0][0][1]) if term.char_width(rows[0][0][0]) == 1 else rows[0][0]
        cursor = [rng.randrange(w), rng.randrange(h)] if rng.random() < 0.5 else None
        htraces.append({"w": w, "h": h, "rows": rows, "cursor": cursor, "ev": [html_case(rows, cursor, enc)]})
    # which cell is the cursor cell: every small row with wide glyphs, every cursor column
    n_hcur = 0
    for rows, cursor in exhaustive_html_cursor(4 if quick else 6):
        htraces.append({"w": 0, "h": len(rows), "rows": rows, "cursor": cursor, "ev": [html_case(rows, cursor, "utf-8")]})
        n_hcur += 1
    hres = tlc.validate("HtmlTrace", htraces, timeout=1200)
    chk.add_tv("TV_HtmlTrace", hres)
    for ti, l, why in hres.rejects:
        tr = htraces[ti]
        attrs = sorted({str(a) for row in tr["rows"] for _, a in row})
        chk.reject(f"C04.html.{why}", {"backend": "html", "exc": tr["ev"][0]["exc"], "undefined_attr": "nope" in attrs},
                   {"driver": "html", "rows": tr["rows"], "cursor": tr["cursor"], "event": tr["ev"][0]})
    kinds = {}
    nontriv = set()
    for t in traces:
        for e in t["ev"]:
            kinds[e["t"]] = kinds.get(e["t"], 0) + 1
        if kinds.get("irm") or True:
            nontriv.add(json.dumps(t["ops"], default=str))
    # size changes that overtake a frame, and among them those followed by a frame that repeats rows of the overtaken one at the
    # same width (the rows a display trusting the overtaken frame would skip)
    for t in traces:
        ops = t["ops"]
        for i, o in enumerate(ops):
            if o[0] != "draw_interrupted":
                continue
            nxt = ops[i + 1] if i + 1 < len(ops) else None
            if nxt and nxt[0] == "redraw":
                kinds["interrupt.same_canvas_object_again"] = kinds.get("interrupt.same_canvas_object_again", 0) + 1
            elif nxt and nxt[0] == "draw" and any(a == b for a, b in zip(o[1], nxt[1])):
                kinds["interrupt.next_frame_shares_rows"] = kinds.get("interrupt.next_frame_shares_rows", 0) + 1
            if 0 < o[3] < len(o[1]):
                kinds["interrupt.between_two_rows"] = kinds.get("interrupt.between_two_rows", 0) + 1
    for t in htraces:
        e = t["ev"][0]
        if e["cur"]:
            kinds["html.cursor"] = kinds.get("html.cursor", 0) + 1
            y, cx = e["cur"][1], e["cur"][0]
            if y < len(e["widths"]):
                col = 0
                for wd in e["widths"][y]:
                    if col <= cx and wd == 2:
                        kinds["html.cursor_with_wide_glyph_at_or_left"] = kinds.get("html.cursor_with_wide_glyph_at_or_left", 0) + 1
                        break
                    col += wd
    kinds.update(chk.cov.get("clause_counts") or {})
    chk.cov["clause_counts"] = kinds
    chk.cov["distinct_nontrivial"] = len(nontriv)
    chk.cov["rule"] = ("frame sequences (draw/clear/resize) on real raw_display.Screen objects over 60 configurations (depth x bce x encoding x "
                       "bright-is-bold); exhaustive bottom rows over {a, space, wide, DEC glyph} up to width 4/5 plus seeded random sequences; "
                       "distinct = distinct operation sequences")
    chk.cov["bounds"] = {"exhaustive_bottom_row_cases": n_ex, "random_sequences": n_rand, "html_cases": len(htraces), "configs": len(cfgs),
                        "overtaken_frame_sequences": n_int, "html_cursor_cell_cases": n_hcur}
    for v in ("irm", "el", "so", "resize", "clear", "interrupt", "interrupt.next_frame_shares_rows", "interrupt.same_canvas_object_again",
              "interrupt.between_two_rows", "html.cursor_with_wide_glyph_at_or_left"):
        if not kinds.get(v):
            chk.vacuity.append("driver." + v)
    chk.sample({k: traces[0][k] for k in ("cfg", "w", "h", "ops")})
    chk.sample({"tokens": traces[-1]["ev"][:30]})
    chk.cov["trusted_base"] = ["TLC", "Terminal.tla (xterm semantics, DESIGN.md Appendix E)", "vf/term.py tokeniser + canvas projection",
                               "expected_pen palette table in vf/props/c04.py", "unicodedata east_asian_width for the 7-character alphabet"]
    chk.assumptions += ["fbterm / Windows / IBMPC-charset branches are not reachable here", "alternate-buffer (full screen) mode only"]


def replay(chk, path):
    with open(path) as f:
        rp = json.load(f)["replay"]
    if rp.get("driver") == "html":
        rows = [[tuple(c) if not isinstance(c[1], list) else (c[0], tuple(c[1])) for c in row] for row in rp["rows"]]
        tr = {"w": 0, "h": 0, "ev": [html_case(rows, rp["cursor"], "utf-8")]}
        res = tlc.validate("HtmlTrace", [tr])
        chk.add_tv("replay", res)
        for ti, l, why in res.rejects:
            chk.reject(f"C04.html.{why}", {"backend": "html", "exc": tr["ev"][0]["exc"]}, rp)
        return chk.finish()
    ops = []
    for o in rp["ops"]:
        if o[0] == "draw":
            rows = [[(c[0], tuple(c[1]) if isinstance(c[1], list) else c[1]) for c in row] for row in o[1]]
            ops.append(("draw", rows, o[2]))
        elif o[0] == "draw_interrupted":
            rows = [[(c[0], tuple(c[1]) if isinstance(c[1], list) else c[1]) for c in row] for row in o[1]]
            ops.append(("draw_interrupted", rows, *o[2:]))
        else:
            ops.append(tuple(o))
    tr = run_sequence(tuple(rp["cfg"]), rp["w"], rp["h"], ops)
    res = tlc.validate("RawDisplayTrace", [tr])
    chk.add_tv("replay", res)
    _handle(chk, [tr], res, "replay")
    chk.sample({"ops": ops})
    return chk.finish()
