"""C07 — ListBox always shows a gap-free window of its items containing the focus.
Contract: spec/ListBoxOps.tla; model: spec/ListBox.tla; trace spec: spec/ListBoxTrace.tla."""
from __future__ import annotations

import json

from .. import tlc

KEYS = ["up", "down", "page up", "page down", "home", "end", "x"]
HEIGHTS = [0, 1, 1, 2, 2, 3, 7]


def _classes(urwid):
    class Item(urwid.Widget):
        """Flow widget of h rows; row r of item id i reads '<chr(65+i)><r>'.  Optional cursor on row crow."""

        _sizing = frozenset(["flow"])

        def __init__(self, ident, h, selectable, crow=-1):
            super().__init__()
            self.ident, self.h, self._sel, self.crow = ident, h, selectable, crow

        def selectable(self):
            return self._sel

        def rows(self, size, focus=False):
            return self.h

        def render(self, size, focus=False):
            (cols,) = size
            lines = [f"{chr(65 + self.ident % 26)}{r % 10}".ljust(cols)[:cols].encode() for r in range(self.h)]
            cur = (0, self.crow) if (focus and self._sel and 0 <= self.crow < self.h) else None
            return urwid.TextCanvas(lines, maxcol=cols, cursor=cur)

        def get_cursor_coords(self, size):
            if self._sel and 0 <= self.crow < self.h:
                return (0, self.crow)
            return None

        def move_cursor_to_coords(self, size, col, row):
            if self._sel and 0 <= self.crow < self.h:
                self.crow = min(max(row if isinstance(row, int) else 0, 0), self.h - 1)
                self._invalidate()
                return True
            return self._sel

        def get_pref_col(self, size):
            return 0

        def keypress(self, size, key):
            return key

        def mouse_event(self, size, event, button, col, row, focus):
            return False

    class EmptyLenItem(Item):
        """A widget class may define __len__ (every urwid container does): this one reports no children, so it is falsy,
        yet it renders h rows like any other item.  A list item is present when the walker hands out a widget, whatever
        the widget's truth value."""

        def __len__(self):
            return 0

    class FalseItem(Item):
        def __bool__(self):
            return False

    def make_item(ident, h, sel, crow, kind=0):
        """kind 0: plain probe; 1: probe with __len__() == 0; 2: probe with __bool__() False;
        3: a real, empty urwid.Pile (zero rows, not selectable, falsy because Pile defines __len__)"""
        if kind == 3:
            it = urwid.Pile([])
            it.ident, it.h, it._sel, it.crow = ident, 0, False, -1
            return it
        return (Item, EmptyLenItem, FalseItem)[kind](ident, h, sel, crow)

    class PlainWalker(urwid.ListWalker):
        """A hand-written walker over a python list (positions = indices)."""

        def __init__(self, items):
            self.items = items
            self.focus = 0

        def get_focus(self):
            if not self.items:
                return None, None
            self.focus = min(self.focus, len(self.items) - 1)
            return self.items[self.focus], self.focus

        def set_focus(self, pos):
            if not 0 <= pos < len(self.items):
                raise IndexError(pos)
            self.focus = pos
            self._modified()

        def get_next(self, pos):
            if pos is None or pos + 1 >= len(self.items):
                return None, None
            return self.items[pos + 1], pos + 1

        def get_prev(self, pos):
            if pos is None or pos - 1 < 0:
                return None, None
            return self.items[pos - 1], pos - 1

        def positions(self, reverse=False):
            # optional in the ListWalker API, but ListBox's home/end keys call it unconditionally
            return range(len(self.items) - 1, -1, -1) if reverse else range(len(self.items))

    return make_item, PlainWalker


def run_history(spec, ops):
    """spec: {'items': [[h, selectable, crow(, kind)]...], 'w':, 'h':, 'walker': 'focus'|'simple'|'plain'}; ops as tuples."""
    import urwid

    urwid.set_encoding("utf-8")
    make_item, PlainWalker = _classes(urwid)
    nextid = [0]

    def mk(h, sel, crow, kind=0):
        it = make_item(nextid[0], h, bool(sel), crow, kind)
        nextid[0] += 1
        return it

    items = [mk(*t) for t in spec["items"]]
    if spec["walker"] == "focus":
        walker = urwid.SimpleFocusListWalker(items)
        lst = walker
    elif spec["walker"] == "simple":
        walker = urwid.SimpleListWalker(items)
        lst = walker
    else:
        lst = list(items)
        walker = PlainWalker(lst)
    lb = urwid.ListBox(walker)
    state = {"w": spec["w"], "h": spec["h"]}
    ev = []

    def observe(op, exc="", click=None, cc=None):
        e = {"op": list(op), "exc": exc, "view": [], "heights": [it.h for it in lst], "focus": -1, "crow": -1, "h": state["h"], "click": [],
             "cc": cc or [], "falsy": [k for k, it in enumerate(lst) if not it], "tag": tag[0],
             # for the vacuity counters only: was a focus / alignment request still waiting when this rendering was asked for
             "pend": int(bool(lb.set_focus_pending or lb.set_focus_valign_pending))}
        tag[0] = ""
        if not exc:
            try:
                canv = lb.render((state["w"], state["h"]), True)
                for line in canv.text:
                    t = line.decode()
                    if t[:1].isalpha() and t[1:2].isdigit():
                        # identify the item by its letter among the current items (identities are unique mod 26 within a run)
                        cands = [k for k, it in enumerate(lst) if chr(65 + it.ident % 26) == t[0]]
                        e["view"].append([cands[0] if cands else 99, int(t[1])])
                    else:
                        e["view"].append([-1, -1])
                if canv.rows() != state["h"] or canv.cols() != state["w"]:
                    e["exc"] = "wrong_size"
                try:
                    f = lb.focus_position if len(lst) else -1
                except IndexError:
                    # "No focus_position, ListBox is empty" although the list has items: the rendering did not raise, the walker
                    # hands out no focus; recorded as 'no focus' and judged by the clause focus_is_an_item_of_the_list
                    f = -1
                e["focus"] = f if f is not None else -1
                if 0 <= e["focus"] < len(lst):
                    it = lst[e["focus"]]
                    if it._sel and 0 <= it.crow < it.h:
                        e["crow"] = it.crow
            except Exception as ex:  # noqa: BLE001
                e["exc"] = type(ex).__name__
        if e["exc"]:
            try:
                f = lb.focus_position if len(lst) else -1
                e["focus"] = f if f is not None else -1
            except Exception:  # noqa: BLE001
                pass
        if click:
            e["click"] = click
        ev.append(e)
        return e

    opexc = []
    stale = False
    tag = [""]
    last = observe(("init",))
    for op in ops:
        # ("lazy", op): the operation is carried out but the list box is NOT rendered before the next one, as in an application
        # that changes several things between two screen updates (a focus change still pending when the list is modified, ...)
        lazy = op[0] == "lazy"
        if lazy:
            op = tuple(op[1])
            stale = True
        elif op[0] == "press" and stale:
            # what a press is expected to hit is read off the view on screen: bring the screen up to date first
            last = observe(("sync",))
            if last["exc"]:
                break
        if not lazy:
            stale = False
        size = (state["w"], state["h"])
        exc = ""
        click = None
        cc = None
        try:
            if op[0] == "key":
                lb.keypress(size, op[1])
            elif op[0] == "press":
                col, row = op[1], op[2]
                target = last["view"][row] if row < len(last["view"]) else [-1, -1]
                if target[0] >= 0 and target[0] < len(lst):
                    click = [target[0], 1 if lst[target[0]]._sel else 0]
                lb.mouse_event(size, "mouse press", 1, col, row, True)
            elif op[0] == "wheel":
                lb.mouse_event(size, "mouse press", op[1], 0, 0, True)
            elif op[0] == "set_focus":
                if len(lst):
                    lb.set_focus(op[1] % len(lst), op[2])
            elif op[0] == "set_focus_raw":
                # any integer, as an application may pass it: a position that does not exist is refused (IndexError) and nothing changes;
                # whatever is accepted must leave a view the next rendering can show
                try:
                    if op[2]:
                        lb.focus_position = op[1]
                    else:
                        lb.set_focus(op[1])
                except IndexError:
                    pass
            elif op[0] == "valign":
                lb.set_focus_valign(op[1] if not isinstance(op[1], list) else tuple(op[1]))
            elif op[0] == "h":
                state["h"] = op[1]
            elif op[0] == "w":
                state["w"] = op[1]
            elif op[0] == "coords":
                # the parent widget asks where the cursor is (Widget protocol, part of drawing the list box): whatever is
                # still pending is completed here instead of in render; the answer must agree with the rendering that follows
                try:
                    if lb.set_focus_pending or lb.set_focus_valign_pending:
                        tag[0] = "coords_with_request_pending"
                    r = lb.get_cursor_coords(size)
                    cc = [-1, -1] if r is None else [int(r[0]), int(r[1])]
                except Exception as ex:  # noqa: BLE001
                    opexc.append({"op": list(op), "exc": type(ex).__name__, "msg": str(ex)[:80], "h": state["h"]})
                    exc = type(ex).__name__
            elif op[0] == "insert":
                it = mk(*op[2:])
                lst.insert(min(op[1], len(lst)), it)
                if spec["walker"] == "plain":
                    walker._modified()
            elif op[0] == "delete":
                if len(lst):
                    del lst[op[1] % len(lst)]
                    if spec["walker"] == "plain":
                        walker.focus = min(walker.focus, max(0, len(lst) - 1))
                        walker._modified()
            elif op[0] in ("delneg", "pop", "remove"):
                # the other ways a python list loses one item: a negative index (del w[-k], w.pop(-k)), pop() without an index,
                # remove(item).  An exception of the walker's list operation itself is recorded (DIVERGENCE, not a C07 matter);
                # the list box is rendered afterwards all the same and must show a proper window of what the list now holds
                if len(lst):
                    try:
                        if lb.focus_position == len(lst) - 1 and (op[0] == "delneg" and (op[1] - 1) % len(lst) == 0 or op[0] == "pop" and (op[1] is None or op[1] % (2 * len(lst)) == 2 * len(lst) - 1)):
                            tag[0] = "focused_last_item_removed_by_negative_index"
                    except Exception:  # noqa: BLE001
                        pass
                    try:
                        if op[0] == "delneg":
                            del lst[-(1 + (op[1] - 1) % len(lst))]
                        elif op[0] == "pop":
                            lst.pop() if op[1] is None else lst.pop(-len(lst) + (op[1] + len(lst)) % (2 * len(lst)))
                        else:
                            lst.remove(lst[op[1] % len(lst)])
                    finally:
                        if spec["walker"] == "plain":
                            walker.focus = min(walker.focus, max(0, len(lst) - 1))
                            walker._modified()
            elif op[0] == "replace":
                if len(lst):
                    lst[op[1] % len(lst)] = mk(*op[2:])
                    if spec["walker"] == "plain":
                        walker._modified()
            elif op[0] == "clear":
                del lst[:]
                if spec["walker"] == "plain":
                    walker._modified()
            elif op[0] == "iadd":       # refill / extend the walker's list in place: lst += [...]
                lst += [mk(*t) for t in op[1]]
                if spec["walker"] == "plain":
                    walker._modified()
            elif op[0] == "setall":     # lst[:] = [...]
                lst[:] = [mk(*t) for t in op[1]]
                if spec["walker"] == "plain":
                    walker.focus = 0
                    walker._modified()
            elif op[0] == "shift":      # the documented ListBox.shift_focus(size, offset_inset)
                if len(lst):
                    lb.shift_focus(size, op[1])
        except Exception as ex:  # noqa: BLE001
            # the property speaks of rendering: an exception out of keypress / mouse_event / set_focus is recorded and
            # reported as DIVERGENCE; the view rendered afterwards is still judged
            opexc.append({"op": list(op), "exc": type(ex).__name__, "msg": str(ex)[:80], "h": state["h"]})
            click = None
            if type(ex).__name__ == "ListBoxError" and op[0] in ("key", "press", "wheel") and state["h"] > 0:
                # the list box's own view calculation (the one render() uses) gave up while handling input: judged like a
                # rendering failure; exceptions of other kinds / from other calls stay DIVERGENCE (also input handed to a box
                # of zero rows: the statement speaks of rendering such a box, which is judged next)
                exc = "ListBoxError"
        if lazy and not exc:
            continue
        last = observe(op, exc, click, cc)
        if last["exc"]:
            break
    return {"spec": spec, "ops": [list(o) for o in ops], "ev": ev, "opexc": opexc}


def random_item(rng):
    """[h, selectable, crow, kind]: about one item in eight is a falsy widget (kinds 1..3 of make_item)"""
    h = rng.choice(HEIGHTS)
    sel = rng.random() < 0.6
    crow = rng.randrange(h) if (sel and h and rng.random() < 0.5) else -1
    kind = rng.choice([1, 2, 3]) if rng.random() < 0.13 else 0
    if kind == 3:
        h, sel, crow = 0, False, -1
    return [h, 1 if sel else 0, crow, kind]


def random_height(rng):
    return 0 if rng.random() < 0.12 else rng.randint(1, 6)


def random_spec(rng, maxitems=6):
    n = rng.randint(0, maxitems)
    items = [random_item(rng) for _ in range(n)]
    return {"items": items, "w": rng.randint(2, 5), "h": random_height(rng), "walker": rng.choice(["focus", "simple", "plain"])}


def random_ops(rng, n):
    ops = []
    for _ in range(n):
        r = rng.random()
        if r < 0.37:
            ops.append(("key", rng.choice(KEYS)))
        elif r < 0.4:
            ops.append(("coords",))
        elif r < 0.5:
            ops.append(("press", rng.randint(0, 1), rng.randint(0, 5)))
        elif r < 0.55:
            ops.append(("wheel", rng.choice([4, 5])))
        elif r < 0.65:
            ops.append(("set_focus", rng.randint(0, 6), rng.choice([None, "above", "below"])))
            if rng.random() < 0.3:
                ops.append(("set_focus_raw", rng.randint(-4, 8), rng.randint(0, 1)))
        elif r < 0.7:
            ops.append(("valign", rng.choice(["top", "middle", "bottom", ["relative", 30]])))
        elif r < 0.78:
            ops.append(("h", random_height(rng)))
            if rng.random() < 0.3:
                ops.append(("coords",))
        elif r < 0.86:
            ops.append(("insert", rng.randint(0, 6), *random_item(rng)))
        elif r < 0.90:
            ops.append(("delete", rng.randint(0, 6)))
        elif r < 0.94:
            ops.append(rng.choice([("delneg", rng.randint(1, 3)), ("pop", None), ("pop", rng.randint(-3, 3)), ("remove", rng.randint(0, 6))]))
        elif r < 0.98:
            h = rng.choice(HEIGHTS)
            ops.append(("replace", rng.randint(0, 6), h, 1, -1, rng.choice([0, 0, 0, 1, 2])))
        elif r < 0.985:
            ops.append(("clear",))
        else:
            def few():
                out = []
                for _ in range(rng.randint(1, 3)):
                    it = random_item(rng)
                    out.append([it[0], it[1], -1, it[3]])
                return out
            ops.append((rng.choice(["iadd", "iadd", "setall"]), few()))
    # several operations between two renderings
    return [("lazy", o) if o[0] != "press" and rng.random() < 0.3 else o for o in ops]


MC_CFG = """CONSTANTS MaxItems = {n} Heights = {{0, 1, 2, 3}} MaxH = {h} Depth = {d} Bad = "{bad}"
SPECIFICATION Spec
INVARIANT ContractSatisfied
CHECK_DEADLOCK FALSE
"""


def _handle(chk, traces, res):
    for ti, l, why in res.rejects:
        tr = traces[ti]
        e = tr["ev"][l - 1]
        sig = {"walker": tr["spec"]["walker"], "op": e["op"][0], "exc": e["exc"], "h": e["h"], "n_items": len(e["heights"]),
               "has_zero_height": 0 in e["heights"],
               "focus_height": e["heights"][e["focus"]] if 0 <= e["focus"] < len(e["heights"]) else -1, "focus_taller_than_box": bool(e["focus"] >= 0 and e["heights"][e["focus"]] > e["h"])}
        chk.reject(f"C07.{why}", sig, {"spec": tr["spec"], "ops": tr["ops"][:l - 1], "observed": e})


def run(chk):
    quick = chk.tier == "quick"
    rng = chk.rng
    # the model runs overlap the driving of the real widgets below (independent TLC runs)
    import concurrent.futures as cf

    pool = cf.ThreadPoolExecutor(4)
    f_ok = pool.submit(tlc.mc, "ListBox", MC_CFG.format(n=3, h=3, d=4 if quick else 5, bad=""), timeout=2400, workers=4 if quick else 6)
    f_bad = {bad: pool.submit(tlc.mc, "ListBox", MC_CFG.format(n=3, h=3, d=3, bad=bad), timeout=900, workers=2)
             for bad in ("noRefill", "negIndexSlice", "endAtEmpty")}
    traces = []
    # ---- exhaustive: small lists x box heights x every single key / press from the initial state and after 'end' ----
    import itertools

    small = [[0, 0, -1], [1, 1, -1], [2, 0, -1], [3, 1, 1], [7, 1, 5]]
    for n in range(0, 3 if quick else 4):
        for combo in itertools.product(small, repeat=n):
            for h in (1, 2, 4):
                for walker in ("focus", "plain"):
                    spec = {"items": [list(c) for c in combo], "w": 3, "h": h, "walker": walker}
                    for first in ([], [("key", "end")], [("key", "page down")]):
                        for k in KEYS[:6]:
                            traces.append(run_history(spec, [*first, ("key", k), ("press", 0, 0), ("press", 0, h - 1)]))
    # ---- directed: the list emptied in one go and refilled in place, from every focus position ----
    for walker in ("focus", "simple", "plain"):
        for n0 in (2, 3, 4):
            for f in range(n0):
                for k in (1, 2, 3):
                    for how in ("clear", "setall"):
                        base = {"items": [[1, 1, -1]] * n0, "w": 3, "h": 3, "walker": walker}
                        empty = ("clear",) if how == "clear" else ("setall", [])
                        traces.append(run_history(base, [("set_focus", f, None), empty, ("iadd", [[1, 1, -1]] * k), ("key", "down"), ("press", 0, 0)]))
    # ---- directed: one or two focus changes still pending (no rendering in between) when an item is removed / inserted / replaced ----
    for walker in ("focus", "simple", "plain"):
        for n0 in (2, 4):
            for f0 in range(n0):
                for f1 in range(n0):
                    for f2 in (None, *range(n0)):
                        for change in [("delete", k) for k in range(n0)] + [("insert", 0, 1, 1, -1), ("replace", f0, 2, 1, 0), ("clear",)]:
                            base = {"items": [[1, 1, -1]] * n0, "w": 3, "h": 3, "walker": walker}
                            ops = [("set_focus", f0, None), ("lazy", ("set_focus", f1, None))]
                            if f2 is not None:
                                ops.append(("lazy", ("set_focus", f2, "above")))
                            traces.append(run_history(base, [*ops, ("lazy", change), ("h", 3), ("key", "down")]))
    # ---- directed: every integer near the valid range as a focus position, on every walker, then a key ----
    for walker in ("focus", "simple", "plain"):
        for n0 in (0, 1, 3):
            for pos in range(-n0 - 2, n0 + 2):
                for attr in (0, 1):
                    base = {"items": [[1, 1, -1]] * n0, "w": 3, "h": 2, "walker": walker}
                    traces.append(run_history(base, [("set_focus_raw", pos, attr), ("key", "up"), ("key", "down")]))
    # ---- directed: a selectable item with a cursor that is taller than the box, every inset, every cursor row, then every key / wheel ----
    for H in (2, 3, 5, 7):
        for crow in sorted({0, H // 2, H - 1}):
            for h in (1, 2, 3, 4):
                for off in range(-(H - 1), h):
                    for act in [("key", k) for k in ("up", "down", "page up", "page down")] + [("wheel", 4), ("wheel", 5)]:
                        spec = {"items": [[1, 1, -1], [H, 1, crow], [1, 0, -1], [2, 1, 0]], "w": 3, "h": h, "walker": "focus"}
                        traces.append(run_history(spec, [("set_focus", 1, None), ("shift", off), act, act]))
    # ---- directed: a box of ZERO rows (collapsed pane) at every stage: from the start, or after a first rendering; one or two
    # requests (set_focus with any coming_from, set_focus_valign, home / end, a raw position) still pending when the box is
    # rendered / asked for its cursor with zero rows; then the rows come back ----
    reqs = [("set_focus", 2, None), ("set_focus", 1, "above"), ("set_focus", 3, "below"), ("valign", "middle"), ("valign", "bottom"),
            ("valign", ["relative", 30]), ("key", "end"), ("key", "home"), ("set_focus_raw", 2, 1), ("set_focus_raw", 1, 0)]
    mixed = [[1, 1, -1], [2, 1, 1], [1, 0, -1], [3, 1, 0], [1, 1, -1]]
    for walker in ("focus", "simple", "plain"):
        for items in (mixed, mixed[:2], []):
            for h0 in (0, 3):
                for r1 in reqs:
                    for r2 in (None, *reqs[:6:2]):
                        for asked in ("render", "coords", "lazycoords"):
                            if quick and r2 is not None and (asked == "lazycoords" or walker == "simple"):
                                continue
                            pre = [] if r1[0] != "key" or h0 else [("lazy", ("h", 2))]      # the keys are pressed in a box that has rows
                            ops = [*pre, ("lazy", r1)] + ([("lazy", r2)] if r2 else [])
                            zero = {"render": [("h", 0)], "coords": [("lazy", ("h", 0)), ("coords",)],
                                    "lazycoords": [("lazy", ("h", 0)), ("lazy", ("coords",)), ("lazy", ("w", 4)), ("coords",)]}[asked]
                            spec = {"items": items, "w": 3, "h": h0, "walker": walker}
                            traces.append(run_history(spec, [*ops, *zero, ("h", 3), ("coords",), ("key", "down")]))
    # ---- directed: every way a python list loses ONE item (del w[i], del w[-k], pop(), pop(i), pop(-k), remove(x)) with the focus on
    # every position (also requested but not rendered yet), the last one in particular ----
    for walker in ("focus", "simple", "plain"):
        for n0 in (1, 2, 3, 4):
            for f in range(n0):
                rm = [("delete", i) for i in range(n0)] + [("delneg", k) for k in range(1, n0 + 1)] + [("pop", None)] + \
                     [("pop", i) for i in range(-n0, n0)] + [("remove", i) for i in range(n0)]
                for op in rm:
                    for lazyfocus in (False, True):
                        if lazyfocus and quick and op[0] in ("delete", "remove"):
                            continue
                        base = {"items": [[1, 1, -1], [2, 0, -1], [1, 1, 0], [2, 1, 1]][:n0], "w": 3, "h": 3, "walker": walker}
                        sf = ("set_focus", f, None)
                        traces.append(run_history(base, [("lazy", sf) if lazyfocus else sf, op, ("key", "up"), ("coords",), op, ("key", "down")]))
    # ---- directed: a FALSY widget as a list item (a class may define __len__ / __bool__; every empty urwid container is falsy) at
    # every position, the focus at every other one, in boxes that then grow past the whole list and lose their tail ----
    falsy = [[0, 0, -1, 3], [0, 0, -1, 1], [1, 0, -1, 1], [2, 1, -1, 2], [1, 1, 0, 1]]
    for walker in ("focus", "plain", "simple"):
        for n0 in ((3,) if walker == "simple" and quick else (3, 5)):
            for z in range(n0):
                for zi in falsy:
                    for f in range(n0):
                        for cf, va in ((None, None), ("below", None), ("above", "bottom"), (None, "top")):
                            if quick and n0 == 5 and cf is None and va is None and walker != "focus":
                                continue
                            items = [[1 + (k % 2), k % 2, -1, 0] for k in range(n0)]
                            items[z] = zi
                            spec = {"items": items, "w": 3, "h": 2, "walker": walker}
                            ops = [("set_focus", f, cf)] + ([("valign", va)] if va else []) + \
                                  [("h", 4), ("h", 9), ("set_focus", f, "below"), ("delete", n0 - 1), ("h", 3), ("key", "up"), ("key", "down")]
                            traces.append(run_history(spec, ops))
    n_rand = 2500 if quick else 120000
    for _ in range(n_rand):
        traces.append(run_history(random_spec(rng), random_ops(rng, rng.randint(3, 14))))
    r = f_ok.result()
    chk.add_mc("MC_ListBox_contract_satisfiable", r)
    if not r.ok:
        chk.reject("C07.model." + str(r.violated), {"model": "ListBox"}, {"tlc_trace": r.trace[-5:]})
    for bad, what in (("noRefill", "a placement that leaves a gap after deletions"),
                      ("negIndexSlice", "a removal through index -1 that keeps the focus index (focus past the end of the list)"),
                      ("endAtEmpty", "a placement that takes a zero-row item above the focus for the top of the list")):
        rb = f_bad[bad].result()
        chk.cov["contract_refutes_" + bad] = rb.violated == "ContractSatisfied"
        if rb.violated != "ContractSatisfied":
            raise tlc.MachineryError("ListBox.tla no longer refutes " + what)
    chk.cov["contract_refutes_no_refill"] = chk.cov["contract_refutes_noRefill"]
    pool.shutdown()
    res = tlc.validate("ListBoxTrace", traces, batch_events=12000, timeout=2400, jobs=4 if quick else 6)
    chk.add_tv("TV_ListBoxTrace", res)
    _handle(chk, traces, res)
    kinds = {}
    nontriv = set()
    for t in traces:
        for x in t["opexc"]:
            chk.divergence(f"{x['op'][0]}_raised_{x['exc']}" + ("_given_zero_rows" if x["h"] == 0 else ""), {"spec": t["spec"], "ops": t["ops"], "at": x})
        for e in t["ev"]:
            k = f"{t['spec']['walker']}.{e['op'][0]}"
            kinds[k] = kinds.get(k, 0) + 1
            if e["click"] and e["click"][1]:
                kinds["press_on_selectable"] = kinds.get("press_on_selectable", 0) + 1
            if e["crow"] >= 0:
                kinds["cursor_item_focused"] = kinds.get("cursor_item_focused", 0) + 1
            if e["view"] and e["view"][0][1] > 0:
                kinds["top_item_partially_shown"] = kinds.get("top_item_partially_shown", 0) + 1
            extra = []
            if e["h"] == 0 and e["pend"] and not e["exc"]:
                extra.append("zero_rows_rendered_with_request_pending")
            if e["tag"] == "coords_with_request_pending":
                extra.append("coords_asked_with_request_pending" + ("_and_zero_rows" if e["h"] == 0 else ""))
            if e["cc"] and e["cc"][1] >= 0:
                extra.append("coords_answer_checked_against_rendering")
            if e["tag"] == "focused_last_item_removed_by_negative_index":
                extra.append(t["spec"]["walker"] + ".focused_last_item_removed_by_negative_index")
            shown = [x[0] for x in e["view"] if x[0] >= 0]
            if shown and any(min(shown) <= k <= max(shown) and k != e["focus"] for k in e["falsy"]):
                extra.append("falsy_item_inside_window")
                if len(shown) < len(e["view"]) or shown[0] == 0:
                    extra.append("falsy_item_inside_window_that_reaches_an_end_of_the_list")
            for k in extra:
                kinds[k] = kinds.get(k, 0) + 1
            nontriv.add(json.dumps([e["heights"], e["view"], e["focus"]]))
    chk.cov["clause_counts"] = kinds
    chk.cov["distinct_nontrivial"] = len(nontriv)
    chk.cov["rule"] = ("histories of keys / presses / wheel / set_focus / set_focus_valign / resizes / walker insert-delete-replace on real ListBox widgets "
                       "(also by negative index, pop(), remove()), get_cursor_coords, boxes of zero rows "
                       "over row-labelled flow items (heights 0,1,2,3,7; selectable or not; cursor rows; falsy widgets: __len__ 0, __bool__ False, a real empty Pile) with SimpleFocusListWalker, SimpleListWalker "
                       "and a hand-written walker; distinct = distinct (heights, view, focus) observed")
    for v in ("press_on_selectable", "cursor_item_focused", "top_item_partially_shown", "plain.delete", "focus.insert",
              "zero_rows_rendered_with_request_pending", "coords_asked_with_request_pending", "coords_asked_with_request_pending_and_zero_rows",
              "coords_answer_checked_against_rendering", "focus.focused_last_item_removed_by_negative_index",
              "simple.focused_last_item_removed_by_negative_index", "plain.focused_last_item_removed_by_negative_index",
              "falsy_item_inside_window", "falsy_item_inside_window_that_reaches_an_end_of_the_list",
              "focus.pop", "focus.remove", "focus.delneg", "focus.coords"):
        if not kinds.get(v):
            chk.vacuity.append("driver." + v)
    chk.sample({"spec": traces[-1]["spec"], "ops": traces[-1]["ops"], "first_views": [e["view"] for e in traces[-1]["ev"][:3]]})
    chk.cov["trusted_base"] = ["TLC", "row-labelled Item widget and canvas projection in vf/props/c07.py"]
    chk.assumptions += ["wrap_around walkers are not driven (contiguity is ill-defined when the list wraps)",
                        "items report their own rows(); heights change only through list edits",
                        "input handed to a box of zero rows (keypress / mouse_event with maxrow 0) may raise: recorded as DIVERGENCE, the statement speaks of rendering; the rendering that follows is judged"]


def replay(chk, path):
    with open(path) as f:
        rp = json.load(f)["replay"]
    tr = run_history(rp["spec"], [tuple(o) for o in rp["ops"]] + [tuple(rp["observed"]["op"])] if rp["observed"]["op"][0] != "init" else [])
    res = tlc.validate("ListBoxTrace", [tr])
    chk.add_tv("replay", res)
    _handle(chk, [tr], res)
    chk.sample({"spec": rp["spec"], "ops": rp["ops"]})
    return chk.finish()
