"""C07 — ListBox always shows a gap-free window of its items containing the focus.
Contract: spec/ListBoxOps.tla; model: spec/ListBox.tla; trace spec: spec/ListBoxTrace.tla."""
from __future__ import annotations

import json

from .. import tlc

KEYS = ["up", "down", "page up", "page down", "home", "end", "x"]
HEIGHTS = [0, 1, 1, 2, 2, 3, 7]


def _classes(urwid):
    class Item(urwid.Widget):
        """Flow widget of h rows; row r of item id i reads '<chr(65+i)><r>'.  Optional cursor on row crow."""

        _sizing = frozenset(["flow"])

        def __init__(self, ident, h, selectable, crow=-1):
            super().__init__()
            self.ident, self.h, self._sel, self.crow = ident, h, selectable, crow

        def selectable(self):
            return self._sel

        def rows(self, size, focus=False):
            return self.h

        def render(self, size, focus=False):
            (cols,) = size
            lines = [f"{chr(65 + self.ident % 26)}{r % 10}".ljust(cols)[:cols].encode() for r in range(self.h)]
            cur = (0, self.crow) if (focus and self._sel and 0 <= self.crow < self.h) else None
            return urwid.TextCanvas(lines, maxcol=cols, cursor=cur)

        def get_cursor_coords(self, size):
            if self._sel and 0 <= self.crow < self.h:
                return (0, self.crow)
            return None

        def move_cursor_to_coords(self, size, col, row):
            if self._sel and 0 <= self.crow < self.h:
                self.crow = min(max(row if isinstance(row, int) else 0, 0), self.h - 1)
                self._invalidate()
                return True
            return self._sel

        def get_pref_col(self, size):
            return 0

        def keypress(self, size, key):
            return key

        def mouse_event(self, size, event, button, col, row, focus):
            return False

    class PlainWalker(urwid.ListWalker):
        """A hand-written walker over a python list (positions = indices)."""

        def __init__(self, items):
            self.items = items
            self.focus = 0

        def get_focus(self):
            if not self.items:
                return None, None
            self.focus = min(self.focus, len(self.items) - 1)
            return self.items[self.focus], self.focus

        def set_focus(self, pos):
            if not 0 <= pos < len(self.items):
                raise IndexError(pos)
            self.focus = pos
            self._modified()

        def get_next(self, pos):
            if pos is None or pos + 1 >= len(self.items):
                return None, None
            return self.items[pos + 1], pos + 1

        def get_prev(self, pos):
            if pos is None or pos - 1 < 0:
                return None, None
            return self.items[pos - 1], pos - 1

        def positions(self, reverse=False):
            # optional in the ListWalker API, but ListBox's home/end keys call it unconditionally
            return range(len(self.items) - 1, -1, -1) if reverse else range(len(self.items))

    return Item, PlainWalker


def run_history(spec, ops):
    """spec: {'items': [[h, selectable, crow]...], 'w':, 'h':, 'walker': 'focus'|'simple'|'plain'}; ops as tuples."""
    import urwid

    urwid.set_encoding("utf-8")
    Item, PlainWalker = _classes(urwid)
    nextid = [0]

    def mk(h, sel, crow):
        it = Item(nextid[0], h, bool(sel), crow)
        nextid[0] += 1
        return it

    items = [mk(*t) for t in spec["items"]]
    if spec["walker"] == "focus":
        walker = urwid.SimpleFocusListWalker(items)
        lst = walker
    elif spec["walker"] == "simple":
        walker = urwid.SimpleListWalker(items)
        lst = walker
    else:
        lst = list(items)
        walker = PlainWalker(lst)
    lb = urwid.ListBox(walker)
    state = {"w": spec["w"], "h": spec["h"]}
    ev = []

    def observe(op, exc="", click=None):
        e = {"op": list(op), "exc": exc, "view": [], "heights": [it.h for it in lst], "focus": -1, "crow": -1, "h": state["h"], "click": []}
        if not exc:
            try:
                canv = lb.render((state["w"], state["h"]), True)
                idmap = {it.ident: k for k, it in enumerate(lst)}
                for line in canv.text:
                    t = line.decode()
                    if t[:1].isalpha() and t[1:2].isdigit():
                        # identify the item by its letter among the current items (identities are unique mod 26 within a run)
                        cands = [k for k, it in enumerate(lst) if chr(65 + it.ident % 26) == t[0]]
                        e["view"].append([cands[0] if cands else 99, int(t[1])])
                    else:
                        e["view"].append([-1, -1])
                if canv.rows() != state["h"] or canv.cols() != state["w"]:
                    e["exc"] = "wrong_size"
                f = lb.focus_position if len(lst) else -1
                e["focus"] = f if f is not None else -1
                if e["focus"] >= 0:
                    it = lst[e["focus"]]
                    if it._sel and 0 <= it.crow < it.h:
                        e["crow"] = it.crow
            except Exception as ex:  # noqa: BLE001
                e["exc"] = type(ex).__name__
        if e["exc"]:
            try:
                f = lb.focus_position if len(lst) else -1
                e["focus"] = f if f is not None else -1
            except Exception:  # noqa: BLE001
                pass
        if click:
            e["click"] = click
        ev.append(e)
        return e

    opexc = []
    stale = False
    last = observe(("init",))
    for op in ops:
        # ("lazy", op): the operation is carried out but the list box is NOT rendered before the next one, as in an application
        # that changes several things between two screen updates (a focus change still pending when the list is modified, ...)
        lazy = op[0] == "lazy"
        if lazy:
            op = tuple(op[1])
            stale = True
        elif op[0] == "press" and stale:
            # what a press is expected to hit is read off the view on screen: bring the screen up to date first
            last = observe(("sync",))
            if last["exc"]:
                break
        if not lazy:
            stale = False
        size = (state["w"], state["h"])
        exc = ""
        click = None
        try:
            if op[0] == "key":
                lb.keypress(size, op[1])
            elif op[0] == "press":
                col, row = op[1], op[2]
                target = last["view"][row] if row < len(last["view"]) else [-1, -1]
                if target[0] >= 0 and target[0] < len(lst):
                    click = [target[0], 1 if lst[target[0]]._sel else 0]
                lb.mouse_event(size, "mouse press", 1, col, row, True)
            elif op[0] == "wheel":
                lb.mouse_event(size, "mouse press", op[1], 0, 0, True)
            elif op[0] == "set_focus":
                if len(lst):
                    lb.set_focus(op[1] % len(lst), op[2])
            elif op[0] == "set_focus_raw":
                # any integer, as an application may pass it: a position that does not exist is refused (IndexError) and nothing changes;
                # whatever is accepted must leave a view the next rendering can show
                try:
                    if op[2]:
                        lb.focus_position = op[1]
                    else:
                        lb.set_focus(op[1])
                except IndexError:
                    pass
            elif op[0] == "valign":
                lb.set_focus_valign(op[1] if not isinstance(op[1], list) else tuple(op[1]))
            elif op[0] == "h":
                state["h"] = op[1]
            elif op[0] == "w":
                state["w"] = op[1]
            elif op[0] == "insert":
                it = mk(op[2], op[3], op[4])
                lst.insert(min(op[1], len(lst)), it)
                if spec["walker"] == "plain":
                    walker._modified()
            elif op[0] == "delete":
                if len(lst):
                    del lst[op[1] % len(lst)]
                    if spec["walker"] == "plain":
                        walker.focus = min(walker.focus, max(0, len(lst) - 1))
                        walker._modified()
            elif op[0] == "replace":
                if len(lst):
                    lst[op[1] % len(lst)] = mk(op[2], op[3], op[4])
                    if spec["walker"] == "plain":
                        walker._modified()
            elif op[0] == "clear":
                del lst[:]
                if spec["walker"] == "plain":
                    walker._modified()
            elif op[0] == "iadd":       # refill / extend the walker's list in place: lst += [...]
                lst += [mk(*t) for t in op[1]]
                if spec["walker"] == "plain":
                    walker._modified()
            elif op[0] == "setall":     # lst[:] = [...]
                lst[:] = [mk(*t) for t in op[1]]
                if spec["walker"] == "plain":
                    walker.focus = 0
                    walker._modified()
            elif op[0] == "shift":      # the documented ListBox.shift_focus(size, offset_inset)
                if len(lst):
                    lb.shift_focus(size, op[1])
        except Exception as ex:  # noqa: BLE001
            # the property speaks of rendering: an exception out of keypress / mouse_event / set_focus is recorded and
            # reported as DIVERGENCE; the view rendered afterwards is still judged
            opexc.append({"op": list(op), "exc": type(ex).__name__, "msg": str(ex)[:80]})
            click = None
            if type(ex).__name__ == "ListBoxError" and op[0] in ("key", "press", "wheel"):
                # the list box's own view calculation (the one render() uses) gave up while handling input: judged like a
                # rendering failure; exceptions of other kinds / from other calls stay DIVERGENCE
                exc = "ListBoxError"
        if lazy and not exc:
            continue
        last = observe(op, exc, click)
        if last["exc"]:
            break
    return {"spec": spec, "ops": [list(o) for o in ops], "ev": ev, "opexc": opexc}


def random_spec(rng, maxitems=6):
    n = rng.randint(0, maxitems)
    items = []
    for _ in range(n):
        h = rng.choice(HEIGHTS)
        sel = rng.random() < 0.6
        crow = rng.randrange(h) if (sel and h and rng.random() < 0.5) else -1
        items.append([h, 1 if sel else 0, crow])
    return {"items": items, "w": rng.randint(2, 5), "h": rng.randint(1, 6), "walker": rng.choice(["focus", "simple", "plain"])}


def random_ops(rng, n):
    ops = []
    for _ in range(n):
        r = rng.random()
        if r < 0.4:
            ops.append(("key", rng.choice(KEYS)))
        elif r < 0.5:
            ops.append(("press", rng.randint(0, 1), rng.randint(0, 5)))
        elif r < 0.55:
            ops.append(("wheel", rng.choice([4, 5])))
        elif r < 0.65:
            ops.append(("set_focus", rng.randint(0, 6), rng.choice([None, "above", "below"])))
            if rng.random() < 0.3:
                ops.append(("set_focus_raw", rng.randint(-4, 8), rng.randint(0, 1)))
        elif r < 0.7:
            ops.append(("valign", rng.choice(["top", "middle", "bottom", ["relative", 30]])))
        elif r < 0.78:
            ops.append(("h", rng.randint(1, 6)))
        elif r < 0.86:
            h = rng.choice(HEIGHTS)
            sel = rng.random() < 0.6
            ops.append(("insert", rng.randint(0, 6), h, 1 if sel else 0, rng.randrange(h) if (sel and h and rng.random() < 0.5) else -1))
        elif r < 0.94:
            ops.append(("delete", rng.randint(0, 6)))
        elif r < 0.98:
            h = rng.choice(HEIGHTS)
            ops.append(("replace", rng.randint(0, 6), h, 1, -1))
        elif r < 0.985:
            ops.append(("clear",))
        else:
            def few():
                out = []
                for _ in range(rng.randint(1, 3)):
                    h = rng.choice(HEIGHTS)
                    out.append([h, 1 if rng.random() < 0.6 else 0, -1])
                return out
            ops.append((rng.choice(["iadd", "iadd", "setall"]), few()))
    # several operations between two renderings
    return [("lazy", o) if o[0] != "press" and rng.random() < 0.3 else o for o in ops]


MC_CFG = """CONSTANTS MaxItems = {n} Heights = {{0, 1, 2, 3}} MaxH = {h} Depth = {d} Bad = "{bad}"
SPECIFICATION Spec
INVARIANT ContractSatisfied
CHECK_DEADLOCK FALSE
"""


def _handle(chk, traces, res):
    for ti, l, why in res.rejects:
        tr = traces[ti]
        e = tr["ev"][l - 1]
        sig = {"walker": tr["spec"]["walker"], "op": e["op"][0], "exc": e["exc"], "h": e["h"], "n_items": len(e["heights"]),
               "has_zero_height": 0 in e["heights"],
               "focus_height": e["heights"][e["focus"]] if 0 <= e["focus"] < len(e["heights"]) else -1, "focus_taller_than_box": bool(e["focus"] >= 0 and e["heights"][e["focus"]] > e["h"])}
        chk.reject(f"C07.{why}", sig, {"spec": tr["spec"], "ops": tr["ops"][:l - 1], "observed": e})


def run(chk):
    quick = chk.tier == "quick"
    rng = chk.rng
    r = tlc.mc("ListBox", MC_CFG.format(n=3, h=3, d=4 if quick else 5, bad=""), timeout=2400, workers=8)
    chk.add_mc("MC_ListBox_contract_satisfiable", r)
    if not r.ok:
        chk.reject("C07.model." + str(r.violated), {"model": "ListBox"}, {"tlc_trace": r.trace[-5:]})
    rb = tlc.mc("ListBox", MC_CFG.format(n=3, h=3, d=3, bad="noRefill"), timeout=900, workers=8)
    chk.cov["contract_refutes_no_refill"] = rb.violated == "ContractSatisfied"
    if rb.violated != "ContractSatisfied":
        raise tlc.MachineryError("ListBox.tla no longer refutes a placement that leaves a gap after deletions")
    traces = []
    # ---- exhaustive: small lists x box heights x every single key / press from the initial state and after 'end' ----
    import itertools

    small = [[0, 0, -1], [1, 1, -1], [2, 0, -1], [3, 1, 1], [7, 1, 5]]
    for n in range(0, 3 if quick else 4):
        for combo in itertools.product(small, repeat=n):
            for h in (1, 2, 4):
                for walker in ("focus", "plain"):
                    spec = {"items": [list(c) for c in combo], "w": 3, "h": h, "walker": walker}
                    for first in ([], [("key", "end")], [("key", "page down")]):
                        for k in KEYS[:6]:
                            traces.append(run_history(spec, [*first, ("key", k), ("press", 0, 0), ("press", 0, h - 1)]))
    # ---- directed: the list emptied in one go and refilled in place, from every focus position ----
    for walker in ("focus", "simple", "plain"):
        for n0 in (2, 3, 4):
            for f in range(n0):
                for k in (1, 2, 3):
                    for how in ("clear", "setall"):
                        base = {"items": [[1, 1, -1]] * n0, "w": 3, "h": 3, "walker": walker}
                        empty = ("clear",) if how == "clear" else ("setall", [])
                        traces.append(run_history(base, [("set_focus", f, None), empty, ("iadd", [[1, 1, -1]] * k), ("key", "down"), ("press", 0, 0)]))
    # ---- directed: one or two focus changes still pending (no rendering in between) when an item is removed / inserted / replaced ----
    for walker in ("focus", "simple", "plain"):
        for n0 in (2, 4):
            for f0 in range(n0):
                for f1 in range(n0):
                    for f2 in (None, *range(n0)):
                        for change in [("delete", k) for k in range(n0)] + [("insert", 0, 1, 1, -1), ("replace", f0, 2, 1, 0), ("clear",)]:
                            base = {"items": [[1, 1, -1]] * n0, "w": 3, "h": 3, "walker": walker}
                            ops = [("set_focus", f0, None), ("lazy", ("set_focus", f1, None))]
                            if f2 is not None:
                                ops.append(("lazy", ("set_focus", f2, "above")))
                            traces.append(run_history(base, [*ops, ("lazy", change), ("h", 3), ("key", "down")]))
    # ---- directed: every integer near the valid range as a focus position, on every walker, then a key ----
    for walker in ("focus", "simple", "plain"):
        for n0 in (0, 1, 3):
            for pos in range(-n0 - 2, n0 + 2):
                for attr in (0, 1):
                    base = {"items": [[1, 1, -1]] * n0, "w": 3, "h": 2, "walker": walker}
                    traces.append(run_history(base, [("set_focus_raw", pos, attr), ("key", "up"), ("key", "down")]))
    # ---- directed: a selectable item with a cursor that is taller than the box, every inset, every cursor row, then every key / wheel ----
    for H in (2, 3, 5, 7):
        for crow in sorted({0, H // 2, H - 1}):
            for h in (1, 2, 3, 4):
                for off in range(-(H - 1), h):
                    for act in [("key", k) for k in ("up", "down", "page up", "page down")] + [("wheel", 4), ("wheel", 5)]:
                        spec = {"items": [[1, 1, -1], [H, 1, crow], [1, 0, -1], [2, 1, 0]], "w": 3, "h": h, "walker": "focus"}
                        traces.append(run_history(spec, [("set_focus", 1, None), ("shift", off), act, act]))
    n_rand = 2500 if quick else 120000
    for _ in range(n_rand):
        traces.append(run_history(random_spec(rng), random_ops(rng, rng.randint(3, 14))))
    res = tlc.validate("ListBoxTrace", traces, batch_events=12000, timeout=2400)
    chk.add_tv("TV_ListBoxTrace", res)
    _handle(chk, traces, res)
    kinds = {}
    nontriv = set()
    for t in traces:
        for x in t["opexc"]:
            chk.divergence(f"{x['op'][0]}_raised_{x['exc']}", {"spec": t["spec"], "ops": t["ops"], "at": x})
        for e in t["ev"]:
            k = f"{t['spec']['walker']}.{e['op'][0]}"
            kinds[k] = kinds.get(k, 0) + 1
            if e["click"] and e["click"][1]:
                kinds["press_on_selectable"] = kinds.get("press_on_selectable", 0) + 1
            if e["crow"] >= 0:
                kinds["cursor_item_focused"] = kinds.get("cursor_item_focused", 0) + 1
            if e["view"] and e["view"][0][1] > 0:
                kinds["top_item_partially_shown"] = kinds.get("top_item_partially_shown", 0) + 1
            nontriv.add(json.dumps([e["heights"], e["view"], e["focus"]]))
    chk.cov["clause_counts"] = kinds
    chk.cov["distinct_nontrivial"] = len(nontriv)
    chk.cov["rule"] = ("histories of keys / presses / wheel / set_focus / set_focus_valign / resizes / walker insert-delete-replace on real ListBox widgets "
                       "over row-labelled flow items (heights 0,1,2,3,7; selectable or not; cursor rows) with SimpleFocusListWalker, SimpleListWalker "
                       "and a hand-written walker; distinct = distinct (heights, view, focus) observed")
    for v in ("press_on_selectable", "cursor_item_focused", "top_item_partially_shown", "plain.delete", "focus.insert"):
        if not kinds.get(v):
            chk.vacuity.append("driver." + v)
    chk.sample({"spec": traces[-1]["spec"], "ops": traces[-1]["ops"], "first_views": [e["view"] for e in traces[-1]["ev"][:3]]})
    chk.cov["trusted_base"] = ["TLC", "row-labelled Item widget and canvas projection in vf/props/c07.py"]
    chk.assumptions += ["wrap_around walkers are not driven (contiguity is ill-defined when the list wraps)",
                        "items report their own rows(); heights change only through list edits"]


def replay(chk, path):
    with open(path) as f:
        rp = json.load(f)["replay"]
    tr = run_history(rp["spec"], [tuple(o) for o in rp["ops"]] + [tuple(rp["observed"]["op"])] if rp["observed"]["op"][0] != "init" else [])
    res = tlc.validate("ListBoxTrace", [tr])
    chk.add_tv("replay", res)
    _handle(chk, [tr], res)
    chk.sample({"spec": rp["spec"], "ops": rp["ops"]})
    return chk.finish()
