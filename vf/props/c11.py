"""C11 — screen-width arithmetic is consistent for text in every encoding.

Contract: spec/StrUtilOps.tla; consistency model: spec/StrUtil.tla; trace spec: spec/StrUtilTrace.tla.
The driver calls the REAL urwid.str_util / urwid.util functions on a str and on its encoded byte form under
each encoding mode and records the return values as events; TLC decides every verdict (DESIGN.md §4 C11).
"""
from __future__ import annotations

import concurrent.futures as cf
import contextlib
import itertools
import json
import multiprocessing
import random
import time
import warnings

from .. import tlc

# ------------------------------------------------------------------------------------------------
# alphabets: encoding -> class name -> concrete representatives (first one is used for the exhaustive part)
# ------------------------------------------------------------------------------------------------
ALPHA = {
    "utf-8": {
        "ascii": "aZ~", "space": " ", "latin2": "éñα", "wide3": "字界あ　", "zero": "́​ั",
        "dec3": "┼─≤", "wide4": "\U0001f600\U0001f389\U00020000", "narrow3": "€☃",
    },
    "euc-jp": {"ascii_lo": "1 ", "ascii_hi": "aA~@", "dbl_hi": "字界　あ"},
    "big5": {"ascii_lo": "1 ", "ascii_hi": "a@~", "dbl_hi": "界不", "dbl_lo": "字功　一"},
    "gbk": {"ascii_lo": "1 ", "ascii_hi": "a@~", "dbl_hi": "字界亐", "dbl_lo": "丂丄"},
    "iso8859-1": {"ascii": "a~", "space": " ", "latin1": "éÿ£"},
}
MODE_OF = {"utf-8": "utf8", "euc-jp": "wide", "big5": "wide", "gbk": "wide", "iso8859-1": "narrow", "ascii": "narrow", "euc-kr": "wide",
           "cp437": "narrow"}
# encodings one input is read under in the "switch" histories (cp437: a single-byte encoding in which every byte >= 0x20 is a
# printable character of one column, so every byte string without control characters is a text there)
SWITCH_ENCS = ("utf-8", "cp437", "iso8859-1", "euc-jp", "gbk", "big5")
DEC_CHARS = "◆▒␉␌␍␊°±␤␋┘┐┌└┼⎺⎻─⎼⎽├┤┴┬│≤≥π≠£·"

INVALID_UTF8 = [b"\xc3", b"\xe5\xad", b"\xf0\x9f\x98", b"\xc3\x28", b"\xff\xfe", b"\x80\x80", b"\x80", b"a\x80", b"\xe5\xad\x97\xe5", b"\xc0\x80",
                b"\xe0\x80\x80", b"\xf8\x88\x80\x80\x80", b"\xed\xa0\x80", b"\xf4\x90\x80\x80", b"a\xc3", b"\xc3a", b"\xe5a\x97", b"\xbf\xbf\xbf\xbfa",
                b"\xf0\x9f\x98\x80\x80", b"\xe5\xad\x97\x97"]
INVALID_WIDE = [b"\xa4", b"a\xa4", b"\xa4a", b"\xa4\xa4\xa4", b"\x81", b"\x81\x40\x81", b"\x40\xa4", b"\xff", b"\xa4\xa4a\xa4", b"\x80\x40", b"\xa4\x40\x40"]


@contextlib.contextmanager
def encoding(name):
    """Set urwid's process-global encoding mode for one group of calls and restore it afterwards."""
    from urwid import str_util, util

    saved = (util._target_encoding, util._use_dec_special, str_util.get_byte_encoding())
    try:
        util.set_encoding(name)
        yield
    finally:
        util._target_encoding, util._use_dec_special = saved[0], saved[1]
        str_util.set_byte_encoding(saved[2])


def _call(f, *a):
    try:
        with warnings.catch_warnings():
            warnings.simplefilter("ignore")
            return f(*a), ""
    except Exception as ex:  # noqa: BLE001
        return None, type(ex).__name__


class Calls:
    """Collects the results of a group of real calls; the first exception makes the event an 'exc' event."""

    def __init__(self):
        self.exc = ""

    def __call__(self, f, *a, default=0):
        r, x = _call(f, *a)
        if x:
            self.exc = self.exc or f"{f.__name__}:{x}"
            return default
        return r


def table_width(ch):
    """The width table itself (reference path): the wcwidth package, non-printable = 0 columns."""
    import wcwidth

    return max(0, wcwidth.wcwidth(ch))


class Text:
    def __init__(self, s, enc, keep_width=False):
        self.s = s
        self.enc = enc
        self.mode = MODE_OF[enc]
        if keep_width:
            # output encoding: a character the codec lacks is shown as one '?' per column it occupies (the property does not
            # say what stands in for it; what it does say - run lengths = encoded length - is judged on whatever comes out)
            def one(c):
                try:
                    return c.encode(enc)
                except UnicodeEncodeError:
                    return b"?" * table_width(c)
            per = [one(c) for c in s]
            self.bs = b"".join(per)
        else:
            per = [c.encode(enc, "replace") for c in s]
            self.bs = s.encode(enc, "replace")
        if b"".join(per) != self.bs:
            raise tlc.MachineryError(f"codec {enc} is not character-wise for {s!r}")
        self.chars = [{"cp": ord(c), "w": table_width(c), "b": len(p), "enc": list(p)} for c, p in zip(s, per)]
        self.offs = [0]
        for p in per:
            self.offs.append(self.offs[-1] + len(p))
        self.cum = [0]
        for c in self.chars:
            self.cum.append(self.cum[-1] + c["w"])

    def trace(self, ev, kind="text"):
        return {"kind": kind, "mode": self.mode, "enc": self.enc, "chars": self.chars, "ev": ev}


# ------------------------------------------------------------------------------------------------
# events: each runs the real functions on the str and on the bytes and records what they returned
# ------------------------------------------------------------------------------------------------
def ev_width(t, i, j):
    from urwid import str_util as su

    c = Calls()
    o = t.offs
    e = {"op": "width", "i": i, "j": j, "ru": c(su.calc_width, t.s, i, j), "rb": c(su.calc_width, t.bs, o[i], o[j])}
    e["parts"] = [[c(su.calc_width, t.s, i, m), c(su.calc_width, t.s, m, j), c(su.calc_width, t.bs, o[i], o[m]), c(su.calc_width, t.bs, o[m], o[j])]
                  for m in range(i, j + 1)]
    e["exc"] = c.exc
    return e


def ev_pos(t, i, j, col):
    from urwid import str_util as su

    c = Calls()
    o = t.offs
    up, uc = c(su.calc_text_pos, t.s, i, j, col, default=(0, 0))
    bp, bc = c(su.calc_text_pos, t.bs, o[i], o[j], col, default=(0, 0))
    return {"op": "pos", "i": i, "j": j, "col": col, "up": up, "uc": uc, "bp": bp, "bc": bc, "exc": c.exc}


def ev_step(t, i, j):
    from urwid import str_util as su

    c = Calls()
    o = t.offs
    nu = c(su.move_next_char, t.s, i, j)
    nb = c(su.move_next_char, t.bs, o[i], o[j])
    e = {"op": "step", "i": i, "j": j, "nu": nu, "nb": nb, "pu": c(su.move_prev_char, t.s, i, j), "pb": c(su.move_prev_char, t.bs, o[i], o[j])}
    e["npu"] = c(su.move_prev_char, t.s, i, nu) if not c.exc else 0
    e["npb"] = c(su.move_prev_char, t.bs, o[i], nb) if not c.exc else 0
    e["exc"] = c.exc
    return e


def ev_wide(t, i):
    from urwid import str_util as su

    c = Calls()
    return {"op": "wide", "i": i, "ru": bool(c(su.is_wide_char, t.s, i)), "rb": bool(c(su.is_wide_char, t.bs, t.offs[i])), "exc": c.exc}


def ev_dec(t, i):
    from urwid import str_util as su

    c = Calls()
    ro, rn = c(su.decode_one, t.bs, t.offs[i], default=(0, 0))
    lo, lp = c(su.decode_one_right, t.bs, t.offs[i + 1] - 1, default=(0, 0)) or (0, -99)
    return {"op": "dec", "i": i, "ro": ro, "rn": rn, "lo": lo, "lp": lp, "exc": c.exc}


def ev_wdb(t, i, pos):
    from urwid import str_util as su

    c = Calls()
    return {"op": "wdb", "i": i, "pos": pos, "r": c(su.within_double_byte, t.bs, t.offs[i], pos), "exc": c.exc}


def ev_trim(t, i, j, sc, ec):
    from urwid import util

    c = Calls()
    o = t.offs
    return {"op": "trim", "i": i, "j": j, "sc": sc, "ec": ec, "u": list(c(util.calc_trim_text, t.s, i, j, sc, ec, default=(0, 0, 0, 0))),
            "b": list(c(util.calc_trim_text, t.bs, o[i], o[j], sc, ec, default=(0, 0, 0, 0))), "exc": c.exc}


def ev_trimcs(t, sc, ec):
    from urwid import util

    c = Calls()
    n = len(t.bs)
    half = n // 2
    attr = [(1, half), (2, n - half)] if half else [(1, n)]
    out, a, cs = c(util.trim_text_attr_cs, t.bs, attr, [(None, n)], sc, ec, default=(b"", [], []))
    return {"op": "trimcs", "sc": sc, "ec": ec, "t": list(c(util.calc_trim_text, t.bs, 0, n, sc, ec, default=(0, 0, 0, 0))), "out": list(out),
            "al": [r for _, r in a], "cl": [r for _, r in cs], "exc": c.exc}


def ev_enc(t, src, pre="", post=""):
    """apply_target_encoding; pre/post: literal SO / SI control characters wrapped around the text (ctl)."""
    from urwid import util

    c = Calls()
    arg = pre + t.s + post if src == "str" else pre.encode() + t.bs + post.encode()
    out, cs = c(util.apply_target_encoding, arg, default=(b"", []))
    return {"op": "enc", "src": src, "ctl": bool(pre or post), "pre": [ord(x) for x in pre], "post": [ord(x) for x in post], "out": list(out),
            "cs": [["n" if tag is None else str(tag), r] for tag, r in cs], "exc": c.exc}


def text_events(t, *, max_col_extra=1, trims=True):
    """Every call the property quantifies over for one valid text."""
    n = len(t.s)
    ev = []
    for i in range(n + 1):
        for j in range(i, n + 1):
            w = t.cum[j] - t.cum[i]
            ev.append(ev_width(t, i, j))
            for col in range(w + 1 + max_col_extra):
                ev.append(ev_pos(t, i, j, col))
            if i < j:
                ev.append(ev_step(t, i, j))
            if trims:
                for sc in range(w):
                    for ec in range(sc + 1, w + 1):
                        ev.append(ev_trim(t, i, j, sc, ec))
    for i in range(n):
        ev.append(ev_wide(t, i))
        if t.mode == "utf8":
            ev.append(ev_dec(t, i))
        if t.mode == "wide":
            for pos in range(t.offs[i], t.offs[n]):
                ev.append(ev_wdb(t, i, pos))
    w = t.cum[n]
    for sc in range(w):
        for ec in range(sc + 1, w + 1):
            ev.append(ev_trimcs(t, sc, ec))
    return ev


def sampled_events(t, rng, k):
    """k random calls on a longer text."""
    n = len(t.s)
    ev = []
    for _ in range(k):
        i = rng.randint(0, n)
        j = rng.randint(i, n)
        w = t.cum[j] - t.cum[i]
        kind = rng.random()
        if kind < 0.15:
            ev.append(ev_width(t, i, j))
        elif kind < 0.45:
            ev.append(ev_pos(t, i, j, rng.randint(0, w + 1)))
        elif kind < 0.55 and i < j:
            ev.append(ev_step(t, i, j))
        elif kind < 0.9 and w >= 1:
            sc = rng.randint(0, w - 1)
            ev.append(ev_trim(t, i, j, sc, rng.randint(sc + 1, w)))
        elif t.cum[n] >= 1:
            sc = rng.randint(0, t.cum[n] - 1)
            ev.append(ev_trimcs(t, sc, rng.randint(sc + 1, t.cum[n])))
    for i in range(n):
        ev.append(ev_wide(t, i))
        if t.mode == "utf8":
            ev.append(ev_dec(t, i))
        if t.mode == "wide":
            ev.append(ev_wdb(t, rng.randint(0, i), t.offs[i]))
            if t.chars[i]["b"] == 2:
                ev.append(ev_wdb(t, rng.randint(0, i), t.offs[i] + 1))
    return ev


# ------------------------------------------------------------------------------------------------
# "switch" histories: ONE process, ONE input (a byte string or a str), urwid.set_encoding() between the calls
# ------------------------------------------------------------------------------------------------
def view_of_bytes(bs, enc):
    """The text the byte string `bs` is under `enc` (a Text), or None when it is not a text of the modelled domain there."""
    import wcwidth

    try:
        s = bs.decode(enc)
    except UnicodeDecodeError:
        return None
    if any(wcwidth.wcwidth(c) < 0 for c in s):      # control characters
        return None
    try:
        t = Text(s, enc)
    except tlc.MachineryError:
        return None
    if t.bs != bs:
        return None
    if t.mode == "narrow" and any(c["w"] != 1 or c["b"] != 1 for c in t.chars):
        return None
    if t.mode == "wide" and any(c["w"] != c["b"] for c in t.chars):     # half-width kana, three-byte EUC, ambiguous-width characters
        return None
    return t


def view_of_str(s, enc):
    """(Text of the str `s` under `enc` as apply_target_encoding sees it, is every character of it a character of `enc`)."""
    t = Text(s, enc, keep_width=True)
    strict = True
    try:
        strict = s.encode(enc) == t.bs
    except UnicodeEncodeError:
        strict = False
    if strict and t.mode == "narrow":
        strict = all(c["w"] == 1 and c["b"] == 1 for c in t.chars)
    if strict and t.mode == "wide":
        strict = all(c["w"] == c["b"] for c in t.chars)
    return t, strict


def ev_setenc(v, enc):
    """The real urwid.set_encoding(enc); v: number of the view that becomes the active one."""
    from urwid import util

    c = Calls()
    c(util.set_encoding, enc)
    return {"op": "setenc", "v": v, "enc": enc, "got": str(c(util.get_encoding_mode, default="")), "exc": c.exc}


def visit_events(t, rng, full, strict=True, encode=False):
    """The calls made on one reading of the input while its encoding is the active one."""
    n = len(t.s)
    ev = []
    if encode:
        ev += [ev_enc(t, "str"), ev_enc(t, "bytes")]
    if not strict:
        return ev
    if full and n <= 3:
        return ev + text_events(t, max_col_extra=0)
    pairs = [(i, j) for i in range(n + 1) for j in range(i, n + 1)]
    if len(pairs) > 10:
        pairs = [(0, n)] + rng.sample(pairs, 5 if not full else 12)
    for i, j in pairs:
        w = t.cum[j] - t.cum[i]
        ev.append(ev_width(t, i, j))
        ev.append(ev_pos(t, i, j, w))
        if w:
            ev.append(ev_pos(t, i, j, rng.randint(0, w + 1)))
            sc = rng.randint(0, w - 1)
            ev.append(ev_trim(t, i, j, sc, rng.randint(sc + 1, w)))
        if i < j:
            ev.append(ev_step(t, i, j))
    for i in (range(n) if n <= 4 else rng.sample(range(n), 4)):
        ev.append(ev_wide(t, i))
        if t.mode == "utf8":
            ev.append(ev_dec(t, i))
        if t.mode == "wide":
            ev.append(ev_wdb(t, rng.randint(0, i), t.offs[i] + rng.randrange(t.chars[i]["b"])))
    if t.cum[n]:
        sc = rng.randint(0, t.cum[n] - 1)
        ev.append(ev_trimcs(t, sc, rng.randint(sc + 1, t.cum[n])))
    return ev


def switch_trace(spec):
    """spec: {"same": "bytes"|"str", "raw": [byte...] | "cps": [code point...], "encs": [encoding, ...] the order of the
    set_encoding calls (encodings come back), "seed", "full"} -> one history.  None when fewer than two readings exist."""
    rng = random.Random(spec["seed"])
    same = spec["same"]
    order = list(spec["encs"])
    names = list(dict.fromkeys(order))
    if same == "bytes":
        raw = bytes(spec["raw"])
        texts = {enc: view_of_bytes(raw, enc) for enc in names}
        strict = dict.fromkeys(names, True)
    else:
        s = "".join(chr(c) for c in spec["cps"])
        pairs = {enc: view_of_str(s, enc) for enc in names}
        texts = {enc: p[0] for enc, p in pairs.items()}
        strict = {enc: p[1] for enc, p in pairs.items()}
    names = [enc for enc in names if texts[enc] is not None]
    if len(names) < 2:
        return None
    views = [{"enc": enc, "mode": texts[enc].mode, "chars": texts[enc].chars} for enc in names]
    ev = []
    for enc in order:
        if enc not in names:
            continue
        ev.append(ev_setenc(names.index(enc) + 1, enc))
        ev += visit_events(texts[enc], rng, spec.get("full", False), strict[enc], encode=same == "str")
    tr = {"kind": "switch", "mode": "multi", "enc": "multi", "chars": [], "same": same, "views": views, "spec": spec, "ev": ev}
    if same == "bytes":
        tr["raw"] = list(raw)
    return tr


def switch_atoms():
    """Pieces the byte strings of the switch histories are put together from, by origin."""
    ascii_ = [b"a", b"1", b" ", b"@", b"~"]
    utf8 = [c.encode("utf-8") for cls in ALPHA["utf-8"].values() for c in cls if ord(c) > 0x7F]
    wide = [c.encode(enc) for enc in ("euc-jp", "big5", "gbk") for k, cls in ALPHA[enc].items() if k.startswith("dbl") for c in cls]
    latin = [c.encode("iso8859-1") for c in ALPHA["iso8859-1"]["latin1"]]
    # two bytes that are one character in UTF-8 (U+00A1..U+07FF) AND one double-width character in EUC-JP / GBK / Big5
    dual = [bytes((lead, trail)) for lead in range(0xC2, 0xE0) for trail in range(0xA1, 0xC0)]
    return {"ascii": ascii_, "utf8": utf8, "wide": wide, "latin": latin, "dual": dual}


def switch_specs(rng, quick):
    """The inputs and set_encoding orders of the switch histories (which readings exist is found out when they are recorded)."""
    atoms = switch_atoms()
    specs = []

    def order_for(k):
        encs = list(SWITCH_ENCS)
        rng.shuffle(encs)
        encs = encs[:k]
        return encs + encs[:max(1, len(encs) - 1)]         # every encoding but the last comes back

    def add_bytes(bs, k, full=False):
        specs.append({"same": "bytes", "raw": list(bs), "encs": order_for(k), "seed": rng.randrange(1 << 30), "full": full})

    pool = [a for k in ("utf8", "wide", "latin") for a in atoms[k]]
    for a in pool:                                          # every multi-byte character of the alphabets on its own, and doubled
        add_bytes(a, 6, full=not quick)
        add_bytes(a + a, 4 if quick else 6)
    for _ in range(30 if quick else 300):                   # dual characters with ASCII around / between them
        parts = [rng.choice(atoms["dual"]) for _ in range(rng.randint(1, 2))]
        if rng.random() < 0.6:
            parts.insert(rng.randint(0, len(parts)), rng.choice(atoms["ascii"]))
        add_bytes(b"".join(parts), 4 if quick else 6, full=not quick)
    for _ in range(36 if quick else 600):                   # mixtures
        parts = [rng.choice(rng.choice([atoms["ascii"], pool, pool, atoms["dual"]])) for _ in range(rng.randint(2, 3 if quick else 4))]
        add_bytes(b"".join(parts), 4 if quick else 6)
    # one str under several encodings (apply_target_encoding with and without the DEC special charset, widths of its encoded forms)
    strs = ["a─b", "é", "字界", "aé£", "─│┼", "x字─", "£·°", "aa", DEC_CHARS[:5]]
    charpool = "ab ~" + DEC_CHARS + "é£ÿ字界あ"
    for _ in range(25 if quick else 300):
        strs.append("".join(rng.choice(charpool) for _ in range(rng.randint(1, 4))))
    for s in strs:
        specs.append({"same": "str", "cps": [ord(c) for c in s], "encs": order_for(3 if quick else 5), "seed": rng.randrange(1 << 30), "full": False})
    return specs


# ------------------------------------------------------------------------------------------------
# invalid input (beyond the property): raw byte strings
# ------------------------------------------------------------------------------------------------
def raw_traces(bs, mode, enc):
    from urwid import str_util as su

    n = len(bs)
    per_op = {"width": [], "pos": [], "next": [], "prev": [], "wide": []}
    for s in range(n + 1):
        for e in range(s, n + 1):
            r, x = _call(su.calc_width, bs, s, e)
            per_op["width"].append({"op": "width", "s": s, "e": e, "col": 0, "r1": r or 0, "r2": 0, "exc": x})
            for col in range(0, e - s + 2):
                r, x = _call(su.calc_text_pos, bs, s, e, col)
                r = r or (0, 0)
                per_op["pos"].append({"op": "pos", "s": s, "e": e, "col": col, "r1": r[0], "r2": r[1], "exc": x})
            if s < e:
                r, x = _call(su.move_next_char, bs, s, e)
                per_op["next"].append({"op": "next", "s": s, "e": e, "col": 0, "r1": r or 0, "r2": 0, "exc": x})
                r, x = _call(su.move_prev_char, bs, s, e)
                per_op["prev"].append({"op": "prev", "s": s, "e": e, "col": 0, "r1": r or 0, "r2": 0, "exc": x})
    for s in range(n):
        r, x = _call(su.is_wide_char, bs, s)
        per_op["wide"].append({"op": "wide", "s": s, "e": n, "col": 0, "r1": int(bool(r)), "r2": 0, "exc": x})
    return [{"kind": "raw", "mode": mode, "enc": enc, "chars": [], "raw": list(bs), "ev": ev} for ev in per_op.values() if ev]


# ------------------------------------------------------------------------------------------------
# cut-short UTF-8: byte texts in which a multi-byte character is truncated (inside the quantifier: "invalid/truncated UTF-8")
# ------------------------------------------------------------------------------------------------
class Broken(Text):
    """pieces: whole characters (str of length 1) and proper prefixes of the UTF-8 form of a character (bytes).  Every byte of a
    prefix is a character of its own: one column, shown as '?' (the str the bytes are compared with has '?' there)."""

    def __init__(self, pieces):
        self.enc, self.mode, self.pieces = "utf-8", "utf8", pieces
        self.s, self.bs, self.chars, self.bad = "", b"", [], []
        for p in pieces:
            if isinstance(p, str):
                b = p.encode("utf-8")
                self.s += p
                self.chars.append({"cp": ord(p), "w": table_width(p), "b": len(b), "enc": list(b)})
                self.bad.append(0)
            else:
                for x in p:
                    self.s += "?"
                    self.chars.append({"cp": 63, "w": 1, "b": 1, "enc": [x]})
                    self.bad.append(1)
            self.bs += p.encode("utf-8") if isinstance(p, str) else p
        self.offs = [0]
        for c in self.chars:
            self.offs.append(self.offs[-1] + c["b"])
        self.cum = [0]
        for c in self.chars:
            self.cum.append(self.cum[-1] + c["w"])

    def trace(self, ev, kind="broken"):
        tr = Text.trace(self, ev, kind)
        tr["bad"] = self.bad
        tr["pieces"] = [p if isinstance(p, str) else list(p) for p in self.pieces]
        return tr


def pieces_of(wire):
    return [p if isinstance(p, str) else bytes(p) for p in wire]


def broken_events(t, rng, full):
    """Width (with every split), offset for every column, is-wide; trims: all of them on short texts, sampled otherwise."""
    n = len(t.s)
    ev = []
    for i in range(n + 1):
        for j in range(i, n + 1):
            w = t.cum[j] - t.cum[i]
            ev.append(ev_width(t, i, j))
            for col in range(w + 2):
                ev.append(ev_pos(t, i, j, col))
            ranges = [(sc, ec) for sc in range(w) for ec in range(sc + 1, w + 1)]
            if not (full and n <= 4):
                ranges = rng.sample(ranges, min(len(ranges), 2))
            ev += [ev_trim(t, i, j, sc, ec) for sc, ec in ranges]
    ev += [ev_wide(t, i) for i in range(n)]
    w = t.cum[n]
    ranges = [(sc, ec) for sc in range(w) for ec in range(sc + 1, w + 1)]
    ev += [ev_trimcs(t, sc, ec) for sc, ec in (ranges if n <= 4 else rng.sample(ranges, min(len(ranges), 6)))]
    return ev


def broken_texts(rng, quick):
    """Every proper prefix of the UTF-8 form of the multi-byte characters of the alphabet: alone, before / after / between ASCII, next to a
    wide and to a zero-width character, two prefixes in a row; then random mixtures of characters and prefixes."""
    out = []
    chars = [c for cls in ALPHA["utf-8"].values() for c in (cls[:1] if quick else cls) if len(c.encode("utf-8")) > 1]
    pre = [c.encode("utf-8")[:k] for c in chars for k in range(1, len(c.encode("utf-8")))]
    for p in pre:
        out += [[p], ["a", "b", p], [p, "a"], ["a", p, " ", "b"], ["字", p], [p, "字", "a"], ["e", "́", p, "x"]]
        out += [[p, rng.choice(pre)], ["a", rng.choice(pre), p, "b"]]
    every = [c for cls in ALPHA["utf-8"].values() for c in cls]
    for _ in range(60 if quick else 400):
        out.append([rng.choice(pre) if rng.random() < 0.4 else rng.choice(every) for _ in range(rng.randint(2, 5))])
    return out


# ------------------------------------------------------------------------------------------------
# long rows: a full screen row (and more) of double-byte characters without ASCII in between (and the same rows in UTF-8)
# ------------------------------------------------------------------------------------------------
def long_texts(rng, enc, quick):
    """Rows of 33..70 multi-byte characters: one unbroken run, a run after / around ASCII, runs of high-trail-byte characters only."""
    al = ALPHA[enc]
    hi = al.get("dbl_hi") or al.get("wide3")
    both = hi + al.get("dbl_lo", "")
    out = []
    for n in ((33, 40, 48) if quick else (32, 33, 34, 40, 48, 65)):
        out.append("".join(rng.choice(hi) for _ in range(n)))
        out.append("a" + "".join(rng.choice(hi) for _ in range(n)))
        if n == 40 or (not quick and n < 40):
            out.append("".join(rng.choice(both) for _ in range(n)))
            out.append("".join(rng.choice(hi) for _ in range(n)) + " " + "".join(rng.choice(hi) for _ in range(n)) + "b")
    return out


def long_events(t, rng, k):
    """Calls whose offsets / columns lie far into the row (beyond byte 64 of a run) as well as near its start."""
    n = len(t.s)
    W = t.cum[n]
    ev = [ev_width(t, 0, n)]
    far = lambda: rng.randint(min(n, 31), n)   # noqa: E731
    for _ in range(k):
        i = rng.choice([0, 0, 0, 1, rng.randint(0, n)])
        j = rng.choice([n, n, far()])
        if j < i:
            i, j = j, i
        w = t.cum[j] - t.cum[i]
        ev.append(ev_pos(t, i, j, rng.randint(max(0, w - 24), w + 1)))
        ev.append(ev_pos(t, i, j, rng.randint(0, w + 1)))
        if i < j:
            ev.append(ev_step(t, i, j))
        if w >= 2:
            ec = rng.randint(max(1, w - 20), w)
            ev.append(ev_trim(t, i, j, rng.randint(0, ec - 1), ec))
            sc = rng.randint(max(0, w - 20), w - 1)
            ev.append(ev_trim(t, i, j, sc, rng.randint(sc + 1, w)))
        if W >= 2:
            ec = rng.randint(max(1, W - 20), W)
            ev.append(ev_trimcs(t, rng.randint(0, ec - 1), ec))
        if t.mode == "wide" and i < n:
            for pos in (rng.randrange(t.offs[i], t.offs[n]), rng.randrange(max(t.offs[i], t.offs[n] - 24), t.offs[n])):
                ev.append(ev_wdb(t, i, pos))
    return ev


# ------------------------------------------------------------------------------------------------
# per-code-point sweep (UTF-8 mode): str path against bytes path
# ------------------------------------------------------------------------------------------------
def cp_event(cp):
    from urwid import str_util as su

    ch = chr(cp)
    b = ch.encode("utf-8")
    n = len(b)
    c = Calls()
    e = {"op": "cp", "cp": cp, "tw": table_width(ch), "gw": c(su.get_char_width, ch), "gwo": c(su.get_width, cp), "blen": n,
         "su": c(su.calc_width, ch, 0, 1), "sb": c(su.calc_width, b, 0, n), "wu": bool(c(su.is_wide_char, ch, 0)), "wb": bool(c(su.is_wide_char, b, 0)),
         "nb": c(su.move_next_char, b, 0, n), "pb": c(su.move_prev_char, b, 0, n)}
    e["do"], e["dn"] = c(su.decode_one, b, 0, default=(0, 0))
    e["lo"], e["lp"] = c(su.decode_one_right, b, n - 1, default=(0, 0)) or (0, -99)
    e["cu"] = c(su.calc_width, "a" + ch + "b", 0, 3)
    e["cb"] = c(su.calc_width, b"a" + b + b"b", 0, n + 2)
    e["p1u"] = list(c(su.calc_text_pos, "a" + ch, 0, 2, 2, default=(0, 0)))
    e["p1b"] = list(c(su.calc_text_pos, b"a" + b, 0, n + 1, 2, default=(0, 0)))
    e["exc"] = c.exc
    return e


def is_scalar(cp):
    return 0 <= cp <= 0x10FFFF and not 0xD800 <= cp <= 0xDFFF


def table_boundaries():
    """Code points at which the width table changes value (and their neighbours), plus the UTF-8 length boundaries."""
    out = set()
    prev = None
    # planes 4-13 are unassigned and 15-16 private use (constant width): only their first and last code points are taken
    for cp in itertools.chain(range(0x40000), range(0xE0000, 0xF0100)):
        if not is_scalar(cp):
            prev = None
            continue
        w = table_width(chr(cp))
        if prev is not None and w != prev:
            out.update((cp - 1, cp))
        prev = w
    out.update((0, 0x7F, 0x80, 0x7FF, 0x800, 0xD7FF, 0xE000, 0xFFFD, 0xFFFF, 0x10000, 0x40000, 0xDFFFF, 0xFFFFF, 0x100000, 0x10FFFF))
    return sorted(cp for cp in out if is_scalar(cp))


# ------------------------------------------------------------------------------------------------
MC_INVS = ["Additive", "WidthStrBytesAgree", "RefPosOK", "PosStrBytesAgree", "NextPrev", "RefTrimOK", "TrimStrBytesAgree", "AsCodedTrimOK",
           "AsCodedWidePosOK", "EncodeLaws", "ReadingsOfOneByteString"]
MC_PINNED = ["PosPinned", "TrimPinned"]
MC_WRONG = ["WrongPosAccepted", "WrongPosLateAccepted", "WrongPrevAccepted", "WrongTrimAccepted", "WrongTrimNoPadAccepted", "WrongStaleWidthAccepted"]


def mc_cfg(maxlen, classes, invs):
    return (f"CONSTANTS MaxLen = {maxlen} ClassIds = {{{', '.join(map(str, classes))}}}\nSPECIFICATION Spec\n"
            + "".join(f"INVARIANT {i}\n" for i in invs) + "CHECK_DEADLOCK FALSE\n")


def start_models(quick):
    """Launch the TLC runs on the consistency model in background threads (they overlap with the recording of traces)."""
    runs = [("MC_StrUtil_laws_len3_pinned", 3, range(1, 9), MC_INVS + MC_PINNED + ["WrongVariantsRefuted"])]
    if not quick:
        runs += [("MC_StrUtil_laws_len4", 4, range(1, 9), MC_INVS), ("MC_StrUtil_laws_len5", 5, (1, 3, 4, 6, 7), MC_INVS),
                 ("MC_StrUtil_pinned_len4", 4, (1, 2, 3, 4, 7), MC_PINNED)]
    ex = cf.ThreadPoolExecutor(3)
    futs = [(name, None, ex.submit(tlc.mc, "StrUtil", mc_cfg(n, classes, invs), workers=6, timeout=1500)) for name, n, classes, invs in runs]
    if not quick:   # each wrong variant on its own must be violated (quick: only the holding invariant WrongVariantsRefuted)
        futs += [("refute_" + wv, wv, ex.submit(tlc.mc, "StrUtil", mc_cfg(2, range(1, 9), [wv]), workers=1, timeout=300)) for wv in MC_WRONG]
    ex.shutdown(wait=False)
    return futs


def finish_models(chk, futs):
    refuted = 0
    for name, wv, fut in futs:
        r = fut.result()
        if wv is None:
            chk.add_mc(name, r)
            if r.ok and name == "MC_StrUtil_laws_len3_pinned":
                refuted += 7    # invariant WrongVariantsRefuted held: every wrong variant has a refuting text
            if not r.ok:
                chk.reject("C11.model." + str(r.violated), {"model": "StrUtil", "run": name}, {"tlc_trace": r.trace[-2:]})
        else:   # a deliberately wrong variant: TLC must refute it
            chk.cov["tlc_runs"].append({"run": name, "violated": r.violated, "wall_s": round(r.wall_s, 1)})
            if r.violated == wv:
                refuted += 1
            else:
                chk.vacuity.append(f"wrong variant {wv} was NOT refuted by the contract")
    chk.count("model.wrong_variants_refuted", refuted)


# ------------------------------------------------------------------------------------------------
# work items: recorded in forked worker processes (each sets and restores the encoding mode itself),
# results stream back in order and are handed to TLC in large batches while recording goes on
# ------------------------------------------------------------------------------------------------
def random_text(rng, enc, n):
    classes = list(ALPHA[enc].values())
    return "".join(rng.choice(rng.choice(classes)) for _ in range(n))


def enc_texts(rng, quick):
    pool = "ab ~_`" + DEC_CHARS[:6] + "┼─é字\U0001f600́?"
    texts = ["", "a", DEC_CHARS, "a" + DEC_CHARS[14] + "b", DEC_CHARS[10:14], "x──y│", "é─字", "£·°±", "πr"]
    texts += [c for c in DEC_CHARS]
    texts += [a + b for a in "a─字" for b in "a│é"]
    for _ in range(150 if quick else 4000):
        texts.append("".join(rng.choice(pool + DEC_CHARS) for _ in range(rng.randint(1, 8))))
    return texts


def work(item):
    kind, enc = item[0], item[1]
    out = []
    with encoding(enc):
        if kind == "sweep":
            out.append({"kind": "cps", "mode": "utf8", "enc": "utf-8", "chars": [], "ev": [cp_event(cp) for cp in item[2]]})
        elif kind == "exh":     # every text of exactly n characters over the classes (optionally with a fixed first class)
            _, _, n, first, rep, skip = item
            classes = [v for k, v in ALPHA[enc].items() if k not in skip]
            axes = [classes] * n
            if n and first is not None:
                axes = [[classes[first]]] + [classes] * (n - 1)
            for combo in itertools.product(*axes):
                t = Text("".join(c[min(rep, len(c) - 1)] for c in combo), enc)
                out.append(t.trace(text_events(t)))
        elif kind == "rand":
            _, _, count, seed, nmax, k = item
            rng = random.Random(seed)
            for _ in range(count):
                t = Text(random_text(rng, enc, rng.randint(2, nmax)), enc)
                out.append(t.trace(sampled_events(t, rng, k)))
        elif kind == "enc":
            for s in item[2]:
                t = Text(s, enc, keep_width=True)
                ev = [ev_enc(t, "str"), ev_enc(t, "bytes")]
                ev += [ev_enc(t, "str", "\x0e", "\x0f"), ev_enc(t, "str", "\x0f", "\x0e"), ev_enc(t, "bytes", "\x0e", ""), ev_enc(t, "str", "\x0e\x0e", "\x0f\x0f\x0e")]
                out.append(t.trace(ev, "enc"))
        elif kind == "switch":  # histories that change the encoding themselves (restored by the context manager above)
            for spec in item[2]:
                tr = switch_trace(spec)
                if tr is not None:
                    out.append(tr)
        elif kind == "long":    # full rows of multi-byte characters
            _, _, texts, seed, k = item
            rng = random.Random(seed)
            for txt in texts:
                t = Text(txt, enc)
                out.append(t.trace(long_events(t, rng, k)))
        elif kind == "broken":  # cut-short multi-byte characters inside UTF-8 byte texts
            _, _, texts, seed, full = item
            rng = random.Random(seed)
            for pieces in texts:
                t = Broken(pieces)
                out.append(t.trace(broken_events(t, rng, full)))
        elif kind == "raw":     # invalid / truncated input: beyond the property (DIVERGENCE only)
            for bs in item[2]:
                out += raw_traces(bs, MODE_OF[enc], enc)
    return out


def work_items(chk, quick):
    rng = chk.rng
    items = []
    for enc in ALPHA:
        ncls = len(ALPHA[enc])
        maxlen = 3 if quick else (4 if enc in ("utf-8", "gbk", "iso8859-1") else 5)
        # quick: "narrow3" has the shape of "dec3" (one column, three bytes) and only appears in the random texts
        skip = ("narrow3",) if quick and enc == "utf-8" else ()
        for n in range(0, maxlen + 1):
            if n >= 3 and not quick:
                sk = ("narrow3",) if enc == "utf-8" and n == 4 else ()     # length 4: seven classes (dec3 has the shape of narrow3)
                items += [("exh", enc, n, first, 0, sk) for first in range(ncls - len(sk))]
            else:
                items.append(("exh", enc, n, None, 0, skip))
        if quick:
            items.append(("rand", enc, 120, rng.randrange(1 << 30), 5, 12))
        else:
            items += [("rand", enc, 250, rng.randrange(1 << 30), 9, 40) for _ in range(12 if enc == "utf-8" else 4)]
            items += [("exh", enc, n, None, rep, ()) for rep in (1, 2) for n in (1, 2, 3)]   # other representatives of the classes
    texts = enc_texts(rng, quick)
    for enc in ("utf-8", "iso8859-1", "ascii", "euc-jp", "big5", "gbk"):
        items += [("enc", enc, texts[k:k + 500]) for k in range(0, len(texts), 500)]
    specs = switch_specs(rng, quick)
    items += [("switch", "utf-8", specs[k:k + 40]) for k in range(0, len(specs), 40)]
    for enc, pool in (("utf-8", INVALID_UTF8), ("euc-jp", INVALID_WIDE), ("big5", INVALID_WIDE)):
        extra = [bytes(rng.choice([0x61, 0x80, 0xBF, 0xC3, 0xE5, 0xF0, 0xA4, 0x40, 0x97]) for _ in range(rng.randint(1, 5))) for _ in range(20 if quick else 400)]
        items.append(("raw", enc, pool + extra))
    for enc in ("euc-jp", "big5", "gbk", "utf-8"):
        lt = long_texts(rng, enc, quick)
        items += [("long", enc, lt[k:k + 10], rng.randrange(1 << 30), 6 if quick else 10) for k in range(0, len(lt), 10)]
    bt = broken_texts(rng, quick)
    items += [("broken", "utf-8", bt[k:k + 60], rng.randrange(1 << 30), not quick) for k in range(0, len(bt), 60)]
    # the per-code-point sweep
    if quick:
        cps = set(table_boundaries())
        cps.update(range(0, 0x300))
        while len(cps) < 30000:
            cp = rng.randrange(0x110000)
            if is_scalar(cp):
                cps.add(cp)
        cps = sorted(cps)
    else:
        cps = [cp for cp in range(0x110000) if is_scalar(cp)]
    chk.count("sweep.code_points", len(cps))
    chk.cov["sweep_exhaustive"] = not quick
    items += [("sweep", "utf-8", cps[k:k + 2500]) for k in range(0, len(cps), 2500)]
    return items


def _view_at(tr, l):
    """switch histories: the reading that is active at event number l (1-based) - the one TLC judged the event against."""
    if tr["kind"] != "switch":
        return tr
    v = 0
    for e in tr["ev"][:l]:
        if e["op"] == "setenc":
            v = e["v"]
    return tr["views"][v - 1] if v else {"mode": "none", "enc": "none", "chars": []}


def _sig(tr, e, why, l=0):
    vw = _view_at(tr, l)
    sig = {"kind": tr["kind"], "mode": vw["mode"], "enc": vw["enc"], "op": e["op"], "exc": e.get("exc", "")}
    if tr["kind"] == "switch":
        sig["same"] = tr["same"]
    if tr["kind"] in ("text", "enc", "switch", "broken"):
        ws = [c["w"] for c in vw["chars"]]
        sig["has_wide"] = 2 in ws
        sig["has_zero_width"] = 0 in ws
    if tr["kind"] == "cps":
        sig["cp"] = e["cp"]
    return sig


def _replay_of(tr, e, l=0):
    rp = {"kind": tr["kind"], "mode": tr["mode"], "enc": tr["enc"], "event": e}
    if tr["kind"] == "switch":      # the whole history is replayed: the verdict depends on the calls made before
        vw = _view_at(tr, l)
        rp.update(spec=tr["spec"], at=l, active={"enc": vw["enc"], "mode": vw["mode"], "cps": [c["cp"] for c in vw["chars"]]})
    if tr["kind"] in ("text", "enc"):
        rp["cps"] = [c["cp"] for c in tr["chars"]]
    if tr["kind"] == "raw":
        rp["raw"] = tr["raw"]
    if tr["kind"] == "broken":
        rp["pieces"] = tr["pieces"]
    return rp


def handle(chk, traces, res):
    for ti, l, why in res.rejects:
        tr = traces[ti]
        e = tr["ev"][l - 1]
        if why.startswith("beyond."):
            chk.divergence(f"{why} [{tr['mode']}]", {"enc": tr["enc"], "raw": tr.get("raw"), "cps": [c["cp"] for c in tr["chars"]][:12],
                                                    "event": {k: v for k, v in e.items() if k not in ("parts", "out")}})
        else:
            chk.reject("C11." + why, _sig(tr, e, why, l), _replay_of(tr, e, l))


class Coverage:
    def __init__(self):
        self.counts = {}
        self.nontriv = set()
        self.samples = {}

    def inc(self, k, n=1):
        self.counts[k] = self.counts.get(k, 0) + n

    def add(self, traces):
        inc = self.inc
        for tr in traces:
            m = tr["enc"]
            kind = tr["kind"]
            if kind == "cps":
                inc("cps.sweep.cp", len(tr["ev"]))
                for e in tr["ev"]:
                    inc(f"antecedent.code_point_width={e['tw']}_utf8len={e['blen']}")
                self.samples.setdefault("sweep", {"sweep": tr["ev"][len(tr["ev"]) // 2:][:2]})
                continue
            if kind == "switch":
                self.add_switch(tr)
                continue
            multi = any(c["b"] > 1 or c["w"] != 1 for c in tr["chars"])
            key = tuple(c["cp"] for c in tr["chars"])
            if kind == "broken":
                inc("broken.texts")
                runs = [len(p) for p in tr["pieces"] if not isinstance(p, str)]
                for r in set(runs):
                    inc(f"antecedent.broken_prefix_of_{r}_bytes")
                bkey = tuple(x for c in tr["chars"] for x in c["enc"])
                for e in tr["ev"]:
                    inc(f"broken.{e['op']}")
                    self.nontriv.add(hash(("broken", bkey, e["op"], e.get("i"), e.get("j"), e.get("col", e.get("sc")), e.get("ec"))))
                    if e["op"] == "width" and any(tr["bad"][e["i"]:e["j"]]) and max(runs, default=0) >= 2:
                        inc("antecedent.broken_width_over_cut_character_of_2+_bytes")
                continue
            if kind == "text" and len(key) == 3 and "text" not in self.samples and sorted(c["w"] for c in tr["chars"]) == [0, 1, 2]:
                self.samples["text"] = {"enc": m, "chars": tr["chars"], "events": [e for e in tr["ev"] if e["op"] in ("pos", "trim")][5:8]}
            if kind == "enc" and len(key) == 3 and "enc" not in self.samples and tr["mode"] == "narrow" and any(c in DEC_SET for c in key):
                self.samples["enc"] = {"enc": m, "cps": list(key), "events": tr["ev"][:1]}
            for e in tr["ev"]:
                op = e["op"]
                inc(f"{kind}.{m}.{op}")
                if kind == "text":
                    if multi:
                        self.nontriv.add(hash((m, key, op, e.get("i"), e.get("j"), e.get("col", e.get("sc")), e.get("ec", e.get("pos")))))
                    if op == "pos" and e["uc"] < e["col"] and e["up"] < e["j"]:
                        inc("antecedent.pos_wide_character_does_not_fit")
                    if op == "pos" and any(c["w"] == 0 for c in tr["chars"]):
                        inc("antecedent.pos_with_zero_width_character")
                    if op == "trim":
                        inc(f"antecedent.trim_pad_left={e['b'][2]}_pad_right={e['b'][3]}")
                    if op == "step" and multi:
                        inc("antecedent.step_over_multi_unit_character")
                    if op == "wdb":
                        inc(f"antecedent.within_double_byte={e['r']}")
                        o0 = sum(c["b"] for c in tr["chars"][:e["i"]])
                        bs = [x for c in tr["chars"] for x in c["enc"]]
                        if e["pos"] - o0 >= 64 and all(x >= 0x80 for x in bs[e["pos"] - 64:e["pos"]]):
                            inc("antecedent.within_double_byte_64+_bytes_into_a_run")
                    if op in ("trim", "pos") and m != "utf-8" and tr["mode"] == "wide" and len(tr["chars"]) > 32:
                        if (e["ec"] if op == "trim" else e["col"]) > 64:
                            inc(f"antecedent.{op}_beyond_column_64_of_a_double_byte_row")
                elif kind == "enc":
                    if any(c in DEC_SET for c in key) and tr["mode"] != "utf8" and not e["ctl"] and e["src"] == "str":
                        inc("antecedent.encode_with_dec_character")
                        self.nontriv.add(hash((m, key, op)))
                    if e["ctl"]:
                        inc("antecedent.encode_with_literal_shift_controls")

    def add_switch(self, tr):
        inc = self.inc
        same = tr["same"]
        views = tr["views"]
        inc(f"switch.{same}.histories")
        modes = sorted({v["mode"] for v in views})
        for a, b in itertools.combinations(modes, 2):
            inc(f"switch.{same}.readings_{a}+{b}")
        widths = {sum(c["w"] for c in v["chars"]) for v in views}
        if same == "bytes" and len(widths) > 1:
            inc("antecedent.switch_same_bytes_differ_in_width_between_encodings")
        if same == "bytes" and len({len(v["chars"]) for v in views}) > 1:
            inc("antecedent.switch_same_bytes_differ_in_character_boundaries")
        seen, asked = [], {}
        cur = None
        for e in tr["ev"]:
            op = e["op"]
            inc(f"switch.{same}.{op}")
            if op == "setenc":
                if e["enc"] in seen:
                    inc("antecedent.switch_back_to_an_earlier_encoding")
                seen.append(e["enc"])
                cur = views[e["v"] - 1]
                continue
            if op == "width" and same == "bytes" and cur is not None:
                o = [0]
                for c in cur["chars"]:
                    o.append(o[-1] + c["b"])
                key = (o[e["i"]], o[e["j"]])
                prev = asked.setdefault(key, (cur["enc"], e["rb"]))
                if prev[0] != cur["enc"]:
                    inc("antecedent.switch_same_byte_range_measured_under_two_encodings")
                    self.nontriv.add(hash((tuple(tr["raw"]), key, cur["enc"])))
            if op == "enc" and cur is not None and e["src"] == "str" and any(c["cp"] in DEC_SET for c in cur["chars"]):
                inc(f"antecedent.switch_encode_dec_character_{'utf8' if cur['mode'] == 'utf8' else 'dec_special'}")
        if same == "bytes" and "switch" not in self.samples and len(widths) > 1:
            self.samples["switch"] = {"raw": tr["raw"], "readings": [{"enc": v["enc"], "mode": v["mode"], "cps": [c["cp"] for c in v["chars"]],
                                                                      "width": sum(c["w"] for c in v["chars"])} for v in views],
                                      "set_encoding_order": [e["enc"] for e in tr["ev"] if e["op"] == "setenc"],
                                      "events": [e for e in tr["ev"] if e["op"] == "width" and e["i"] == 0][:3]}

    def finish(self, chk):
        chk.cov["clause_counts"].update(dict(sorted(self.counts.items())))
        chk.cov["distinct_nontrivial"] = len(self.nontriv)
        for need in ("antecedent.pos_wide_character_does_not_fit", "antecedent.trim_pad_left=1_pad_right=0", "antecedent.trim_pad_left=0_pad_right=1",
                     "antecedent.trim_pad_left=1_pad_right=1", "antecedent.encode_with_dec_character", "antecedent.within_double_byte=2",
                     "antecedent.step_over_multi_unit_character", "antecedent.pos_with_zero_width_character", "cps.sweep.cp",
                     "antecedent.switch_same_bytes_differ_in_width_between_encodings", "antecedent.switch_same_bytes_differ_in_character_boundaries",
                     "antecedent.switch_back_to_an_earlier_encoding", "antecedent.switch_same_byte_range_measured_under_two_encodings",
                     "switch.bytes.readings_narrow+utf8", "switch.bytes.readings_utf8+wide", "switch.bytes.readings_narrow+wide",
                     "switch.str.readings_narrow+utf8", "antecedent.switch_encode_dec_character_utf8",
                     "antecedent.switch_encode_dec_character_dec_special", "switch.bytes.trim", "switch.bytes.pos", "switch.bytes.step",
                     "antecedent.within_double_byte_64+_bytes_into_a_run", "antecedent.trim_beyond_column_64_of_a_double_byte_row",
                     "antecedent.pos_beyond_column_64_of_a_double_byte_row",
                     "antecedent.broken_prefix_of_1_bytes", "antecedent.broken_prefix_of_2_bytes", "antecedent.broken_prefix_of_3_bytes",
                     "antecedent.broken_width_over_cut_character_of_2+_bytes", "broken.pos", "broken.trim", "broken.trimcs"):
            if not self.counts.get(need):
                chk.vacuity.append(need)
        for k in ("text", "enc", "sweep", "switch"):
            if k in self.samples:
                chk.sample(self.samples[k])


DEC_SET = {ord(c) for c in DEC_CHARS}


def run(chk):
    quick = chk.tier == "quick"
    items = work_items(chk, quick)
    cover = Coverage()
    totals = {"texts": tlc.TVResult(), "code_point_sweep": tlc.TVResult()}
    flush_at = 10 ** 9 if quick else 200000
    tv_kw = {"batch_events": 25000 if quick else 25000, "jobs": 4 if quick else 8, "timeout": 2400}

    def collect(which, trs, fut):
        res = fut.result()
        handle(chk, trs, res)
        tot = totals[which]
        for f in ("traces", "events", "consumed", "states", "generated", "batches", "wall_s"):
            setattr(tot, f, getattr(tot, f) + getattr(res, f))
        tot.rejects += res.rejects

    # the recording processes are forked BEFORE any TLC thread exists
    with multiprocessing.get_context("fork").Pool(4) as pool, cf.ThreadPoolExecutor(2 if quick else 1) as tvpool:
        models = start_models(quick)
        pending = []
        buf, nbuf, which = [], 0, "texts"

        def flush():
            nonlocal buf, nbuf
            if buf:
                pending.append((which, buf, tvpool.submit(tlc.validate, "StrUtilTrace", buf, **tv_kw)))
                buf, nbuf = [], 0
            while len(pending) > 2:     # bound the memory held by recorded traces
                collect(*pending.pop(0))

        for item, trs in zip(items, pool.imap(work, items)):
            kind = "code_point_sweep" if item[0] == "sweep" else "texts"
            if kind != which:
                flush()
                chk.note(f"t+{time.time() - chk.t0:.0f}s texts recorded from the real functions; recording the code-point sweep")
                which = kind
            cover.add(trs)
            buf += trs
            nbuf += sum(len(t["ev"]) for t in trs)
            if nbuf >= flush_at:
                flush()
        flush()
        chk.note(f"t+{time.time() - chk.t0:.0f}s everything recorded; waiting for TLC")
        while pending:
            collect(*pending.pop(0))
        for name, tot in totals.items():
            chk.add_tv("TV_StrUtilTrace_" + name, tot)
        chk.note(f"t+{time.time() - chk.t0:.0f}s traces validated ({sum(len(t.rejects) for t in totals.values())} rejected incl. beyond-the-property)")
        finish_models(chk, models)
    cover.finish(chk)
    chk.cov["exhaustive"] = True
    chk.cov["bounds"] = {"exhaustive_text_length": 3 if quick else "3 (utf-8, 8 classes) / 4 (utf-8 7 classes, gbk, iso8859-1) / 5 (euc-jp, big5)",
                         "random_text_length": 5 if quick else 9, "sweep": "seeded sample + every width-table boundary" if quick else "all 1 112 064 scalar values",
                         "model": "all texts of <= 3 (quick) / <= 5 (thorough) character classes x all boundary pairs x all columns / column ranges; "
                                  "every text additionally re-read under a single-byte encoding (action SetEncoding)",
                         "switch_histories": "byte strings of 1-3 (quick) / 1-4 (thorough) pieces (multi-byte characters of the alphabets, two-byte sequences "
                                             "that are a character in UTF-8 and in EUC-JP/GBK/Big5, ASCII) read under up to 4 (quick) / 6 (thorough) of "
                                             + ", ".join(SWITCH_ENCS) + "; every encoding but the last is set a second time"}
    chk.cov["rule"] = ("every text over the character classes of each encoding (ASCII, space, 2-byte narrow, 3-byte wide, zero width, DEC glyph, 4-byte wide; "
                       "double-byte with high / low trail byte; Latin-1) up to the bound x every boundary pair x every target column x every column range, "
                       "each call made on the str and on its encoded bytes; non-trivial = distinct (encoding, text, call, arguments) on a text with a "
                       "multi-unit or non-single-width character, plus distinct DEC-character encodings, plus distinct (byte string, byte range, "
                       "encoding) measured in a history in which the same range had been measured under another encoding before; switch histories: "
                       "one process, one byte string (or str), urwid.set_encoding() between the calls, every call judged against the reading of the "
                       "input under the encoding active at that point (state variable cur of StrUtilTrace)")
    chk.cov["trusted_base"] = ["TLC", "wcwidth package (the width table itself: column w of every character)", "Python codecs (per-character encoded bytes)",
                               "vf/props/c11.py call-through recorder (no comparison in Python)", "StrUtilOps.DecTable (VT100 special graphics set)"]
    chk.assumptions += [
        "which width a code point ought to have is the wcwidth package's table (DESIGN.md §5); anchors checked: printable ASCII 1, U+0300-036F 0, "
        "hiragana / CJK unified / hangul syllables / fullwidth forms 2",
        "double-byte encodings: texts of ASCII and full-width two-byte characters (JIS X 0208 kanji/kana, Big5, GBK incl. trail bytes 0x40-0x7E); "
        "three-byte EUC (SS3), half-width katakana (SS2) and ambiguous-width Greek/Cyrillic/box characters are outside the model",
        "single-byte encoding: ISO 8859-1 printable characters (C1 controls and encodings with combining marks such as ISO 8859-11 are outside the model)",
        "calls are made with offsets on character boundaries and 0 <= start_col < end_col <= width for trimming (what urwid's canvas code passes); "
        "offsets inside a character and arbitrary invalid byte strings are exercised but only reported as DIVERGENCE (the property speaks of a string and its encoded form)",
        "cut-short UTF-8 (kind 'broken': proper prefixes of multi-byte characters inside otherwise well-formed byte texts): every byte outside a well-formed "
        "character is a character of one column (urwid's '?'); width, additivity, offset for a column, is-wide and trimming are judged by the clauses of valid "
        "text with offsets on those boundaries; move_next_char / move_prev_char / decode_one_right are not asked there",
        "U+25AE (urwid maps it to '_' of the alternate charset) is not a VT100 line-drawing character and is not demanded",
        "switch histories: a byte string counts as a text under an encoding when the Python codec decodes it strictly, re-encodes it to the same "
        "bytes character by character, no character is a control character and (double-byte / single-byte modes) every character is as many "
        "columns wide as it has bytes; the single-byte readings use cp437 (every byte >= 0x20 printable) and iso8859-1",
    ]


def replay(chk, path):
    with open(path) as f:
        rp = json.load(f)["replay"]
    e0 = rp["event"]
    op = e0["op"]
    with encoding("utf-8" if rp["kind"] == "switch" else rp["enc"]):
        if rp["kind"] == "switch":
            tr = switch_trace(rp["spec"])
        elif rp["kind"] == "cps":
            tr = {"kind": "cps", "mode": "utf8", "enc": "utf-8", "chars": [], "ev": [cp_event(e0["cp"])]}
        elif rp["kind"] == "raw":
            trs = raw_traces(bytes(rp["raw"]), rp["mode"], rp["enc"])
            tr = next(t for t in trs if t["ev"][0]["op"] == op)
        else:
            if rp["kind"] == "broken":
                t = Broken(pieces_of(rp["pieces"]))
            else:
                t = Text("".join(chr(c) for c in rp["cps"]), rp["enc"], keep_width=rp["kind"] == "enc")
            if op == "enc":
                ev = ev_enc(t, e0["src"], "".join(map(chr, e0["pre"])), "".join(map(chr, e0["post"])))
            elif op in ("width", "step"):
                ev = {"width": ev_width, "step": ev_step}[op](t, e0["i"], e0["j"])
            elif op == "pos":
                ev = ev_pos(t, e0["i"], e0["j"], e0["col"])
            elif op in ("wide", "dec"):
                ev = {"wide": ev_wide, "dec": ev_dec}[op](t, e0["i"])
            elif op == "wdb":
                ev = ev_wdb(t, e0["i"], e0["pos"])
            elif op == "trim":
                ev = ev_trim(t, e0["i"], e0["j"], e0["sc"], e0["ec"])
            else:
                ev = ev_trimcs(t, e0["sc"], e0["ec"])
            tr = t.trace([ev], rp["kind"])
    res = tlc.validate("StrUtilTrace", [tr], jobs=1, timeout=300)
    chk.add_tv("replay", res)
    handle(chk, [tr], res)
    if rp["kind"] == "switch":
        chk.sample({"spec": tr["spec"], "readings": [{"enc": v["enc"], "cps": [c["cp"] for c in v["chars"]]} for v in tr["views"]],
                    "ev": tr["ev"][max(0, rp["at"] - 2):rp["at"]]})
    else:
        chk.sample(tr if rp["kind"] != "raw" else {"raw": tr["raw"], "ev": tr["ev"][:3]})
    return chk.finish()
