"""C14 — signals.  Spec: spec/Signals.tla (+SignalsOps); trace spec: spec/SignalsTrace.tla.

Operation alphabet of the driver (= of the model, see Signals.tla):
  connect s n h ws uk us      callback h, weak arguments ws (0..2 ids), user arguments us handed over as
                              uk = "t" tuple, "f" fresh list, "g" one-shot iterator, "c" THE CALLER'S OWN LIST (whatever it holds now)
  disconnect s n h ws uk us   by arguments: names the descriptor (h, ws, us); any descriptor, connected or not
  disconnect_by_key s n k     any key the caller still holds, also keys of senders that are gone
  mutate us                   the caller changes its own list (after having connected with it)
  collect w                   the application drops weak argument w (observed: dead there and then)
  drop_sender s keep          the application drops the sender in slot s, keeping (1) or forgetting (0) the keys it got for it;
                              observed: dead by reference counting alone / after gc.collect(); a fresh sender takes the slot
  emit s n
"""
from __future__ import annotations

import concurrent.futures as cf
import gc
import itertools
import json
import weakref

from .. import tlc

BEHS = ["plain", "true", "discSelf", "discEarlier", "discLater", "connectNew", "emitAgain", "killWeak"]
NAMES = {1: "n1", 2: "n2", 3: "n3"}  # n3 is not registered


class _WeakArg:
    """A weakly referenced argument.  Odd ids are FALSY objects (like an empty list walker or an empty container):
    alive is not the same as true."""

    __slots__ = ("w", "__weakref__")

    def __init__(self, w):
        self.w = w

    def __bool__(self):
        return self.w % 2 == 0


class World:
    """Real urwid senders / handlers / weak arguments driven by an abstract script; every
    observable step is appended to self.ev."""

    def __init__(self, beh, nh, nweak=1, nn=2):
        import urwid
        from urwid.signals import MetaSignals

        self.urwid = urwid

        class SenderA(metaclass=MetaSignals):
            signals = ["n1", "n2"]

        class _Base(metaclass=MetaSignals):      # signal names registered through a class hierarchy three deep
            signals = ["n1"]

        class _Mid(_Base):
            signals = ["n2"]

        class SenderB(_Mid):
            pass

        self.senders = {1: SenderA(), 2: SenderB()}
        self.sgen = {1: 0, 2: 0}   # generation of the sender in each slot (drop_sender puts a fresh one there)
        self.weak = {w: _WeakArg(w) for w in range(1, nweak + 1)}
        self.nweak = nweak
        self.nn = nn
        self.nh = nh
        self.beh = beh  # list, index h-1
        self.ev = []
        self.nextk = 1
        self.nextemit = 1
        self.keys = {}    # k -> Key object, as long as the caller holds it
        self.kinfo = {}   # k -> (slot, generation) of the sender it was handed out for
        self.inuse = {}   # weak argument id -> number of running handler calls that received it
        self.clist = [1]  # the caller's own list, passed as user_args again and again and changed in between
        self.shadow = {(s, n): [] for s in (1, 2) for n in (1, 2)}  # harness belief: list of (k, h, ws, us)
        self.depth = 0
        self.stack_sn = []
        self.handlers = {h: self._mk_handler(h) for h in range(1, nh + 1)}

    def _mk_handler(self, h):
        world = self

        def handler(*args):
            return world._called(h, args)

        handler.__name__ = f"h{h}"
        return handler

    def _uargs(self, uk, us):
        """The user-arguments object handed to urwid and its content at this moment."""
        if uk == "c":
            return self.clist, list(self.clist)
        us = [int(x) for x in us]
        if uk == "t":
            return tuple(us), us
        if uk == "g":
            return iter(list(us)), us
        return list(us), us

    # ---- abstract operations ---------------------------------------------------------------
    def connect(self, s, n, h, ws=(), uk="t", us=None, victim=0):
        k = self.nextk
        ws = [int(w) for w in ws]
        if us is None:
            us = [k]
        exc = ""
        if any(w not in self.weak for w in ws):
            return 0
        wa = [self.weak[w] for w in ws]
        if victim and victim in self.weak and victim not in ws and not self.inuse.get(victim):
            # another weak argument dies WHILE connect() is running: the iterable of weak arguments drops its last reference
            world, inner = self, list(wa)

            class _Dying:
                def __iter__(self_):      # noqa: N805
                    world.collect(victim)
                    items = inner[:]
                    del inner[:]          # keep no reference behind (this class object lives until the cyclic collector runs)
                    return iter(items)
            wa = _Dying()
        uobj, us = self._uargs(uk, us)
        try:
            key = self.urwid.connect_signal(self.senders[s], NAMES[n], self.handlers[h], weak_args=wa, user_args=uobj)
            self.keys[k] = key
            self.kinfo[k] = (s, self.sgen[s])
            self.shadow[(s, n)].append((k, h, tuple(ws), tuple(us)))
            self.nextk += 1
            del key
        except Exception as ex:  # noqa: BLE001
            exc = type(ex).__name__
        del uobj, wa
        self.ev.append({"t": "connect", "s": s, "n": n, "h": h, "ws": ws, "us": us, "ut": uk, "k": k, "exc": exc})
        return k

    def connect_kill(self, s, n, h, ws, victim):
        return self.connect(s, n, h, ws, "f", None, victim)

    def disconnect(self, s, n, h, ws=(), uk="t", us=()):
        exc = ""
        ws = [int(w) for w in ws]
        if any(w not in self.weak for w in ws):
            # cannot name a dead weak argument any more; the handler is gone anyway
            return
        wa = [self.weak[w] for w in ws]
        uobj, us = self._uargs(uk, us)
        try:
            self.urwid.disconnect_signal(self.senders[s], NAMES[n], self.handlers[h], weak_args=wa, user_args=uobj)
        except Exception as ex:  # noqa: BLE001
            exc = type(ex).__name__
        del uobj, wa
        exact = 0
        if n in (1, 2):   # belief only: the first connection made with these arguments goes
            d = (h, tuple(ws), tuple(us))
            hit = next((e for e in self.shadow[(s, n)] if e[1:] == d), None)
            if hit is not None:
                exact = 1
                self.shadow[(s, n)].remove(hit)
        self.ev.append({"t": "disconnect", "s": s, "n": n, "h": h, "ws": ws, "us": us, "ut": uk, "exc": exc, "exact": exact})

    def disconnect_by_key(self, s, n, k):
        exc = ""
        if k not in self.keys:
            return
        try:
            self.urwid.disconnect_signal_by_key(self.senders[s], NAMES[n], self.keys[k])
        except Exception as ex:  # noqa: BLE001
            exc = type(ex).__name__
        if n in (1, 2):
            self.shadow[(s, n)] = [e for e in self.shadow[(s, n)] if e[0] != k]
        self.ev.append({"t": "disconnect_by_key", "s": s, "n": n, "k": k, "exc": exc,
                        "stale": int(self.kinfo[k] != (s, self.sgen[s]))})

    def mutate(self, us):
        """The caller goes on using the list object it passed to connect_signal()."""
        self.clist[:] = [int(x) for x in us]
        self.ev.append({"t": "mutate", "us": list(self.clist)})

    def collect(self, w):
        if w not in self.weak:
            return
        if self.inuse.get(w):
            # a handler that received this object as argument is still running: its frame keeps the object alive,
            # dropping our reference now would not collect it (and it would die silently when that frame returns)
            return
        # event first: the weakref callbacks fire synchronously when the last reference goes
        e = {"t": "collect", "w": w, "dead": True}
        self.ev.append(e)
        for p in self.shadow:
            self.shadow[p] = [x for x in self.shadow[p] if w not in x[2]]
        ref = weakref.ref(self.weak[w])
        del self.weak[w]
        e["dead"] = ref() is None      # by reference counting alone: the machinery holds weak references only

    def drop_sender(self, s, keep=1):
        """The application lets go of the sender in slot s; it keeps (or forgets) the keys connect_signal() returned for it."""
        if self.depth:
            return
        gen = self.sgen[s]
        mine = [k for k, sg in self.kinfo.items() if sg == (s, gen) and k in self.keys]
        if not keep:
            for k in mine:
                del self.keys[k]
        nconn = sum(len(self.shadow[(s, n)]) for n in (1, 2))
        for n in (1, 2):
            self.shadow[(s, n)] = []
        snd = self.senders[s]
        ref = weakref.ref(snd)
        self.senders[s] = type(snd)()
        self.sgen[s] = gen + 1
        del snd
        dead_rc = ref() is None
        if not dead_rc:
            gc.collect()
        self.ev.append({"t": "drop_sender", "s": s, "kept": len(mine) if keep else 0, "nconn": nconn,
                        "dead_rc": dead_rc, "dead_gc": ref() is None})

    def emit(self, s, n):
        eid = self.nextemit
        self.nextemit += 1
        self.ev.append({"t": "emit_begin", "s": s, "n": n, "id": eid})
        self.depth += 1
        self.stack_sn.append((s, n, eid, set()))
        exc = ""
        ret = False
        try:
            ret = self.urwid.emit_signal(self.senders[s], NAMES[n], 2000 + eid)
        except Exception as ex:  # noqa: BLE001
            exc = type(ex).__name__
        self.stack_sn.pop()
        self.depth -= 1
        self.ev.append({"t": "emit_end", "id": eid, "ret": bool(ret), "ret_is_bool": isinstance(ret, bool), "exc": exc})

    # ---- handler side ----------------------------------------------------------------------
    def _abs_arg(self, a):
        if isinstance(a, _WeakArg):
            return 1000 + a.w
        if isinstance(a, int) and not isinstance(a, bool):
            return a
        return -1

    def _called(self, h, args):
        s, n, eid, seen = self.stack_sn[-1] if self.stack_sn else (0, 0, 0, set())
        aa = [self._abs_arg(a) for a in args]
        # harness belief (used to pick the targets of the handler's behaviour only): which connection is this?  The first one
        # made with these arguments that this emit has not called yet.
        d = (h, tuple(a - 1000 for a in aa if 1000 < a < 2000), tuple(a for a in aa if 0 <= a < 1000))
        k = 0
        if s:
            cands = [e[0] for e in self.shadow[(s, n)] if e[1:] == d]
            k = next((c for c in cands if c not in seen), cands[0] if cands else 0)
            seen.add(k)
        b = self.beh[h - 1]
        ret = b == "true"
        self.ev.append({"t": "call", "k": k, "h": h, "args": aa, "emit": eid, "ret": ret})
        if s == 0:
            return ret
        held = [a.w for a in args if isinstance(a, _WeakArg)]
        for w in held:
            self.inuse[w] = self.inuse.get(w, 0) + 1
        try:
            return self._behave(b, s, n, k, ret)
        finally:
            for w in held:
                self.inuse[w] -= 1

    def _behave(self, b, s, n, k, ret):
        live = self.shadow[(s, n)]
        pos = next((i for i, e in enumerate(live) if e[0] == k), None)
        if b == "discSelf":
            self.disconnect_by_key(s, n, k)
        elif b == "discEarlier" and pos is not None and pos > 0:
            self.disconnect_by_key(s, n, live[pos - 1][0])
        elif b == "discLater" and pos is not None and pos + 1 < len(live):
            e = live[pos + 1]
            # alternate between by-key and by-arguments disconnection (by arguments only when they name that connection alone)
            if e[0] % 2 or e[0] not in self.keys or sum(1 for x in live if x[1:] == e[1:]) > 1:
                self.disconnect_by_key(s, n, e[0])
            else:
                self.disconnect(s, n, e[1], e[2], "tf"[e[0] % 4 // 2], e[3])
        elif b == "connectNew" and len(live) < self.maxconn:
            self.connect(s, n, self.nh, (), "t", [1])
        elif b == "emitAgain" and self.depth < 2:
            self.emit(s, (n % self.nn) + 1)
        elif b == "killWeak" and 1 in self.weak:
            self.collect(1)
        return ret

    maxconn = 3

    # ---- end of trace: the machinery must not keep senders / weak args alive -----------------
    def drop(self):
        srefs = [weakref.ref(s) for s in self.senders.values()]
        wrefs = [weakref.ref(w) for w in self.weak.values()]
        ev = self.ev
        # break the harness' own references
        self.senders.clear()
        self.weak.clear()
        self.handlers.clear()
        self.keys.clear()
        self.shadow.clear()
        rc = all(r() is None for r in srefs)
        gc.collect()
        ev.append({"t": "drop", "senders_dead_rc": rc, "senders_dead": all(r() is None for r in srefs),
                   "weak_dead": all(r() is None for r in wrefs)})
        return ev


def run_script(beh, nh, script, nweak=1, maxconn=3, nn=2):
    gc.freeze()  # everything allocated so far is out of the collector's way: drop()'s gc.collect() stays cheap
    w = World(beh, nh, nweak, nn)
    w.maxconn = maxconn
    for op in script:
        getattr(w, op[0])(*op[1:])
    ev = w.drop()
    del w
    return {"nweak": nweak, "beh": beh, "script": [list(o) for o in script], "ev": ev}


def script_from_behaviour(b):
    """Top-level operations of a Signals.tla behaviour (the emit's inner steps are the code's job); the model's calls per
    finished emit as descriptors (h, ws, us)."""
    script = []
    calls = []  # model's call order per finished emit
    desc = {}
    for st in b[1:]:
        la = st["last"]
        a = la["a"]
        op = la["op"]
        if op == "connect":
            script.append(("connect", a[0], a[1], a[2], list(a[3]), a[4], list(a[5])))
        elif op == "connect_unregistered":
            script.append(("connect", a[0], a[1], a[2], [], "t", [1]))
        elif op == "disconnect":
            script.append(("disconnect", a[0], a[1], a[2], list(a[3]), a[4], list(a[5])))
        elif op == "disconnect_by_key":
            script.append(("disconnect_by_key", a[0], a[1], a[2]))
        elif op == "mutate":
            script.append(("mutate", list(a[0])))
        elif op == "drop_sender":
            script.append(("drop_sender", a[0], 1 if a[1] else 0))
        elif op == "collect":
            if not st["stack"]:
                script.append(("collect", a[0]))
            else:
                return None, None, None  # a collection between two handler calls cannot be scheduled from outside
        elif op == "emit":
            script.append(("emit", a[0], a[1]))
        elif op == "call":
            desc[a[0]] = [a[1], list(a[2]), list(a[3])]
        elif op == "emit_end":
            calls.append([desc[k] for k in a[2]])
    beh = [x if x != "unset" else "plain" for x in b[-1]["beh"]]
    return script, calls, beh


WSQ = [(), (1,), (2,), (1, 2), (2, 1)]


def directed_scripts():
    """Every ordered triple of handler behaviours on one signal, with a handler on the sender's other signal (so that a
    recursive emit finds one), the weak argument on each position in turn, emitted twice; and duplicate connections
    (same callback, same arguments) with one or two disconnects by arguments / by key before and during an emit."""
    out = []

    def C(s, n, h, ws=(), uk="t", us=None):
        return ("connect", s, n, h, list(ws), uk, us)

    for b1 in BEHS:
        for b2 in BEHS:
            for b3 in BEHS:
                for wpos in (0, 1, 2, 3):
                    ws = [[1] if wpos == i else [] for i in (1, 2, 3)]
                    script = [C(1, 1, 1, ws[0]), C(1, 1, 2, ws[1]), C(1, 1, 3, ws[2]), C(1, 2, 4), ("emit", 1, 1), ("emit", 1, 1)]
                    out.append(("triples", [b1, b2, b3, "plain"], 4, script))
    # a handler is connected while the weak argument of an already connected handler dies (inside connect())
    for b in ("plain", "true", "discSelf"):
        for pos in (0, 1, 2):
            pre = [C(1, 1, 1, [2]), C(1, 1, 2), C(1, 1, 3, [2])][:pos + 1]
            script = pre + [("connect_kill", 1, 1, 4, [], 2), ("emit", 1, 1), ("connect_kill", 1, 1, 4, [1], 2), ("emit", 1, 1), ("emit", 1, 2)]
            out.append(("connect_kill", [b, "plain", "plain", "true"], 4, script))
    for b in BEHS:
        for ndup in (1, 2):
            for ndisc in (0, 1, 2, 3):
                for mode in ("args", "key"):
                    dup = C(1, 1, 2, (), "t", [7])
                    script = [C(1, 1, 1), dup] + [dup] * ndup + [C(1, 1, 3), ("emit", 1, 1)]
                    script += [("disconnect", 1, 1, 2, [], "t", [7]) if mode == "args" else ("disconnect_by_key", 1, 1, 2)] * ndisc
                    script += [("emit", 1, 1), C(1, 1, 1, (), "t", [8]), C(1, 1, 1, (), "f", [8]), ("emit", 1, 1)]
                    out.append(("duplicates", [b, "plain", "true", "plain"], 4, script))
    # ---- descriptors that differ in the NUMBER / ORDER of weak arguments only (one a prefix of the other, or not) -----------
    # two connections of one callback with the same user arguments and weak arguments c1, c2; a disconnect naming weak
    # arguments d (which may name the first, the second, or neither of them), twice
    for c1 in WSQ:
        for c2 in WSQ:
            for d in WSQ:
                for b in ("plain", "true"):
                    script = [C(1, 1, 1, c1, "t", [5]), C(1, 1, 1, c2, "f", [5]), C(1, 1, 2, (), "t", [6]), ("emit", 1, 1),
                              ("disconnect", 1, 1, 1, list(d), "t", [5]), ("emit", 1, 1),
                              ("disconnect", 1, 1, 1, list(d), "f", [5]), ("emit", 1, 1), ("collect", 1), ("emit", 1, 1)]
                    out.append(("weak_descriptors", [b, "plain"], 2, script))
    # ---- how the user arguments are handed over, and what the caller does with its list afterwards ---------------------------
    for ck in "tfcg":
        for dk in "tfcg":
            for mut in (None, [7, 9], [8], [], [9, 7]):
                for dnow in (0, 1):
                    if dk == "c" and not dnow:
                        continue
                    script = [("mutate", [7]), C(1, 1, 1, (), ck, [7]), C(1, 1, 2, [1], "t", [3]), ("emit", 1, 1)]
                    if mut is not None:
                        script.append(("mutate", mut))
                    script += [("emit", 1, 1), C(2, 1, 1, (), "c", None), ("emit", 2, 1), ("emit", 1, 1),
                               ("disconnect", 1, 1, 1, [], dk, (mut if (dnow and mut is not None) else [7])), ("emit", 1, 1),
                               ("disconnect", 2, 1, 1, [], dk, [7]), ("emit", 2, 1), ("mutate", [4]), ("emit", 2, 1), ("emit", 1, 1)]
                    out.append(("user_arg_kinds", ["plain", "true"], 2, script))
    # ---- the application drops a sender: with / without connections, after disconnecting them, holding its keys or not --------
    for nconn in (0, 1, 2):
        for ws in ((), (1,)):
            for disc in ("none", "key", "args"):
                for keep in (0, 1):
                    for pre_emit in (0, 1):
                        for b in ("plain", "discSelf"):
                            script = [C(1, 1, i, ws, "t", [4 + i]) for i in range(1, nconn + 1)] + [C(2, 1, 1, ws, "t", [5])]
                            if pre_emit:
                                script.append(("emit", 1, 1))
                            if disc == "key":
                                script.append(("disconnect_by_key", 1, 1, 1))
                            elif disc == "args":
                                script.append(("disconnect", 1, 1, 1, list(ws), "t", [5]))
                            script += [("drop_sender", 1, keep), C(1, 1, 2, (), "t", [9]), ("disconnect_by_key", 1, 1, 1), ("emit", 1, 1),
                                       ("drop_sender", 1, 1 - keep), ("collect", 1), ("emit", 2, 1), ("drop_sender", 2, keep), ("emit", 2, 1)]
                            out.append(("sender_dropped", [b, "plain"], 2, script))
    return out


def _wseqs(nweak):
    ids = range(1, nweak + 1)
    return [()] + [(a,) for a in ids] + [p for p in itertools.permutations(ids, 2)]


def _vary_ws(rng, ws, nweak):
    """A weak-argument sequence related to ws: a prefix, an extension, a permutation, or something else."""
    ws = tuple(ws)
    r = rng.random()
    if r < 0.35 and ws:
        return ws[:-1]
    if r < 0.7 and len(ws) < 2:
        rest = [w for w in range(1, nweak + 1) if w not in ws]
        if rest:
            return ws + (rng.choice(rest),)
    if r < 0.8 and len(ws) == 2:
        return ws[::-1]
    return rng.choice(_wseqs(nweak))


def random_script(rng, nh, nweak, length):
    script = []
    known = []      # (s, n, h, ws, us) of the connects issued so far
    clist = [1]     # content of the caller's list as the script goes
    nconn = 0
    fresh = 2
    wseqs = _wseqs(nweak)
    for _ in range(length):
        r = rng.random()
        s = rng.choice([1, 1, 2])
        n = rng.choice([1, 1, 2])
        if r < 0.36:
            h = rng.randint(1, nh)
            ws = rng.choice(wseqs) if rng.random() < 0.5 else ()
            uk = rng.choice("ttffcg")
            if uk == "c":
                us = list(clist)
            elif known and rng.random() < 0.35:     # the arguments of an earlier connection again, or nearly
                e = rng.choice(known)
                h, us = e[2], list(e[4])
                s, n = (e[0], e[1]) if rng.random() < 0.7 else (s, n)
                ws = e[3] if rng.random() < 0.4 else _vary_ws(rng, e[3], nweak)
            else:
                us = [fresh] if rng.random() < 0.8 else [fresh, rng.choice([9, fresh])]
                fresh += 1
            script.append(("connect", s, n, h, list(ws), uk, us))
            known.append((s, n, h, tuple(ws), tuple(us)))
            nconn += 1
        elif r < 0.40:
            script.append(("connect", s, 3, rng.randint(1, nh), [], "t", [fresh]))
        elif r < 0.42 and nweak >= 2:   # connect while another handler's weak argument is dying
            h = rng.randint(1, nh)
            w = rng.choice([0] + list(range(1, nweak + 1)))
            v = rng.choice([x for x in range(1, nweak + 1) if x != w])
            script.append(("connect_kill", s, n, h, [w] if w else [], v))
            nconn += 1
        elif r < 0.52 and known:        # disconnect by arguments: a connection made, or something close to one
            e = rng.choice(known)
            s, n, h, ws, us = e
            q = rng.random()
            if q < 0.5:
                pass
            elif q < 0.6:
                n, h = rng.choice([1, 2]), rng.randint(1, nh)
            elif q < 0.85:
                ws = _vary_ws(rng, ws, nweak)
            else:
                us = rng.choice([us + (9,), us[:-1], tuple(clist), (fresh,)])
            uk = rng.choice("ttffg")
            if tuple(us) == tuple(clist) and rng.random() < 0.5:
                uk = "c"
            script.append(("disconnect", s, n, h, list(ws), uk, list(us)))
        elif r < 0.60 and nconn:
            k = rng.randint(1, nconn + 1)
            script.append(("disconnect_by_key", s, rng.choice([1, 1, 2]), k))
        elif r < 0.65:
            script.append(("collect", rng.randint(1, nweak)))
        elif r < 0.70:
            c = list(clist)
            q = rng.random()
            if q < 0.35:
                c.append(9)
            elif q < 0.55 and c:
                c[-1] = fresh
                fresh += 1
            elif q < 0.7 and c:
                c.pop()
            elif q < 0.8:
                c = []
            else:
                c = [rng.choice([u for e in known for u in e[4]] or [1])]
            c = c[:3]
            if c != clist:
                clist = c
                script.append(("mutate", list(c)))
        elif r < 0.74:
            script.append(("drop_sender", s, rng.choice([0, 1, 1])))
        else:
            script.append(("emit", s, n))
    return script


MC_CFG = """CONSTANTS NS = {ns} NN = {nn} NH = {nh} NW = {nw} MaxWA = {maxwa} NU = {nu} UKinds = {{{uk}}} Mem = {mem}
MaxOps = {maxops} MaxConn = 3 Mode = "{mode}"
Behaviours = {{{behs}}}
SPECIFICATION Spec
INVARIANT EmitContract
INVARIANT DeadWeakGone
INVARIANT KeysUnique
INVARIANT NoStaleKeys
INVARIANT Terminates
CHECK_DEADLOCK FALSE
"""


def _q(bs):
    return ", ".join(f'"{b}"' for b in bs)


def _cfg(**kw):
    d = {"ns": 1, "nn": 2, "nh": 3, "nw": 1, "maxwa": 1, "nu": 1, "uk": ["t"], "mem": False, "maxops": 3, "mode": "snapshot", "behs": BEHS}
    d.update(kw)
    d["uk"], d["behs"], d["mem"] = _q(d["uk"]), _q(d["behs"]), "TRUE" if d["mem"] else "FALSE"
    return MC_CFG.format(**d)


# deliberately wrong machineries the contract must refute (Signals.tla, Mode): name -> (constants, step that exposes it)
MUST_FAIL = {
    "live": ({"nh": 2, "behs": ["plain", "discSelf"]}, "emit_end"),
    "alias": ({"nn": 1, "nh": 1, "uk": ["t", "f", "c"], "behs": ["plain"]}, None),
    "prefix": ({"nn": 1, "nh": 1, "nw": 2, "maxwa": 2, "behs": ["plain"]}, "disconnect"),
    "keyref": ({"nn": 1, "nh": 1, "mem": True, "behs": ["plain"]}, "drop_sender"),
    "strongargs": ({"nn": 1, "nh": 1, "behs": ["plain"]}, "collect"),
}


def _mc_runs(quick):
    """(name, cfg, workers): the good machinery over several slices of the operation alphabet."""
    if quick:
        return [
            # every behaviour triple, one weak argument, tuples only: the dispatch
            ("dispatch_S1_H3_ops3", _cfg(), 6),
            # descriptors: 0..2 weak arguments out of two (prefix related, permuted), connect / disconnect by any of them
            ("weakdesc_S1_N1_H2_W2_ops4", _cfg(nn=1, nh=2, nw=2, maxwa=2, maxops=4, behs=["plain", "true", "discLater"]), 3),
            # user arguments as tuple / fresh list / the caller's own list that it goes on changing
            ("userargs_S1_N1_H2_ops4", _cfg(nn=1, nh=2, uk=["t", "c"], maxops=4, behs=["plain", "true"]), 3),
            # senders dropped with keys held / forgotten, stale keys
            ("memory_S2_N1_H2_ops4", _cfg(ns=2, nn=1, nh=2, mem=True, maxops=4, behs=["plain", "discSelf", "killWeak"]), 2),
        ]
    return [
        ("dispatch_S1_H3_ops4", _cfg(maxops=4), 6),
        ("dispatch_S2_H2_ops4", _cfg(ns=2, nh=2, maxops=4, behs=["plain", "discSelf", "discEarlier", "emitAgain", "killWeak"]), 6),
        ("weakdesc_S1_N1_H2_W2_ops5", _cfg(nn=1, nh=2, nw=2, maxwa=2, maxops=5, behs=["plain", "true", "discLater", "killWeak"]), 6),
        ("userargs_S1_N1_H2_tfc_ops4", _cfg(nn=1, nh=2, uk=["t", "f", "c"], maxops=4, behs=["plain", "true", "discSelf"]), 6),
        ("userargs_S1_N1_H1_U2_ops5", _cfg(nn=1, nh=1, nu=2, uk=["t", "f", "c"], maxops=5, behs=["plain", "discSelf"]), 6),
        ("memory_S2_N1_H2_ops5", _cfg(ns=2, nn=1, nh=2, mem=True, maxops=5, behs=["plain", "discSelf", "killWeak", "connectNew"]), 6),
        ("all_S1_N1_H2_W2_ops4", _cfg(nn=1, nh=2, nw=2, maxwa=2, mem=True, maxops=4, behs=BEHS), 6),
    ]


def _handle(chk, traces, res, label):
    for ti, l, why in res.rejects:
        tr = traces[ti]
        e = tr["ev"][l - 1]
        sig = {"event": e["t"], "behaviours": sorted(set(tr["beh"]))}
        chk.reject(f"C14.{why}", sig, {"driver": label, "family": tr.get("driver"), "beh": tr["beh"], "script": tr["script"], "nweak": tr["nweak"],
                                       "events_up_to_rejection": tr["ev"][:l]})


def _model_checks(pool, quick):
    """Exhaustive TLC runs of Signals.tla (submitted to the pool): the contract-conforming machinery over several slices of the
    alphabet, and the deliberately wrong machineries, each of which must be refuted."""
    futs = []
    for name, cfg, workers in _mc_runs(quick):
        futs.append(("mc", name, pool.submit(tlc.mc, "Signals", cfg, workers=workers, timeout=3000, heap="4g" if quick else "12g")))

    def wrong():
        return [(mode, tlc.mc("Signals", _cfg(mode=mode, **kw), workers=1, timeout=600, heap="2g")) for mode, (kw, _step) in MUST_FAIL.items()]
    futs.append(("fail", "", pool.submit(wrong)))
    return futs


def _emit_calls(tr):
    """Calls of each finished emit of a recorded trace (inner emits first), as descriptors."""
    got, cur = [], []
    for e in tr["ev"]:
        if e["t"] == "emit_begin":
            cur.append([])
        elif e["t"] == "call" and cur:
            aa = e["args"]
            cur[-1].append([e["h"], [a - 1000 for a in aa if 1000 < a < 2000], [a for a in aa if 0 <= a < 1000]])
        elif e["t"] == "emit_end" and cur:
            got.append(cur.pop())
    return got


def _census(traces):
    """What the recorded traces exercised (counts only; no verdicts)."""
    kinds = {}
    nontriv = set()

    def cnt(k, n=1):
        kinds[k] = kinds.get(k, 0) + n

    for t in traces:
        in_emit = 0
        edited = False
        live = {}            # (s, n) -> list of (h, ws, us) per the events (belief, for counting only)
        clist_conns = 0      # connections made with the caller's own list so far
        for e in t["ev"]:
            ty = e["t"]
            cnt(ty)
            if ty == "emit_begin":
                in_emit += 1
            elif ty == "emit_end":
                in_emit -= 1
            elif in_emit and ty in ("connect", "disconnect", "disconnect_by_key", "collect"):
                edited = True
                cnt("edit_during_emit." + ty)
            if ty == "connect" and not e["exc"]:
                live.setdefault((e["s"], e["n"]), []).append((e["h"], tuple(e["ws"]), tuple(e["us"])))
                cnt("connect.user_args_as." + e["ut"])
                cnt(f"connect.weak_args.{len(e['ws'])}")
                if e["ut"] == "c":
                    clist_conns += 1
            elif ty == "mutate":
                if clist_conns:
                    cnt("mutate.after_connect_with_that_list")
            elif ty == "disconnect":
                cnt("disconnect.user_args_as." + e["ut"])
                lst = live.get((e["s"], e["n"]), [])
                d = (e["h"], tuple(e["ws"]), tuple(e["us"]))
                if d in lst:
                    lst.remove(d)
                    cnt("disconnect.names_a_connection")
                else:
                    cnt("disconnect.names_nothing")
                    for (h, ws, us) in lst:
                        if h == d[0] and us == d[2] and ws != d[1] and (ws[:len(d[1])] == d[1] or d[1][:len(ws)] == ws):
                            cnt("disconnect.names_nothing.weak_args_prefix_of_a_connection")
                            break
                    for (h, ws, us) in lst:
                        if h == d[0] and ws == d[1] and us != d[2]:
                            cnt("disconnect.names_nothing.other_user_args_of_a_connection")
                            break
            elif ty == "disconnect_by_key" and e.get("stale"):
                cnt("disconnect_by_key.key_of_a_dropped_sender")
            elif ty == "collect":
                for p in live:
                    live[p] = [x for x in live[p] if e["w"] not in x[1]]
            elif ty == "drop_sender":
                cnt("drop_sender.keys_kept" if e["kept"] else "drop_sender.no_key_kept")
                if e["nconn"]:
                    cnt("drop_sender.with_connections" + (".keys_kept" if e["kept"] else ".no_key_kept"))
                for p in list(live):
                    if p[0] == e["s"]:
                        live[p] = []
        if edited:
            nontriv.add(json.dumps([t["beh"], t["script"]]))
    return kinds, nontriv


NEED = ["edit_during_emit.disconnect_by_key", "edit_during_emit.collect", "edit_during_emit.connect", "edit_during_emit.disconnect",
        "connect.user_args_as.t", "connect.user_args_as.f", "connect.user_args_as.c", "connect.user_args_as.g",
        "connect.weak_args.0", "connect.weak_args.1", "connect.weak_args.2",
        "mutate.after_connect_with_that_list", "disconnect.user_args_as.t", "disconnect.user_args_as.f", "disconnect.user_args_as.c",
        "disconnect.names_a_connection", "disconnect.names_nothing", "disconnect.names_nothing.weak_args_prefix_of_a_connection",
        "disconnect.names_nothing.other_user_args_of_a_connection", "disconnect_by_key.key_of_a_dropped_sender",
        "drop_sender.with_connections.keys_kept", "drop_sender.with_connections.no_key_kept", "collect", "drop"]


def run(chk):
    quick = chk.tier == "quick"
    rng = chk.rng
    pool = cf.ThreadPoolExecutor(8 if quick else 3)   # quick: everything at once (13 TLC workers in all); thorough: 3 runs at a time
    # ---- spec -> code: TLC behaviours give scripts and behaviour assignments (generated in the background) ----------
    simcfg = _cfg(ns=2, nh=3, nw=2, maxwa=2, nu=2, uk=["t", "f", "c"], mem=True, maxops=9, behs=BEHS)
    sim_fut = pool.submit(tlc.simulate, "Signals", simcfg, num=400 if quick else 6000, depth=45, seed=chk.seed, jobs=2 if quick else 6)
    # ---- MC (in the background): Signals.tla satisfies the contract for all histories; wrong machineries are refuted ----
    mc_futs = _model_checks(pool, quick)

    traces = []
    import urwid  # noqa: F401
    gc.collect()
    gc.freeze()  # keeps the per-trace gc.collect() in World.drop cheap
    # ---- code -> spec: seeded random scripts beyond the model's bounds ---------------------------
    n_rand = 3000 if quick else 60000
    for i in range(n_rand):
        nh = rng.randint(2, 5)
        nweak = rng.randint(1, 3)
        beh = [rng.choice(BEHS) for _ in range(nh - 1)] + ["plain"]
        if "killWeak" not in beh and rng.random() < 0.5:
            beh[0] = "killWeak"
        tr = run_script(beh, nh, random_script(rng, nh, nweak, rng.randint(4, 16)), nweak=nweak, maxconn=6)
        tr["driver"] = "random"
        traces.append(tr)
    # ---- code -> spec: directed families (behaviour triples, duplicate connections, descriptors, caller's list, dropped senders) ----
    fam = {}
    for name, beh, nh, script in directed_scripts():
        tr = run_script(beh, nh, script, nweak=2, maxconn=6)
        tr["driver"] = "directed." + name
        traces.append(tr)
        fam[name] = fam.get(name, 0) + 1
    chk.cov["directed_scripts"] = fam
    n1 = len(traces)
    tv1 = pool.submit(tlc.validate, "SignalsTrace", traces[:n1], batch_events=28000, timeout=1500, jobs=4 if quick else 6)
    # ---- spec -> code ----------------------------------------------------------------------------------
    behs = sim_fut.result()
    agree = used = 0
    for b in behs:
        script, calls, beh = script_from_behaviour(b)
        if script is None:
            continue
        used += 1
        tr = run_script(beh, 3, script, nweak=2)
        tr["driver"] = "tlc-simulate"
        traces.append(tr)
        # compare the model's call order with the code's, emit by emit (finished emits, inner first)
        got = _emit_calls(tr)
        if got[: len(calls)] == calls:
            agree += 1
        else:
            chk.divergence("spec_to_code_call_order", {"beh": tr["beh"], "script": tr["script"], "model": calls, "code": got})
    chk.cov["spec_to_code_behaviours"] = used
    chk.cov["spec_to_code_call_orders_agreeing"] = agree
    if not used:
        chk.vacuity.append("driver.spec_to_code_behaviours")
    res2 = tlc.validate("SignalsTrace", traces[n1:], batch_events=28000, timeout=1500, jobs=2 if quick else 6)
    res = tv1.result()
    chk.add_tv("TV_SignalsTrace", res)
    _handle(chk, traces[:n1], res, "c14")
    chk.add_tv("TV_SignalsTrace_spec_to_code", res2)
    _handle(chk, traces[n1:], res2, "c14")
    # ---- the model-checking results --------------------------------------------------------------------
    refuted = {}
    for kind, name, fut in mc_futs:
        if kind == "mc":
            r = fut.result()
            chk.add_mc("MC_Signals_" + name, r)
            if not r.ok:
                chk.reject("C14.model." + str(r.violated), {"model": "Signals", "inv": r.violated, "run": name}, {"tlc_trace": r.trace[-8:]})
            continue
        for name, r in fut.result():
            last = r.trace[-1].get("last", {}) if r.trace else {}
            refuted[name] = {"violated": r.violated, "at": last.get("op"), "sentence": last.get("verdict")}
            chk.cov["tlc_runs"].append({"run": f"MC_Signals_{name}_must_fail", "violated": r.violated, "at": last.get("op"),
                                        "sentence": last.get("verdict"), "generated": r.generated, "wall_s": round(r.wall_s, 1)})
            want = MUST_FAIL[name][1]
            if r.violated != "EmitContract" or (want and last.get("op") != want):
                raise tlc.MachineryError(f"Signals.tla no longer refutes the wrong machinery Mode={name!r} (got {r.violated} at {last}): "
                                         "the contract has become vacuous")
    pool.shutdown()
    chk.cov["contract_refutes_live_index_dispatch"] = refuted["live"]["violated"] == "EmitContract"
    chk.cov["contract_refutes_wrong_machineries"] = refuted
    kinds, nontriv = _census(traces)
    chk.cov["clause_counts"] = kinds
    chk.cov["distinct_nontrivial"] = len(nontriv)
    chk.cov["rule"] = ("scripts = top-level operations of TLC -simulate behaviours of Signals.tla plus seeded random scripts plus directed families; "
                       "executed on real urwid senders/handlers/weak arguments; non-trivial = distinct (behaviours, script) in which the handler "
                       "list is edited while an emit is in progress")
    for v in NEED:
        if not kinds.get(v):
            chk.vacuity.append("driver." + v)
    for name in ("triples", "connect_kill", "duplicates", "weak_descriptors", "user_arg_kinds", "sender_dropped"):
        if not fam.get(name):
            chk.vacuity.append("driver.directed." + name)
    chk.sample(next((t for t in traces if any(e["t"] == "collect" for e in t["ev"])), traces[0]))
    chk.sample(next((t for t in traces if any(e["t"] == "drop_sender" and e["kept"] for e in t["ev"])), traces[0]))
    chk.sample(traces[-1])
    chk.cov["trusted_base"] = ["TLC", "vf/props/c14.py World (real senders/handlers, shadow list only used to pick targets)",
                               "CPython reference counting (weak arguments and senders die when the last reference is dropped)"]
    chk.assumptions += ["handlers that raise are outside the property",
                        "the cycle collector runs only where the harness calls it: an object is 'dead by reference counting' when it is gone "
                        "right after the last application reference was dropped, 'dead after gc' after one gc.collect()",
                        "user arguments are integers (their identity plays no role); a sender or weak argument passed as USER argument "
                        "is the application's own reference, not the machinery's"]


def replay(chk, path):
    with open(path) as f:
        rp = json.load(f)["replay"]
    tr = run_script(rp["beh"], len(rp["beh"]), [tuple(o) for o in rp["script"]], nweak=rp.get("nweak", 1), maxconn=6)
    res = tlc.validate("SignalsTrace", [tr])
    chk.add_tv("replay", res)
    _handle(chk, [tr], res, "replay")
    chk.sample(tr)
    return chk.finish()
