"""C14 — signals.  Spec: spec/Signals.tla (+SignalsOps); trace spec: spec/SignalsTrace.tla."""
from __future__ import annotations

import gc
import json
import weakref

from .. import tlc

BEHS = ["plain", "true", "discSelf", "discEarlier", "discLater", "connectNew", "emitAgain", "killWeak"]
NAMES = {1: "n1", 2: "n2", 3: "n3"}  # n3 is not registered


class _WeakArg:
    """A weakly referenced argument.  Odd ids are FALSY objects (like an empty list walker or an empty container):
    alive is not the same as true."""

    __slots__ = ("w", "__weakref__")

    def __init__(self, w):
        self.w = w

    def __bool__(self):
        return self.w % 2 == 0


class World:
    """Real urwid senders / handlers / weak arguments driven by an abstract script; every
    observable step is appended to self.ev."""

    def __init__(self, beh, nh, nweak=1, nn=2):
        import urwid
        from urwid.signals import MetaSignals

        self.urwid = urwid

        class SenderA(metaclass=MetaSignals):
            signals = ["n1", "n2"]

        class _Base(metaclass=MetaSignals):      # signal names registered through a class hierarchy three deep
            signals = ["n1"]

        class _Mid(_Base):
            signals = ["n2"]

        class SenderB(_Mid):
            pass

        self.senders = {1: SenderA(), 2: SenderB()}
        self.weak = {w: _WeakArg(w) for w in range(1, nweak + 1)}
        self.nweak = nweak
        self.nn = nn
        self.nh = nh
        self.beh = beh  # list, index h-1
        self.ev = []
        self.nextk = 1
        self.nextemit = 1
        self.keys = {}    # tag -> Key object
        self.inuse = {}   # weak argument id -> number of running handler calls that received it
        self.utag = {}    # connection k -> user argument given at connect time (shared by duplicate connections)
        self.info = {}    # connection k -> (s, n, h, w)
        self.shadow = {(s, n): [] for s in (1, 2) for n in (1, 2)}  # harness belief: list of (k, h, w)
        self.depth = 0
        self.handlers = {h: self._mk_handler(h) for h in range(1, nh + 1)}

    def _mk_handler(self, h):
        world = self

        def handler(*args):
            return world._called(h, args)

        handler.__name__ = f"h{h}"
        return handler

    # ---- abstract operations ---------------------------------------------------------------
    def connect(self, s, n, h, w, u=None, victim=0):
        k = self.nextk
        u = k if u is None else u
        exc = ""
        if w and w not in self.weak:
            return 0
        wa = [self.weak[w]] if w else []
        if victim and victim in self.weak and victim != w and not self.inuse.get(victim):
            # another weak argument dies WHILE connect() is running: the iterable of weak arguments drops its last reference
            world, inner = self, list(wa)

            class _Dying:
                def __iter__(self_):      # noqa: N805
                    world.collect(victim)
                    items = inner[:]
                    del inner[:]          # keep no reference behind (this class object lives until the cyclic collector runs)
                    return iter(items)
            wa = _Dying()
        try:
            self.keys[k] = self.urwid.connect_signal(self.senders[s], NAMES[n], self.handlers[h], weak_args=wa, user_args=[u])
            self.shadow[(s, n)].append((k, h, w))
            self.utag[k] = u
            self.info[k] = (s, n, h, w)
            self.nextk += 1
        except Exception as ex:  # noqa: BLE001
            exc = type(ex).__name__
        self.ev.append({"t": "connect", "s": s, "n": n, "h": h, "w": w, "k": k, "u": u, "exc": exc})
        return k

    def connect_kill(self, s, n, h, w, victim):
        return self.connect(s, n, h, w, None, victim)

    def connect_dup(self, k0):
        """Connect once more exactly what connection k0 connected: same sender, name, callback, weak and user arguments."""
        if k0 not in self.info:
            return 0
        s, n, h, w = self.info[k0]
        return self.connect(s, n, h, w, self.utag[k0])

    def disconnect(self, s, n, h, w, k):
        exc = ""
        wa = [self.weak[w]] if (w and w in self.weak) else []
        if w and w not in self.weak:
            # cannot name a dead weak argument any more; the handler is gone anyway
            return
        u = self.utag.get(k, k)
        try:
            self.urwid.disconnect_signal(self.senders[s], NAMES[n], self.handlers[h], weak_args=wa, user_args=[u])
        except Exception as ex:  # noqa: BLE001
            exc = type(ex).__name__
        if n in (1, 2):   # belief only: the first connection made with these arguments goes
            hit = next((e for e in self.shadow[(s, n)] if e[1] == h and e[2] == w and self.utag.get(e[0]) == u), None)
            if hit is not None:
                self.shadow[(s, n)].remove(hit)
        self.ev.append({"t": "disconnect", "s": s, "n": n, "h": h, "w": w, "k": u, "exc": exc})

    def disconnect_by_key(self, s, n, k):
        exc = ""
        if k not in self.keys:
            return
        try:
            self.urwid.disconnect_signal_by_key(self.senders[s], NAMES[n], self.keys[k])
        except Exception as ex:  # noqa: BLE001
            exc = type(ex).__name__
        if n in (1, 2):
            self.shadow[(s, n)] = [e for e in self.shadow[(s, n)] if e[0] != k]
        self.ev.append({"t": "disconnect_by_key", "s": s, "n": n, "k": k, "exc": exc})

    def collect(self, w):
        if w not in self.weak:
            return
        if self.inuse.get(w):
            # a handler that received this object as argument is still running: its frame keeps the object alive,
            # dropping our reference now would not collect it (and it would die silently when that frame returns)
            return
        # event first: the weakref callbacks fire synchronously when the last reference goes
        self.ev.append({"t": "collect", "w": w})
        for p in self.shadow:
            self.shadow[p] = [e for e in self.shadow[p] if e[2] != w]
        del self.weak[w]

    def emit(self, s, n):
        eid = self.nextemit
        self.nextemit += 1
        self.ev.append({"t": "emit_begin", "s": s, "n": n, "id": eid})
        self.depth += 1
        self.stack_sn = getattr(self, "stack_sn", [])
        self.stack_sn.append((s, n, eid))
        exc = ""
        ret = False
        try:
            ret = self.urwid.emit_signal(self.senders[s], NAMES[n], 2000 + eid)
        except Exception as ex:  # noqa: BLE001
            exc = type(ex).__name__
        self.stack_sn.pop()
        self.depth -= 1
        self.ev.append({"t": "emit_end", "id": eid, "ret": bool(ret), "ret_is_bool": isinstance(ret, bool), "exc": exc})

    # ---- handler side ----------------------------------------------------------------------
    def _abs_arg(self, a):
        if isinstance(a, _WeakArg):
            return 1000 + a.w
        if isinstance(a, int):
            return a
        return -1

    def _called(self, h, args):
        s, n, eid = self.stack_sn[-1] if getattr(self, "stack_sn", None) else (0, 0, 0)
        aa = [self._abs_arg(a) for a in args]
        # the user tag identifies the connection
        tags = [a for a in aa if 0 < a < 1000]
        k = tags[0] if tags else 0
        b = self.beh[h - 1]
        ret = b == "true"
        self.ev.append({"t": "call", "k": k, "h": h, "args": aa, "emit": eid, "ret": ret})
        if s == 0:
            return ret
        held = [a.w for a in args if isinstance(a, _WeakArg)]
        for w in held:
            self.inuse[w] = self.inuse.get(w, 0) + 1
        try:
            return self._behave(b, s, n, k, ret)
        finally:
            for w in held:
                self.inuse[w] -= 1

    def _behave(self, b, s, n, k, ret):
        live = self.shadow[(s, n)]
        pos = next((i for i, e in enumerate(live) if e[0] == k), None)
        if b == "discSelf":
            self.disconnect_by_key(s, n, k)
        elif b == "discEarlier" and pos is not None and pos > 0:
            self.disconnect_by_key(s, n, live[pos - 1][0])
        elif b == "discLater" and pos is not None and pos + 1 < len(live):
            e = live[pos + 1]
            # alternate between by-key and by-arguments disconnection
            if e[0] % 2:
                self.disconnect_by_key(s, n, e[0])
            else:
                self.disconnect(s, n, e[1], e[2], e[0])
        elif b == "connectNew" and len(live) < self.maxconn:
            self.connect(s, n, self.nh, 0)
        elif b == "emitAgain" and self.depth < 2:
            self.emit(s, (n % self.nn) + 1)
        elif b == "killWeak" and 1 in self.weak:
            self.collect(1)
        return ret

    maxconn = 3

    # ---- end of trace: the machinery must not keep senders / weak args alive -----------------
    def drop(self):
        srefs = [weakref.ref(s) for s in self.senders.values()]
        wrefs = [weakref.ref(w) for w in self.weak.values()]
        ev = self.ev
        # break the harness' own references
        self.senders.clear()
        self.weak.clear()
        self.handlers.clear()
        self.keys.clear()
        self.shadow.clear()
        gc.collect()
        ev.append({"t": "drop", "senders_dead": all(r() is None for r in srefs), "weak_dead": all(r() is None for r in wrefs)})
        return ev


def run_script(beh, nh, script, nweak=1, maxconn=3, nn=2):
    gc.freeze()  # everything allocated so far is out of the collector's way: drop()'s gc.collect() stays cheap
    w = World(beh, nh, nweak, nn)
    w.maxconn = maxconn
    for op in script:
        getattr(w, op[0])(*op[1:])
    ev = w.drop()
    del w
    return {"nweak": nweak, "beh": beh, "script": [list(o) for o in script], "ev": ev}


def script_from_behaviour(b):
    """Top-level operations of a Signals.tla behaviour (the emit's inner steps are the code's job)."""
    script = []
    calls = []  # model's call order per finished emit
    for st in b[1:]:
        la = st["last"]
        a = la["a"]
        op = la["op"]
        if op == "connect":
            script.append(("connect", a[0], a[1], a[2], a[3]))
        elif op == "connect_unregistered":
            script.append(("connect", a[0], a[1], a[2], 0))
        elif op == "disconnect":
            script.append(("disconnect", a[0], a[1], a[2], a[3], a[4]))
        elif op == "disconnect_by_key":
            script.append(("disconnect_by_key", a[0], a[1], a[2]))
        elif op == "collect":
            if not st["stack"]:
                script.append(("collect", a[0]))
            else:
                return None, None  # a collection between two handler calls cannot be scheduled from outside
        elif op == "emit":
            script.append(("emit", a[0], a[1]))
        elif op == "emit_end":
            calls.append(a[2])
    return script, calls


def directed_scripts():
    """Every ordered triple of handler behaviours on one signal, with a handler on the sender's other signal (so that a
    recursive emit finds one), the weak argument on each position in turn, emitted twice; and duplicate connections
    (same callback, same arguments) with one or two disconnects by arguments / by key before and during an emit."""
    out = []
    for b1 in BEHS:
        for b2 in BEHS:
            for b3 in BEHS:
                for wpos in (0, 1, 2, 3):
                    ws = [1 if wpos == i else 0 for i in (1, 2, 3)]
                    script = [("connect", 1, 1, 1, ws[0]), ("connect", 1, 1, 2, ws[1]), ("connect", 1, 1, 3, ws[2]), ("connect", 1, 2, 4, 0),
                              ("emit", 1, 1), ("emit", 1, 1)]
                    out.append(([b1, b2, b3, "plain"], 4, script))
    # a handler is connected while the weak argument of an already connected handler dies (inside connect())
    for b in ("plain", "true", "discSelf"):
        for pos in (0, 1, 2):
            pre = [("connect", 1, 1, 1, 2), ("connect", 1, 1, 2, 0), ("connect", 1, 1, 3, 2)][:pos + 1]
            script = pre + [("connect_kill", 1, 1, 4, 0, 2), ("emit", 1, 1), ("connect_kill", 1, 1, 4, 1, 2), ("emit", 1, 1), ("emit", 1, 2)]
            out.append(([b, "plain", "plain", "true"], 4, script))
    for b in BEHS:
        for ndup in (1, 2):
            for ndisc in (0, 1, 2, 3):
                for mode in ("args", "key"):
                    script = [("connect", 1, 1, 1, 0), ("connect", 1, 1, 2, 0)] + [("connect_dup", 2)] * ndup + [("connect", 1, 1, 3, 0), ("emit", 1, 1)]
                    script += [("disconnect", 1, 1, 2, 0, 2) if mode == "args" else ("disconnect_by_key", 1, 1, 2)] * ndisc
                    script += [("emit", 1, 1), ("connect_dup", 1), ("emit", 1, 1)]
                    out.append(([b, "plain", "true", "plain"], 4, script))
    return out


def random_script(rng, nh, nweak, length):
    script = []
    known = []  # (s, n, h, w, k) as they will be assigned
    k = 1
    for _ in range(length):
        r = rng.random()
        s = rng.choice([1, 1, 2])
        n = rng.choice([1, 1, 2])
        if r < 0.4:
            h = rng.randint(1, nh)
            w = rng.choice([0, 0] + list(range(1, nweak + 1)))
            script.append(("connect", s, n, h, w))
            known.append((s, n, h, w, k))
            k += 1
        elif r < 0.45:
            script.append(("connect", s, 3, rng.randint(1, nh), 0))
        elif r < 0.47 and nweak >= 2:   # connect while another handler's weak argument is dying
            h = rng.randint(1, nh)
            w = rng.choice([0] + list(range(1, nweak + 1)))
            v = rng.choice([x for x in range(1, nweak + 1) if x != w])
            script.append(("connect_kill", s, n, h, w, v))
            known.append((s, n, h, w, k))
            k += 1
        elif r < 0.5 and known:      # the same callback with the same arguments once more
            e = rng.choice(known)
            script.append(("connect_dup", e[4]))
            known.append((e[0], e[1], e[2], e[3], k))
            k += 1
        elif r < 0.55 and known:
            e = rng.choice(known)
            if rng.random() < 0.3:  # something that is not connected: wrong name / handler / tag
                script.append(("disconnect", e[0], rng.choice([1, 2]), rng.randint(1, nh), e[3], e[4]))
            else:
                script.append(("disconnect", *e))
        elif r < 0.63 and known:
            e = rng.choice(known)
            script.append(("disconnect_by_key", e[0], rng.choice([e[1], e[1], 1, 2]), e[4]))
        elif r < 0.68:
            script.append(("collect", rng.randint(1, nweak)))
        else:
            script.append(("emit", s, n))
    return script


MC_CFG = """CONSTANTS NS = {ns} NN = 2 NH = {nh} NW = 1 MaxOps = {maxops} MaxConn = 3 Mode = "{mode}"
Behaviours = {{{behs}}}
SPECIFICATION Spec
INVARIANT EmitContract
INVARIANT DeadWeakGone
INVARIANT KeysUnique
INVARIANT Terminates
CHECK_DEADLOCK FALSE
"""


def _q(bs):
    return ", ".join(f'"{b}"' for b in bs)


def _handle(chk, traces, res, label):
    for ti, l, why in res.rejects:
        tr = traces[ti]
        e = tr["ev"][l - 1]
        sig = {"event": e["t"], "behaviours": sorted(set(tr["beh"]))}
        chk.reject(f"C14.{why}", sig, {"driver": label, "beh": tr["beh"], "script": tr["script"], "nweak": tr["nweak"],
                                       "events_up_to_rejection": tr["ev"][:l]})


def run(chk):
    quick = chk.tier == "quick"
    rng = chk.rng
    # ---- MC: the dispatch as coded (snapshot) satisfies the emit contract for all histories ----
    if quick:
        runs = [("snapshot", 1, 3, 3, BEHS)]
    else:
        runs = [("snapshot", 1, 3, 4, BEHS), ("snapshot", 2, 2, 4, ["plain", "discSelf", "discEarlier", "emitAgain", "killWeak"])]
    for mode, ns, nh, maxops, behs in runs:
        r = tlc.mc("Signals", MC_CFG.format(ns=ns, nh=nh, maxops=maxops, mode=mode, behs=_q(behs)), timeout=2400, heap="12g")
        chk.add_mc(f"MC_Signals_{mode}_S{ns}_H{nh}_ops{maxops}", r)
        if not r.ok:
            chk.reject("C14.model." + str(r.violated), {"model": "Signals", "inv": r.violated}, {"tlc_trace": r.trace[-8:]})
    # non-vacuity of the contract: walking the live list by index (the code before the fix) must be refuted
    r = tlc.mc("Signals", MC_CFG.format(ns=1, nh=2, maxops=3, mode="live", behs=_q(["plain", "discSelf"])), timeout=600)
    chk.cov["contract_refutes_live_index_dispatch"] = (r.violated == "EmitContract")
    if r.violated != "EmitContract":
        raise tlc.MachineryError("Signals.tla no longer refutes the live-index dispatch: the emit contract has become vacuous")
    chk.cov["tlc_runs"].append({"run": "MC_Signals_live_must_fail", "violated": r.violated, "generated": r.generated, "wall_s": round(r.wall_s, 1)})

    traces = []
    import urwid  # noqa: F401
    gc.collect()
    gc.freeze()  # keeps the per-trace gc.collect() in World.drop cheap
    # ---- spec -> code: TLC behaviours give scripts and behaviour assignments --------------------
    simcfg = MC_CFG.format(ns=2, nh=3, maxops=8, mode="snapshot", behs=_q(BEHS))
    behs = tlc.simulate("Signals", simcfg, num=400 if quick else 6000, depth=40, seed=chk.seed, jobs=4 if quick else 14)
    agree = used = 0
    for b in behs:
        script, calls = script_from_behaviour(b)
        if script is None:
            continue
        used += 1
        tr = run_script(list(b[0]["beh"]), 3, script)
        tr["driver"] = "tlc-simulate"
        traces.append(tr)
        # compare the model's call order with the code's, emit by emit (finished emits, inner first)
        got = []
        cur = []
        for e in tr["ev"]:
            if e["t"] == "emit_begin":
                cur.append([])
            elif e["t"] == "call" and cur:
                cur[-1].append(e["k"])
            elif e["t"] == "emit_end" and cur:
                got.append(cur.pop())
        if got[: len(calls)] == calls:
            agree += 1
        else:
            chk.divergence("spec_to_code_call_order", {"beh": tr["beh"], "script": tr["script"], "model": calls, "code": got})
    chk.cov["spec_to_code_behaviours"] = used
    chk.cov["spec_to_code_call_orders_agreeing"] = agree
    # ---- code -> spec: seeded random scripts beyond the model's bounds ---------------------------
    n_rand = 3000 if quick else 60000
    for i in range(n_rand):
        nh = rng.randint(2, 5)
        nweak = rng.randint(1, 3)
        beh = [rng.choice(BEHS) for _ in range(nh - 1)] + ["plain"]
        if "killWeak" not in beh and rng.random() < 0.5:
            beh[0] = "killWeak"
        tr = run_script(beh, nh, random_script(rng, nh, nweak, rng.randint(4, 14)), nweak=nweak, maxconn=6)
        tr["driver"] = "random"
        traces.append(tr)
    # ---- code -> spec: directed families (behaviour triples, duplicate connections) ----------------
    nd = 0
    for beh, nh, script in directed_scripts():
        tr = run_script(beh, nh, script, nweak=2, maxconn=6)
        tr["driver"] = "directed"
        traces.append(tr)
        nd += 1
    chk.cov["directed_scripts"] = nd
    res = tlc.validate("SignalsTrace", traces, batch_events=25000, timeout=1500)
    chk.add_tv("TV_SignalsTrace", res)
    _handle(chk, traces, res, "c14")
    kinds = {}
    nontriv = set()
    for t in traces:
        in_emit = 0
        edited = False
        for e in t["ev"]:
            kinds[e["t"]] = kinds.get(e["t"], 0) + 1
            if e["t"] == "emit_begin":
                in_emit += 1
            elif e["t"] == "emit_end":
                in_emit -= 1
            elif in_emit and e["t"] in ("connect", "disconnect", "disconnect_by_key", "collect"):
                edited = True
                kinds["edit_during_emit." + e["t"]] = kinds.get("edit_during_emit." + e["t"], 0) + 1
        if edited:
            nontriv.add(json.dumps([t["beh"], t["script"]]))
    chk.cov["clause_counts"] = kinds
    chk.cov["distinct_nontrivial"] = len(nontriv)
    chk.cov["rule"] = ("scripts = top-level operations of TLC -simulate behaviours of Signals.tla plus seeded random scripts; executed on real "
                       "urwid senders/handlers/weak arguments; non-trivial = distinct (behaviours, script) in which the handler list is edited "
                       "while an emit is in progress")
    for v in ("edit_during_emit.disconnect_by_key", "edit_during_emit.collect", "edit_during_emit.connect"):
        if not kinds.get(v):
            chk.vacuity.append("driver." + v)
    chk.sample(next((t for t in traces if any(e["t"] == "collect" for e in t["ev"])), traces[0]))
    chk.sample(traces[-1])
    chk.cov["trusted_base"] = ["TLC", "vf/props/c14.py World (real senders/handlers, shadow list only used to pick targets)",
                               "CPython reference counting (weak arguments die when the last reference is dropped)"]
    chk.assumptions += ["handlers that raise are outside the property", "cyclic-GC timing is not modelled; collection = dropping the last reference"]


def replay(chk, path):
    with open(path) as f:
        rp = json.load(f)["replay"]
    tr = run_script(rp["beh"], len(rp["beh"]), [tuple(o) for o in rp["script"]], nweak=rp.get("nweak", 1), maxconn=6)
    res = tlc.validate("SignalsTrace", [tr])
    chk.add_tv("replay", res)
    _handle(chk, [tr], res, "replay")
    chk.sample(tr)
    return chk.finish()
