"""C14 — signals.  Spec: spec/Signals.tla (+SignalsOps); trace spec: spec/SignalsTrace.tla.

Operation alphabet of the driver (= of the model, see Signals.tla):
  connect s n h ws uk us [victim r cf ua]
                              callback (h, r): the plain function h (r = 0) or the bound method h of receiver object r, handed over as
                              cf = "s" the callback object the caller keeps / "n" `receiver.h` evaluated afresh (a new, equal object);
                              weak arguments ws (0..2 ids), user arguments us handed over as
                              uk = "t" tuple, "f" fresh list, "g" one-shot iterator, "c" THE CALLER'S OWN LIST (whatever it holds now);
                              ua = the deprecated positional user_arg: 0 = None / not given, else an id of UA_MAKE (false and true values)
  disconnect s n h ws uk us [r cf ua]
                              by arguments: names the descriptor (h, r, ua, ws, us); any descriptor, connected or not
  construct s h r cf ua       the application replaces the sender in slot s by a new one that is born with a callback: a widget built with
                              Button(on_press=cb, user_data=ua) / CheckBox(on_state_change=cb, user_data=ua) in a world of widgets
  disconnect_by_key s n k     any key the caller still holds, also keys of senders that are gone
  mutate us                   the caller changes its own list (after having connected with it)
  collect w                   the application drops weak argument w (observed: dead there and then)
  drop_sender s keep          the application drops the sender in slot s, keeping (1) or forgetting (0) the keys it got for it;
                              observed: dead by reference counting alone / after gc.collect(); a fresh sender takes the slot
  emit s n
"""
from __future__ import annotations

import concurrent.futures as cf
import gc
import itertools
import json
import warnings
import weakref

from .. import tlc

# values of the deprecated user_arg (id 0 = None = not given); ids 1..6 are FALSE values that are not None.  Within one history at
# most one of the ids 1, 3, 6 is used (0 == False == 0.0 in Python: whether they name each other's connections is left open).
UA_MAKE = {1: lambda: 0, 2: lambda: "", 3: lambda: False, 4: lambda: (), 5: lambda: [], 6: lambda: 0.0,
           7: lambda: 7, 8: lambda: "x", 9: lambda: True, 10: lambda: [0], 11: lambda: (0,)}
UA_FALSY = (1, 2, 3, 4, 5, 6)
UA_ZEROS = (1, 3, 6)
UA_TRUTHY = (7, 8, 9, 10, 11)


def _ua_id(obj):
    for i, mk in UA_MAKE.items():
        v = mk()
        if type(v) is type(obj) and v == obj:
            return i
    return 0


def ua_pool(rng):
    """user_arg values of one history: None, one zero-like value, two other false values, two true values."""
    return [0, rng.choice(UA_ZEROS)] + rng.sample([2, 4, 5], 2) + rng.sample(list(UA_TRUTHY), 2)


def _same_arg(a, b):
    return a is b or (type(a) is type(b) and isinstance(a, int) and a == b)


BEHS = ["plain", "true", "discSelf", "discEarlier", "discLater", "connectNew", "emitAgain", "killWeak"]
NAMES = {1: "n1", 2: "n2", 3: "n3"}  # n3 is not registered


class _WeakArg:
    """A weakly referenced argument.  Odd ids are FALSY objects (like an empty list walker or an empty container):
    alive is not the same as true."""

    __slots__ = ("w", "__weakref__")

    def __init__(self, w):
        self.w = w

    def __bool__(self):
        return self.w % 2 == 0


class World:
    """Real urwid senders / handlers / weak arguments driven by an abstract script; every
    observable step is appended to self.ev."""

    NRECV = 2

    def __init__(self, beh, nh, nweak=1, nn=2, kind="plain"):
        import urwid
        from urwid.signals import MetaSignals

        self.urwid = urwid
        self.kind = kind

        class SenderA(metaclass=MetaSignals):
            signals = ["n1", "n2"]

        class _Base(metaclass=MetaSignals):      # signal names registered through a class hierarchy three deep
            signals = ["n1"]

        class _Mid(_Base):
            signals = ["n2"]

        class SenderB(_Mid):
            pass

        class ButtonB(urwid.Button):            # a Button with a second signal of its own
            signals = ["click", "aux"]

        if kind == "widgets":
            # senders are real widgets; callbacks given to their constructors are connected with the deprecated user_arg
            self.names = {1: {1: "click", 2: "aux", 3: "n3"}, 2: {1: "change", 2: "postchange", 3: "n3"}}
            # (slot 2: a CheckBox, the next one a RadioButton, and so on in turn)
            self.factory = {1: lambda cb=None, ua=None, gen=0: ButtonB("b", cb, ua),
                            2: lambda cb=None, ua=None, gen=0: (urwid.RadioButton([], "r", False, cb, ua) if gen % 2 else
                                                               urwid.CheckBox("c", False, False, cb, ua))}
        else:
            self.names = {1: NAMES, 2: NAMES}
            self.factory = {1: lambda cb=None, ua=None, gen=0: SenderA(), 2: lambda cb=None, ua=None, gen=0: SenderB()}
        self.senders = {1: self.factory[1](), 2: self.factory[2]()}
        self.sgen = {1: 0, 2: 0}   # generation of the sender in each slot (drop_sender puts a fresh one there)
        self.weak = {w: _WeakArg(w) for w in range(1, nweak + 1)}
        self.nweak = nweak
        self.nn = nn
        self.nh = nh
        self.beh = beh  # list, index h-1
        self.ev = []
        self.nextk = 1
        self.nextemit = 1
        self.keys = {}    # k -> Key object, as long as the caller holds it
        self.kinfo = {}   # k -> (slot, generation) of the sender it was handed out for
        self.inuse = {}   # weak argument id -> number of running handler calls that received it
        self.clist = [1]  # the caller's own list, passed as user_args again and again and changed in between
        self.shadow = {(s, n): [] for s in (1, 2) for n in (1, 2)}  # harness belief: list of (k, h, ws, us, r, ua)
        self.depth = 0
        self.stack_sn = []
        self.handlers = {h: self._mk_handler(h) for h in range(1, nh + 1)}
        # receiver objects: their methods m1..m<nh> are callbacks too (method h behaves as function h does)
        world = self

        class Receiver:
            def __init__(self, r):
                self.r = r

        def mk_method(h):
            def method(self, *args):
                return world._called(h, args, self.r)
            method.__name__ = f"m{h}"
            return method
        for h in range(1, nh + 1):
            setattr(Receiver, f"m{h}", mk_method(h))
        self.recv = {r: Receiver(r) for r in range(1, self.NRECV + 1)}
        self.kept = {}    # (h, r) -> the bound method object the caller keeps

    def _mk_handler(self, h):
        world = self

        def handler(*args):
            return world._called(h, args)

        handler.__name__ = f"h{h}"
        return handler

    def _uargs(self, uk, us):
        """The user-arguments object handed to urwid and its content at this moment."""
        if uk == "c":
            return self.clist, list(self.clist)
        us = [int(x) for x in us]
        if uk == "t":
            return tuple(us), us
        if uk == "g":
            return iter(list(us)), us
        return list(us), us

    def _callback(self, h, r, cf):
        """The callback object handed to urwid: function h, or method h of receiver r (kept object / fetched afresh)."""
        if not r:
            return self.handlers[h]
        if cf == "s":
            if (h, r) not in self.kept:
                self.kept[(h, r)] = getattr(self.recv[r], f"m{h}")
            return self.kept[(h, r)]
        return getattr(self.recv[r], f"m{h}")

    # ---- abstract operations ---------------------------------------------------------------
    def connect(self, s, n, h, ws=(), uk="t", us=None, victim=0, r=0, cf="s", ua=0):
        k = self.nextk
        if not r:
            cf = "s"
        ws = [int(w) for w in ws]
        if us is None:
            us = [k]
        exc = ""
        if any(w not in self.weak for w in ws):
            return 0
        wa = [self.weak[w] for w in ws]
        if victim and victim in self.weak and victim not in ws and not self.inuse.get(victim):
            # another weak argument dies WHILE connect() is running: the iterable of weak arguments drops its last reference
            world, inner = self, list(wa)

            class _Dying:
                def __iter__(self_):      # noqa: N805
                    world.collect(victim)
                    items = inner[:]
                    del inner[:]          # keep no reference behind (this class object lives until the cyclic collector runs)
                    return iter(items)
            wa = _Dying()
        uobj, us = self._uargs(uk, us)
        cb = self._callback(h, r, cf)
        pos = (UA_MAKE[ua](),) if ua else ((None,) if k % 2 else ())   # user_arg=None is "not given"
        try:
            key = self.urwid.connect_signal(self.senders[s], self.names[s][n], cb, *pos, weak_args=wa, user_args=uobj)
            self.keys[k] = key
            self.kinfo[k] = (s, self.sgen[s])
            self.shadow[(s, n)].append((k, h, tuple(ws), tuple(us), r, ua))
            self.nextk += 1
            del key
        except Exception as ex:  # noqa: BLE001
            exc = type(ex).__name__
        del uobj, wa, cb, pos
        self.ev.append({"t": "connect", "s": s, "n": n, "h": h, "r": r, "cf": cf, "ua": ua, "ws": ws, "us": us, "ut": uk, "k": k,
                        "exc": exc, "via": "c"})
        return k

    def connect_kill(self, s, n, h, ws, victim):
        return self.connect(s, n, h, ws, "f", None, victim)

    def disconnect(self, s, n, h, ws=(), uk="t", us=(), r=0, cf="s", ua=0):
        exc = ""
        if not r:
            cf = "s"
        ws = [int(w) for w in ws]
        if any(w not in self.weak for w in ws):
            # cannot name a dead weak argument any more; the handler is gone anyway
            return
        wa = [self.weak[w] for w in ws]
        uobj, us = self._uargs(uk, us)
        cb = self._callback(h, r, cf)
        pos = (UA_MAKE[ua](),) if ua else ()
        try:
            self.urwid.disconnect_signal(self.senders[s], self.names[s][n], cb, *pos, weak_args=wa, user_args=uobj)
        except Exception as ex:  # noqa: BLE001
            exc = type(ex).__name__
        del uobj, wa, cb, pos
        exact = 0
        if n in (1, 2):   # belief only: the first connection made with these arguments goes
            d = (h, tuple(ws), tuple(us), r, ua)
            hit = next((e for e in self.shadow[(s, n)] if e[1:] == d), None)
            if hit is not None:
                exact = 1
                self.shadow[(s, n)].remove(hit)
        self.ev.append({"t": "disconnect", "s": s, "n": n, "h": h, "r": r, "cf": cf, "ua": ua, "ws": ws, "us": us, "ut": uk, "exc": exc,
                        "exact": exact})

    def disconnect_by_key(self, s, n, k):
        exc = ""
        if k not in self.keys:
            return
        try:
            self.urwid.disconnect_signal_by_key(self.senders[s], self.names[s][n], self.keys[k])
        except Exception as ex:  # noqa: BLE001
            exc = type(ex).__name__
        if n in (1, 2):
            self.shadow[(s, n)] = [e for e in self.shadow[(s, n)] if e[0] != k]
        self.ev.append({"t": "disconnect_by_key", "s": s, "n": n, "k": k, "exc": exc,
                        "stale": int(self.kinfo[k] != (s, self.sgen[s]))})

    def mutate(self, us):
        """The caller goes on using the list object it passed to connect_signal()."""
        self.clist[:] = [int(x) for x in us]
        self.ev.append({"t": "mutate", "us": list(self.clist)})

    def collect(self, w):
        if w not in self.weak:
            return
        if self.inuse.get(w):
            # a handler that received this object as argument is still running: its frame keeps the object alive,
            # dropping our reference now would not collect it (and it would die silently when that frame returns)
            return
        # event first: the weakref callbacks fire synchronously when the last reference goes
        e = {"t": "collect", "w": w, "dead": True}
        self.ev.append(e)
        for p in self.shadow:
            self.shadow[p] = [x for x in self.shadow[p] if w not in x[2]]
        ref = weakref.ref(self.weak[w])
        del self.weak[w]
        e["dead"] = ref() is None      # by reference counting alone: the machinery holds weak references only

    def construct(self, s, h, r=0, cf="s", ua=0):
        """The application replaces the sender in slot s by a new one that is born with a callback: in a world of widgets
        Button(label, on_press=cb, user_data=ua) / CheckBox(label, on_state_change=cb, user_data=ua) ("shorthand for
        connect_signal(widget, 'click' / 'change', cb, user_data)", no key is returned); elsewhere a new sender and a connect."""
        if self.depth:
            return
        self.drop_sender(s, 1, make=(h, r, cf if r else "s", ua))

    def drop_sender(self, s, keep=1, make=None):
        """The application lets go of the sender in slot s; it keeps (or forgets) the keys connect_signal() returned for it."""
        if self.depth:
            return
        gen = self.sgen[s]
        mine = [k for k, sg in self.kinfo.items() if sg == (s, gen) and k in self.keys]
        if not keep:
            for k in mine:
                del self.keys[k]
        nconn = sum(len(self.shadow[(s, n)]) for n in (1, 2))
        for n in (1, 2):
            self.shadow[(s, n)] = []
        own = self.own_cycles((s,))
        snd = self.senders[s]
        ref = weakref.ref(snd)
        if make and self.kind == "widgets":
            h, r, cf, ua = make
            self.senders[s] = self.factory[s](self._callback(h, r, cf), UA_MAKE[ua]() if ua else None, gen + 1)
        else:
            self.senders[s] = self.factory[s](None, None, gen + 1)
        self.sgen[s] = gen + 1
        del snd
        dead_rc = ref() is None
        if not dead_rc:
            gc.collect()
        self.ev.append({"t": "drop_sender", "s": s, "kept": len(mine) if keep else 0, "nconn": nconn,
                        "dead_rc": dead_rc, "dead_gc": ref() is None, "own_cycles": own})
        if make and self.kind == "widgets":
            k = self.nextk                      # the constructor connected the callback; nobody holds a key for it
            self.nextk += 1
            self.kinfo[k] = (s, self.sgen[s])
            self.shadow[(s, 1)].append((k, h, (), (), r, ua))
            self.ev.append({"t": "connect", "s": s, "n": 1, "h": h, "r": r, "cf": cf, "ua": ua, "ws": [], "us": [], "ut": "t", "k": k,
                            "exc": "", "via": "w"})
        elif make:
            self.connect(s, 1, make[0], (), "t", [], 0, make[1], make[2], make[3])

    def emit(self, s, n):
        eid = self.nextemit
        self.nextemit += 1
        snd = self.senders[s]
        # in a world of widgets the user makes the widget emit where that amounts to exactly one emit (the return value of
        # emit_signal() is not seen then): Button "click" by pressing enter, CheckBox "change" by toggling it while nothing
        # listens to "postchange" (set_state() emits that one too)
        act = self.kind == "widgets" and n == 1 and eid % 3 != 0 and (s == 1 or not self.shadow[(2, 2)])
        if not act:
            emobjs, em = (2000 + eid,), [2000 + eid]
        elif s == 1:
            emobjs, em = (snd,), [4000 + s]
        else:
            new = not snd.state
            emobjs, em = (snd, new), [4000 + s, 5000 + int(new)]
        self.ev.append({"t": "emit_begin", "s": s, "n": n, "id": eid, "em": em, "via": "w" if act else "e"})
        self.depth += 1
        self.stack_sn.append((s, n, eid, set(), emobjs, em))
        exc = ""
        ret = False
        try:
            if not act:
                ret = self.urwid.emit_signal(snd, self.names[s][n], 2000 + eid)
            elif s == 1:
                snd.keypress((10,), "enter")
            else:
                snd.set_state(new)
        except Exception as ex:  # noqa: BLE001
            exc = type(ex).__name__
        del snd, emobjs
        self.stack_sn.pop()
        self.depth -= 1
        self.ev.append({"t": "emit_end", "id": eid, "ret": bool(ret), "ret_is_bool": isinstance(ret, bool), "exc": exc,
                        "obs": 0 if act else 1})

    # ---- handler side ----------------------------------------------------------------------
    def _abs_arg(self, a):
        if isinstance(a, _WeakArg):
            return 1000 + a.w
        if isinstance(a, int) and not isinstance(a, bool):
            return a
        return -1

    def _abs_args(self, args, emobjs, em):
        """The arguments a callback received, exactly: what stands before the emitted arguments (weak and user arguments), the
        emitted arguments, what follows them (3000 + id of a user_arg value; -1 = something else)."""
        ne = len(emobjs)
        at = next((i for i in range(len(args) - ne + 1) if all(_same_arg(args[i + j], emobjs[j]) for j in range(ne))), None) if ne else None
        if at is None:
            return [self._abs_arg(a) for a in args]
        tail = [_ua_id(a) for a in args[at + ne:]]
        return [self._abs_arg(a) for a in args[:at]] + list(em) + [3000 + u if u else -1 for u in tail]

    def _called(self, h, args, r=0):
        s, n, eid, seen, emobjs, em = self.stack_sn[-1] if self.stack_sn else (0, 0, 0, set(), (), [])
        aa = self._abs_args(args, emobjs, em)
        # harness belief (used to pick the targets of the handler's behaviour only): which connection is this?  The first one
        # made with these arguments that this emit has not called yet.
        d = (h, tuple(a - 1000 for a in aa if 1000 < a < 2000), tuple(a for a in aa if 0 <= a < 1000), r,
             next((a - 3000 for a in aa if 3000 < a < 4000), 0))
        k = 0
        if s:
            cands = [e[0] for e in self.shadow[(s, n)] if e[1:] == d]
            k = next((c for c in cands if c not in seen), cands[0] if cands else 0)
            seen.add(k)
        b = self.beh[h - 1]
        ret = b == "true"
        self.ev.append({"t": "call", "k": k, "h": h, "r": r, "args": aa, "emit": eid, "ret": ret})
        if s == 0:
            return ret
        held = [a.w for a in args if isinstance(a, _WeakArg)]
        for w in held:
            self.inuse[w] = self.inuse.get(w, 0) + 1
        try:
            return self._behave(b, s, n, k, ret)
        finally:
            for w in held:
                self.inuse[w] -= 1

    def _behave(self, b, s, n, k, ret):
        live = self.shadow[(s, n)]
        pos = next((i for i, e in enumerate(live) if e[0] == k), None)

        def disc(e, by_args):
            # by key, or by arguments (only when they name that connection alone; a bound method is then fetched afresh or not in turn)
            if sum(1 for x in live if x[1:] == e[1:]) > 1 or not (by_args or e[0] not in self.keys):
                self.disconnect_by_key(s, n, e[0])
            else:
                self.disconnect(s, n, e[1], e[2], "tf"[e[0] % 4 // 2], e[3], e[4], "ns"[e[0] % 8 // 4], e[5])
        if b == "discSelf" and pos is not None:
            disc(live[pos], False)
        elif b == "discEarlier" and pos is not None and pos > 0:
            disc(live[pos - 1], False)
        elif b == "discLater" and pos is not None and pos + 1 < len(live):
            disc(live[pos + 1], live[pos + 1][0] % 2 == 0)
        elif b == "connectNew" and len(live) < self.maxconn:
            self.connect(s, n, self.nh, (), "t", [1])
        elif b == "emitAgain" and self.depth < 2:
            self.emit(s, (n % self.nn) + 1)
        elif b == "killWeak" and 1 in self.weak:
            self.collect(1)
        return ret

    maxconn = 3

    # ---- end of trace: the machinery must not keep senders / weak args alive -----------------
    def drop(self):
        srefs = [weakref.ref(s) for s in self.senders.values()]
        wrefs = [weakref.ref(w) for w in self.weak.values()]
        ev = self.ev
        own = self.own_cycles()
        # break the harness' own references
        self.senders.clear()
        self.weak.clear()
        self.handlers.clear()
        self.recv.clear()
        self.kept.clear()
        self.keys.clear()
        self.shadow.clear()
        rc = all(r() is None for r in srefs)
        gc.collect()
        ev.append({"t": "drop", "senders_dead_rc": rc, "senders_dead": all(r() is None for r in srefs),
                   "weak_dead": all(r() is None for r in wrefs), "own_cycles": own})
        return ev

    _own_cycles = {}

    def own_cycles(self, slots=(1, 2)):
        """1 if a sender like the one in these slots, freshly built and never connected to anything, is not freed by reference
        counting alone (a RadioButton and its group list refer to each other): then only the cycle collector can free it, whatever
        the signal machinery does."""
        cyc = 0
        for s in slots:
            key = (self.kind, s, self.sgen[s] % 2)
            if key not in World._own_cycles:
                ref = weakref.ref(self.factory[s](None, None, self.sgen[s]))
                World._own_cycles[key] = int(ref() is not None)
                gc.collect()
            cyc |= World._own_cycles[key]
        return cyc


def run_script(beh, nh, script, nweak=1, maxconn=3, nn=2, kind="plain"):
    gc.freeze()  # everything allocated so far is out of the collector's way: drop()'s gc.collect() stays cheap
    w = World(beh, nh, nweak, nn, kind)
    w.maxconn = maxconn
    for op in script:
        getattr(w, op[0])(*op[1:])
    ev = w.drop()
    del w
    return {"nweak": nweak, "beh": beh, "kind": kind, "script": [list(o) for o in script], "ev": ev}


def script_from_behaviour(b, pool=(0, 1, 2, 7)):
    """Top-level operations of a Signals.tla behaviour (the emit's inner steps are the code's job); the model's calls per
    finished emit as descriptors (h, ws, us, r, ua).  pool[i] = the user_arg value that stands for the model's value i."""
    script = []
    calls = []  # model's call order per finished emit
    desc = {}
    for st in b[1:]:
        la = st["last"]
        a = la["a"]
        op = la["op"]
        if op == "connect":
            script.append(("connect", a[0], a[1], a[2], list(a[3]), a[4], list(a[5]), 0, a[7], a[8], pool[a[9]]))
        elif op == "connect_unregistered":
            script.append(("connect", a[0], a[1], a[2], [], "t", [1]))
        elif op == "disconnect":
            script.append(("disconnect", a[0], a[1], a[2], list(a[3]), a[4], list(a[5]), a[7], a[8], pool[a[9]]))
        elif op == "disconnect_by_key":
            script.append(("disconnect_by_key", a[0], a[1], a[2]))
        elif op == "mutate":
            script.append(("mutate", list(a[0])))
        elif op == "drop_sender":
            script.append(("drop_sender", a[0], 1 if a[1] else 0))
        elif op == "collect":
            if not st["stack"]:
                script.append(("collect", a[0]))
            else:
                return None, None, None  # a collection between two handler calls cannot be scheduled from outside
        elif op == "emit":
            script.append(("emit", a[0], a[1]))
        elif op == "call":
            desc[a[0]] = [a[1], list(a[2]), list(a[3]), a[4], pool[a[5][0]] if a[5] else 0]
        elif op == "emit_end":
            calls.append([desc[k] for k in a[2]])
    beh = [x if x != "unset" else "plain" for x in b[-1]["beh"]]
    return script, calls, beh


WSQ = [(), (1,), (2,), (1, 2), (2, 1)]
# how a callback is handed over: (receiver, fetch): a plain function; a method of receiver 1 / 2 as the object the caller keeps or fetched afresh
FORMS = [(0, "s"), (1, "s"), (1, "n"), (2, "s"), (2, "n")]


def directed_scripts(quick=True):
    """Every ordered triple of handler behaviours on one signal, with a handler on the sender's other signal (so that a
    recursive emit finds one), the weak argument on each position in turn, emitted twice; and duplicate connections
    (same callback, same arguments) with one or two disconnects by arguments / by key before and during an emit."""
    out = []

    def C(s, n, h, ws=(), uk="t", us=None, r=0, cf="s", ua=0):
        return ("connect", s, n, h, list(ws), uk, us, 0, r, cf, ua)

    def D(s, n, h, ws=(), uk="t", us=(), r=0, cf="s", ua=0):
        return ("disconnect", s, n, h, list(ws), uk, list(us), r, cf, ua)

    for b1 in BEHS:
        for b2 in BEHS:
            for b3 in BEHS:
                for wpos in (0, 1, 2, 3):
                    ws = [[1] if wpos == i else [] for i in (1, 2, 3)]
                    script = [C(1, 1, 1, ws[0]), C(1, 1, 2, ws[1]), C(1, 1, 3, ws[2]), C(1, 2, 4), ("emit", 1, 1), ("emit", 1, 1)]
                    out.append(("triples", [b1, b2, b3, "plain"], 4, script))
    # a handler is connected while the weak argument of an already connected handler dies (inside connect())
    for b in ("plain", "true", "discSelf"):
        for pos in (0, 1, 2):
            pre = [C(1, 1, 1, [2]), C(1, 1, 2), C(1, 1, 3, [2])][:pos + 1]
            script = pre + [("connect_kill", 1, 1, 4, [], 2), ("emit", 1, 1), ("connect_kill", 1, 1, 4, [1], 2), ("emit", 1, 1), ("emit", 1, 2)]
            out.append(("connect_kill", [b, "plain", "plain", "true"], 4, script))
    for b in BEHS:
        for ndup in (1, 2):
            for ndisc in (0, 1, 2, 3):
                for mode in ("args", "key"):
                    dup = C(1, 1, 2, (), "t", [7])
                    script = [C(1, 1, 1), dup] + [dup] * ndup + [C(1, 1, 3), ("emit", 1, 1)]
                    script += [("disconnect", 1, 1, 2, [], "t", [7]) if mode == "args" else ("disconnect_by_key", 1, 1, 2)] * ndisc
                    script += [("emit", 1, 1), C(1, 1, 1, (), "t", [8]), C(1, 1, 1, (), "f", [8]), ("emit", 1, 1)]
                    out.append(("duplicates", [b, "plain", "true", "plain"], 4, script))
    # ---- descriptors that differ in the NUMBER / ORDER of weak arguments only (one a prefix of the other, or not) -----------
    # two connections of one callback with the same user arguments and weak arguments c1, c2; a disconnect naming weak
    # arguments d (which may name the first, the second, or neither of them), twice
    for c1 in WSQ:
        for c2 in WSQ:
            for d in WSQ:
                for b in ("plain", "true"):
                    script = [C(1, 1, 1, c1, "t", [5]), C(1, 1, 1, c2, "f", [5]), C(1, 1, 2, (), "t", [6]), ("emit", 1, 1),
                              ("disconnect", 1, 1, 1, list(d), "t", [5]), ("emit", 1, 1),
                              ("disconnect", 1, 1, 1, list(d), "f", [5]), ("emit", 1, 1), ("collect", 1), ("emit", 1, 1)]
                    out.append(("weak_descriptors", [b, "plain"], 2, script))
    # ---- how the user arguments are handed over, and what the caller does with its list afterwards ---------------------------
    for ck in "tfcg":
        for dk in "tfcg":
            for mut in (None, [7, 9], [8], [], [9, 7]):
                for dnow in (0, 1):
                    if dk == "c" and not dnow:
                        continue
                    script = [("mutate", [7]), C(1, 1, 1, (), ck, [7]), C(1, 1, 2, [1], "t", [3]), ("emit", 1, 1)]
                    if mut is not None:
                        script.append(("mutate", mut))
                    script += [("emit", 1, 1), C(2, 1, 1, (), "c", None), ("emit", 2, 1), ("emit", 1, 1),
                               ("disconnect", 1, 1, 1, [], dk, (mut if (dnow and mut is not None) else [7])), ("emit", 1, 1),
                               ("disconnect", 2, 1, 1, [], dk, [7]), ("emit", 2, 1), ("mutate", [4]), ("emit", 2, 1), ("emit", 1, 1)]
                    out.append(("user_arg_kinds", ["plain", "true"], 2, script))
    # ---- the application drops a sender: with / without connections, after disconnecting them, holding its keys or not --------
    for nconn in (0, 1, 2):
        for ws in ((), (1,)):
            for disc in ("none", "key", "args"):
                for keep in (0, 1):
                    for pre_emit in (0, 1):
                        for b in ("plain", "discSelf"):
                            script = [C(1, 1, i, ws, "t", [4 + i]) for i in range(1, nconn + 1)] + [C(2, 1, 1, ws, "t", [5])]
                            if pre_emit:
                                script.append(("emit", 1, 1))
                            if disc == "key":
                                script.append(("disconnect_by_key", 1, 1, 1))
                            elif disc == "args":
                                script.append(("disconnect", 1, 1, 1, list(ws), "t", [5]))
                            script += [("drop_sender", 1, keep), C(1, 1, 2, (), "t", [9]), ("disconnect_by_key", 1, 1, 1), ("emit", 1, 1),
                                       ("drop_sender", 1, 1 - keep), ("collect", 1), ("emit", 2, 1), ("drop_sender", 2, keep), ("emit", 2, 1)]
                            out.append(("sender_dropped", [b, "plain"], 2, script))
    # ---- what a callback IS: a function, or a method of an object; the object standing for it is kept or fetched afresh ---------
    # connections A and B of function / method 1 (of the same or of different receivers: duplicates, or two callbacks), and one of
    # method 2 of A's receiver; disconnects naming callback d (A, B, both or neither), twice; then the other method
    for (ra, ca) in FORMS:
        for (rb, cb) in FORMS:
            for (rd, cd) in FORMS:
                for b in (("plain", "true") if ra == rb or not quick else ("true",) if ra < rb else ("plain",)):
                    script = [C(1, 1, 1, (), "t", [5], ra, ca), C(1, 1, 1, (), "f", [5], rb, cb), C(1, 1, 2, (), "t", [5], ra, ca), ("emit", 1, 1),
                              D(1, 1, 1, (), "t", [5], rd, cd), ("emit", 1, 1), D(1, 1, 1, (), "f", [5], rd, cd), ("emit", 1, 1),
                              D(1, 1, 2, (), "t", [5], ra, "n" if ra else "s"), D(1, 1, 1, (), "t", [5], ra, "n" if ra else "s"), ("emit", 1, 1),
                              ("drop_sender", 1, 1), ("emit", 1, 1)]
                    out.append(("callback_kinds", [b, "plain"], 2, script))
    # ---- the deprecated user_arg: None, false values, true values; alone, after user arguments, after weak arguments ------------
    shapes = [((), []), ((), [5]), ((1,), []), ((1,), [5])]      # (weak arguments, user arguments) that come before it
    for ua in range(0, len(UA_MAKE) + 1):
        for ua2 in (0, 4, 8):
            for ws, us in (shapes if not (ua2 and quick) else shapes[ua % 2::2]):
                for (r, cf) in ((0, "s"), (1, "n")):
                    script = [C(1, 1, 1, ws, "t", us, r, cf, ua), C(1, 1, 2, (), "t", us, r, cf, ua2), C(1, 1, 1, ws, "f", us, r, cf, ua2), ("emit", 1, 1),
                              D(1, 1, 1, ws, "t", us, r, cf, ua2), ("emit", 1, 1), D(1, 1, 1, ws, "t", us, r, cf, ua), ("emit", 1, 1),
                              D(1, 1, 1, ws, "f", us, r, cf, ua), D(1, 1, 2, (), "t", us, r, cf, 0), ("emit", 1, 1), ("collect", 1), ("emit", 1, 1)]
                    out.append(("user_arg_values", ["plain", "true"], 2, script))
    # ---- widgets born with a callback: Button(on_press=, user_data=), CheckBox(on_state_change=, user_data=) ---------------------
    for slot in (1, 2):
        for ua in range(0, len(UA_MAKE) + 1):
            for (r, cf) in FORMS[:3]:
                for b in (("plain", "true", "discSelf", "discLater", "connectNew", "emitAgain") if not quick else ("plain", "discSelf") if r else ("true", "discSelf")):
                    ua2 = 8 if ua != 8 else 7
                    script = [("construct", slot, 1, r, cf, ua), ("emit", slot, 1), C(slot, 1, 2, (), "t", [], 0, "s", ua2), ("emit", slot, 1),
                              ("emit", slot, 1), D(slot, 1, 1, (), "t", (), r, "n" if r else "s", ua2), ("emit", slot, 1),
                              D(slot, 1, 1, (), "t", (), r, "n" if r else "s", ua), ("emit", slot, 1), ("emit", slot, 1),
                              ("construct", slot, 2, 0, "s", ua), ("emit", slot, 1), ("drop_sender", slot, 0), ("emit", slot, 1)]
                    out.append(("widget_user_data", [b, "plain"], 2, script, "widgets"))
    return out


def _wseqs(nweak):
    ids = range(1, nweak + 1)
    return [()] + [(a,) for a in ids] + [p for p in itertools.permutations(ids, 2)]


def _vary_ws(rng, ws, nweak):
    """A weak-argument sequence related to ws: a prefix, an extension, a permutation, or something else."""
    ws = tuple(ws)
    r = rng.random()
    if r < 0.35 and ws:
        return ws[:-1]
    if r < 0.7 and len(ws) < 2:
        rest = [w for w in range(1, nweak + 1) if w not in ws]
        if rest:
            return ws + (rng.choice(rest),)
    if r < 0.8 and len(ws) == 2:
        return ws[::-1]
    return rng.choice(_wseqs(nweak))


def random_script(rng, nh, nweak, length, nrecv=2):
    script = []
    known = []      # (s, n, h, ws, us, r, ua) of the connects issued so far
    clist = [1]     # content of the caller's list as the script goes
    nconn = 0
    fresh = 2
    wseqs = _wseqs(nweak)
    pool = ua_pool(rng)            # the user_arg values of this history
    p_method = rng.choice([0.0, 0.3, 0.6])
    p_ua = rng.choice([0.0, 0.25, 0.5])

    def callback():
        r = rng.randint(1, nrecv) if rng.random() < p_method else 0
        return r, (rng.choice("sn") if r else "s")

    for _ in range(length):
        x = rng.random()
        s = rng.choice([1, 1, 2])
        n = rng.choice([1, 1, 2])
        if x < 0.36:
            h = rng.randint(1, nh)
            ws = rng.choice(wseqs) if rng.random() < 0.5 else ()
            uk = rng.choice("ttffcg")
            r, cf = callback()
            ua = rng.choice(pool[1:]) if rng.random() < p_ua else 0
            if uk == "c":
                us = list(clist)
            elif known and rng.random() < 0.35:     # the arguments of an earlier connection again, or nearly
                e = rng.choice(known)
                h, us, r, ua = e[2], list(e[4]), e[5], e[6]
                s, n = (e[0], e[1]) if rng.random() < 0.7 else (s, n)
                ws = e[3] if rng.random() < 0.4 else _vary_ws(rng, e[3], nweak)
                q = rng.random()
                if q < 0.2:
                    r = rng.randint(0, nrecv)       # the same function / method of another object
                elif q < 0.4:
                    ua = rng.choice(pool)
                cf = rng.choice("sn") if r else "s"
            else:
                us = [fresh] if rng.random() < 0.8 else [fresh, rng.choice([9, fresh])]
                if rng.random() < 0.1:
                    us = []
                fresh += 1
            script.append(("connect", s, n, h, list(ws), uk, us, 0, r, cf, ua))
            known.append((s, n, h, tuple(ws), tuple(us), r, ua))
            nconn += 1
        elif x < 0.40:
            script.append(("connect", s, 3, rng.randint(1, nh), [], "t", [fresh]))
        elif x < 0.42 and nweak >= 2:   # connect while another handler's weak argument is dying
            h = rng.randint(1, nh)
            w = rng.choice([0] + list(range(1, nweak + 1)))
            v = rng.choice([x for x in range(1, nweak + 1) if x != w])
            script.append(("connect_kill", s, n, h, [w] if w else [], v))
            nconn += 1
        elif x < 0.44:                  # a new sender born with a callback (a widget built with on_press= / on_state_change=)
            r, cf = callback()
            ua = rng.choice(pool[1:]) if rng.random() < max(p_ua, 0.25) else 0
            h = rng.randint(1, nh)
            script.append(("construct", s, h, r, cf, ua))
            known.append((s, 1, h, (), (), r, ua))
            nconn += 1
        elif x < 0.54 and known:        # disconnect by arguments: a connection made, or something close to one
            e = rng.choice(known)
            s, n, h, ws, us, r, ua = e
            q = rng.random()
            if q < 0.45:
                pass
            elif q < 0.53:
                n, h = rng.choice([1, 2]), rng.randint(1, nh)
            elif q < 0.70:
                ws = _vary_ws(rng, ws, nweak)
            elif q < 0.80:
                us = rng.choice([us + (9,), us[:-1], tuple(clist), (fresh,)])
            elif q < 0.90:
                r = rng.choice([x for x in range(0, nrecv + 1) if x != r])
            else:
                ua = rng.choice([u for u in pool if u != ua])
            uk = rng.choice("ttffg")
            if tuple(us) == tuple(clist) and rng.random() < 0.5:
                uk = "c"
            script.append(("disconnect", s, n, h, list(ws), uk, list(us), r, rng.choice("sn") if r else "s", ua))
        elif x < 0.61 and nconn:
            k = rng.randint(1, nconn + 1)
            script.append(("disconnect_by_key", s, rng.choice([1, 1, 2]), k))
        elif x < 0.66:
            script.append(("collect", rng.randint(1, nweak)))
        elif x < 0.71:
            c = list(clist)
            q = rng.random()
            if q < 0.35:
                c.append(9)
            elif q < 0.55 and c:
                c[-1] = fresh
                fresh += 1
            elif q < 0.7 and c:
                c.pop()
            elif q < 0.8:
                c = []
            else:
                c = [rng.choice([u for e in known for u in e[4]] or [1])]
            c = c[:3]
            if c != clist:
                clist = c
                script.append(("mutate", list(c)))
        elif x < 0.75:
            script.append(("drop_sender", s, rng.choice([0, 1, 1])))
        else:
            script.append(("emit", s, n))
    return script


MC_CFG = """CONSTANTS NS = {ns} NN = {nn} NH = {nh} NW = {nw} MaxWA = {maxwa} NU = {nu} UKinds = {{{uk}}} Mem = {mem}
NR = {nr} CKinds = {{{ck}}} UAs = {{{uas}}} Falsy = {{{falsy}}}
MaxOps = {maxops} MaxConn = 3 Mode = "{mode}"
Behaviours = {{{behs}}}
SPECIFICATION {spec}
INVARIANT EmitContract
INVARIANT DeadWeakGone
INVARIANT KeysUnique
INVARIANT NoStaleKeys
INVARIANT Terminates
CHECK_DEADLOCK FALSE
"""


def _q(bs):
    return ", ".join(f'"{b}"' for b in bs)


def _cfg(**kw):
    d = {"ns": 1, "nn": 2, "nh": 3, "nw": 1, "maxwa": 1, "nu": 1, "uk": ["t"], "mem": False, "maxops": 3, "mode": "snapshot", "behs": BEHS,
         "nr": 0, "ck": ["s"], "uas": [0], "falsy": [], "spec": "Spec"}
    d.update(kw)
    d["uk"], d["behs"], d["mem"], d["ck"] = _q(d["uk"]), _q(d["behs"]), "TRUE" if d["mem"] else "FALSE", _q(d["ck"])
    d["uas"], d["falsy"] = ", ".join(map(str, d["uas"])), ", ".join(map(str, d["falsy"]))
    return MC_CFG.format(**d)


# deliberately wrong machineries the contract must refute (Signals.tla, Mode): name -> (constants, step that exposes it)
MUST_FAIL = {
    "live": ({"nh": 2, "behs": ["plain", "discSelf"]}, "emit_end"),
    "alias": ({"nn": 1, "nh": 1, "uk": ["t", "f", "c"], "behs": ["plain"]}, None),
    "prefix": ({"nn": 1, "nh": 1, "nw": 2, "maxwa": 2, "behs": ["plain"]}, "disconnect"),
    "keyref": ({"nn": 1, "nh": 1, "mem": True, "behs": ["plain"]}, "drop_sender"),
    "strongargs": ({"nn": 1, "nh": 1, "behs": ["plain"]}, "collect"),
    "cbident": ({"nn": 1, "nh": 1, "nr": 1, "ck": ["s", "n"], "behs": ["plain"]}, "disconnect"),
    "samefunc": ({"nn": 1, "nh": 1, "nr": 2, "behs": ["plain"]}, "disconnect"),
    "truthyarg": ({"nn": 1, "nh": 1, "uas": [0, 1, 2], "falsy": [1], "behs": ["plain"]}, "call"),
}


def _mc_runs(quick):
    """(name, cfg, workers): the good machinery over several slices of the operation alphabet."""
    if quick:
        return [
            # every behaviour triple, one weak argument, tuples only: the dispatch
            ("dispatch_S1_H3_ops3", _cfg(), 6),
            # descriptors: 0..2 weak arguments out of two (prefix related, permuted), connect / disconnect by any of them
            ("weakdesc_S1_N1_H2_W2_ops4", _cfg(nn=1, nh=2, nw=2, maxwa=2, maxops=4, behs=["plain", "true", "discLater"]), 3),
            # user arguments as tuple / fresh list / the caller's own list that it goes on changing
            ("userargs_S1_N1_H2_ops4", _cfg(nn=1, nh=2, uk=["t", "c"], maxops=4, behs=["plain", "true"]), 3),
            # senders dropped with keys held / forgotten, stale keys
            ("memory_S2_N1_H2_ops4", _cfg(ns=2, nn=1, nh=2, mem=True, maxops=4, behs=["plain", "discSelf", "killWeak"]), 2),
            # callbacks: a function and the methods of two receivers, each handed over as a kept object / fetched afresh
            ("callbacks_S1_N1_H1_R2_ops4", _cfg(nn=1, nh=1, nr=2, ck=["s", "n"], maxops=4, behs=["plain", "true", "discLater"]), 2),
            # the deprecated user_arg: None, two false values, a true value
            ("userarg_S1_N1_H1_UA4_ops4", _cfg(nn=1, nh=1, uas=[0, 1, 2, 3], falsy=[1, 2], maxops=4, behs=["plain", "true", "discSelf"]), 2),
        ]
    return [
        ("dispatch_S1_H3_ops4", _cfg(maxops=4), 6),
        ("dispatch_S2_H2_ops4", _cfg(ns=2, nh=2, maxops=4, behs=["plain", "discSelf", "discEarlier", "emitAgain", "killWeak"]), 6),
        ("weakdesc_S1_N1_H2_W2_ops5", _cfg(nn=1, nh=2, nw=2, maxwa=2, maxops=5, behs=["plain", "true", "discLater", "killWeak"]), 6),
        ("userargs_S1_N1_H2_tfc_ops4", _cfg(nn=1, nh=2, uk=["t", "f", "c"], maxops=4, behs=["plain", "true", "discSelf"]), 6),
        ("userargs_S1_N1_H1_U2_ops5", _cfg(nn=1, nh=1, nu=2, uk=["t", "f", "c"], maxops=5, behs=["plain", "discSelf"]), 6),
        ("memory_S2_N1_H2_ops5", _cfg(ns=2, nn=1, nh=2, mem=True, maxops=5, behs=["plain", "discSelf", "killWeak", "connectNew"]), 6),
        ("all_S1_N1_H2_W2_ops4", _cfg(nn=1, nh=2, nw=2, maxwa=2, mem=True, maxops=4, behs=BEHS), 6),
        ("callbacks_S1_N1_H2_R2_ops4", _cfg(nn=1, nh=2, nr=2, ck=["s", "n"], maxops=4, behs=["plain", "discLater"]), 6),
        ("callbacks_S1_N1_H1_R2_ops5", _cfg(nn=1, nh=1, nr=2, ck=["s", "n"], maxops=5, behs=["plain", "true", "discLater"]), 6),
        ("cbua_S1_N1_H1_R1_UA3_ops5", _cfg(nn=1, nh=1, nr=1, ck=["s", "n"], uas=[0, 1, 2], falsy=[1], maxops=5, behs=["plain", "discLater"]), 6),
        ("userarg_S1_N1_H1_R1_UA4_W1_mem_ops4", _cfg(nn=1, nh=1, nr=1, uas=[0, 1, 2, 3], falsy=[1, 2], mem=True, maxops=4,
                                                     behs=["plain", "true", "discSelf", "killWeak"]), 6),
    ]


def _handle(chk, traces, res, label):
    for ti, l, why in res.rejects:
        tr = traces[ti]
        e = tr["ev"][l - 1]
        sig = {"event": e["t"], "behaviours": sorted(set(tr["beh"]))}
        chk.reject(f"C14.{why}", sig, {"driver": label, "family": tr.get("driver"), "beh": tr["beh"], "script": tr["script"], "nweak": tr["nweak"],
                                       "kind": tr.get("kind", "plain"),
                                       "events_up_to_rejection": tr["ev"][:l]})


def _model_checks(pool, quick):
    """Exhaustive TLC runs of Signals.tla (submitted to the pool): the contract-conforming machinery over several slices of the
    alphabet, and the deliberately wrong machineries, each of which must be refuted."""
    futs = []
    for name, cfg, workers in _mc_runs(quick):
        futs.append(("mc", name, pool.submit(tlc.mc, "Signals", cfg, workers=workers, timeout=3000, heap="4g" if quick else "12g")))

    def wrong(modes):
        return [(mode, tlc.mc("Signals", _cfg(mode=mode, **MUST_FAIL[mode][0]), workers=1, timeout=600, heap="2g")) for mode in modes]
    modes = list(MUST_FAIL)
    futs.append(("fail", "", pool.submit(wrong, modes[:4])))
    futs.append(("fail", "", pool.submit(wrong, modes[4:])))
    return futs


def _emit_calls(tr):
    """Calls of each finished emit of a recorded trace (inner emits first), as descriptors."""
    got, cur = [], []
    for e in tr["ev"]:
        if e["t"] == "emit_begin":
            cur.append([])
        elif e["t"] == "call" and cur:
            aa = e["args"]
            cur[-1].append([e["h"], [a - 1000 for a in aa if 1000 < a < 2000], [a for a in aa if 0 <= a < 1000], e["r"],
                            next((a - 3000 for a in aa if 3000 < a < 4000), 0)])
        elif e["t"] == "emit_end" and cur:
            got.append(cur.pop())
    return got


def _census(traces):
    """What the recorded traces exercised (counts only; no verdicts)."""
    kinds = {}
    nontriv = set()

    def cnt(k, n=1):
        kinds[k] = kinds.get(k, 0) + n

    for t in traces:
        in_emit = 0
        edited = False
        live = {}            # (s, n) -> list of (h, ws, us, r, ua) per the events (belief, for counting only)
        clist_conns = 0      # connections made with the caller's own list so far
        for e in t["ev"]:
            ty = e["t"]
            cnt(ty)
            if ty == "emit_begin":
                in_emit += 1
            elif ty == "emit_end":
                in_emit -= 1
            elif in_emit and ty in ("connect", "disconnect", "disconnect_by_key", "collect"):
                edited = True
                cnt("edit_during_emit." + ty)
            if ty == "connect" and not e["exc"]:
                live.setdefault((e["s"], e["n"]), []).append((e["h"], tuple(e["ws"]), tuple(e["us"]), e["r"], e["ua"]))
                cnt("connect.user_args_as." + e["ut"])
                cnt(f"connect.weak_args.{len(e['ws'])}")
                cnt("connect.callback." + ("function" if not e["r"] else "method_kept" if e["cf"] == "s" else "method_fetched_afresh"))
                cnt("connect.user_arg." + ("none" if not e["ua"] else "false_value" if e["ua"] in UA_FALSY else "true_value"))
                if e["ua"]:
                    cnt("connect.user_arg." + ("after_other_arguments" if e["ws"] or e["us"] else "alone"))
                if e["via"] == "w":
                    cnt("connect.by_widget_constructor")
                    cnt("connect.by_widget_constructor.user_data." + ("none" if not e["ua"] else "false_value" if e["ua"] in UA_FALSY else "true_value"))
                if e["ut"] == "c":
                    clist_conns += 1
            elif ty == "call":
                ua = next((a - 3000 for a in e["args"] if 3000 < a < 4000), 0)
                if ua:
                    cnt("call.with_user_arg." + ("false_value" if ua in UA_FALSY else "true_value"))
                if e["r"]:
                    cnt("call.bound_method")
            elif ty == "emit_begin" and e["via"] == "w":
                cnt("emit.by_widget_action")
            elif ty == "mutate":
                if clist_conns:
                    cnt("mutate.after_connect_with_that_list")
            elif ty == "disconnect":
                cnt("disconnect.user_args_as." + e["ut"])
                lst = live.get((e["s"], e["n"]), [])
                d = (e["h"], tuple(e["ws"]), tuple(e["us"]), e["r"], e["ua"])
                if d in lst:
                    lst.remove(d)
                    cnt("disconnect.names_a_connection")
                    if e["r"]:
                        cnt("disconnect.names_a_connection.method_" + ("kept" if e["cf"] == "s" else "fetched_afresh"))
                    if e["ua"]:
                        cnt("disconnect.names_a_connection.with_user_arg")
                else:
                    cnt("disconnect.names_nothing")
                    for (h, ws, us, r, ua) in lst:
                        if (h, r, ua) == (d[0], d[3], d[4]) and us == d[2] and ws != d[1] and (ws[:len(d[1])] == d[1] or d[1][:len(ws)] == ws):
                            cnt("disconnect.names_nothing.weak_args_prefix_of_a_connection")
                            break
                    for (h, ws, us, r, ua) in lst:
                        if (h, r, ua) == (d[0], d[3], d[4]) and ws == d[1] and us != d[2]:
                            cnt("disconnect.names_nothing.other_user_args_of_a_connection")
                            break
                    if any((h, ws, us, ua) == (d[0], d[1], d[2], d[4]) and r and d[3] and r != d[3] for (h, ws, us, r, ua) in lst):
                        cnt("disconnect.names_nothing.same_method_of_another_receiver")
                    if any((h, ws, us, r) == d[:4] and ua != d[4] for (h, ws, us, r, ua) in lst):
                        cnt("disconnect.names_nothing.other_user_arg_of_a_connection")
            elif ty == "disconnect_by_key" and e.get("stale"):
                cnt("disconnect_by_key.key_of_a_dropped_sender")
            elif ty == "collect":
                for p in live:
                    live[p] = [x for x in live[p] if e["w"] not in x[1]]
            elif ty == "drop_sender":
                cnt("drop_sender.keys_kept" if e["kept"] else "drop_sender.no_key_kept")
                if e["nconn"]:
                    cnt("drop_sender.with_connections" + (".keys_kept" if e["kept"] else ".no_key_kept"))
                for p in list(live):
                    if p[0] == e["s"]:
                        live[p] = []
        if edited:
            nontriv.add(json.dumps([t["beh"], t["script"]]))
    return kinds, nontriv


NEED = ["edit_during_emit.disconnect_by_key", "edit_during_emit.collect", "edit_during_emit.connect", "edit_during_emit.disconnect",
        "connect.user_args_as.t", "connect.user_args_as.f", "connect.user_args_as.c", "connect.user_args_as.g",
        "connect.weak_args.0", "connect.weak_args.1", "connect.weak_args.2",
        "mutate.after_connect_with_that_list", "disconnect.user_args_as.t", "disconnect.user_args_as.f", "disconnect.user_args_as.c",
        "disconnect.names_a_connection", "disconnect.names_nothing", "disconnect.names_nothing.weak_args_prefix_of_a_connection",
        "disconnect.names_nothing.other_user_args_of_a_connection", "disconnect_by_key.key_of_a_dropped_sender",
        "drop_sender.with_connections.keys_kept", "drop_sender.with_connections.no_key_kept", "collect", "drop",
        "connect.callback.function", "connect.callback.method_kept", "connect.callback.method_fetched_afresh", "call.bound_method",
        "disconnect.names_a_connection.method_kept", "disconnect.names_a_connection.method_fetched_afresh",
        "disconnect.names_nothing.same_method_of_another_receiver", "disconnect.names_nothing.other_user_arg_of_a_connection",
        "connect.user_arg.none", "connect.user_arg.false_value", "connect.user_arg.true_value", "connect.user_arg.alone",
        "connect.user_arg.after_other_arguments", "call.with_user_arg.false_value", "call.with_user_arg.true_value",
        "disconnect.names_a_connection.with_user_arg", "connect.by_widget_constructor.user_data.none",
        "connect.by_widget_constructor.user_data.false_value", "connect.by_widget_constructor.user_data.true_value", "emit.by_widget_action"]


def run(chk):
    quick = chk.tier == "quick"
    rng = chk.rng
    pool = cf.ThreadPoolExecutor(12 if quick else 3)   # quick: everything at once (7 small runs); thorough: 3 runs at a time
    warnings.simplefilter("ignore", DeprecationWarning)   # connect_signal(..., user_arg) is deprecated, and part of the property
    # ---- spec -> code: TLC behaviours give scripts and behaviour assignments (generated in the background) ----------
    simcfg = _cfg(ns=2, nh=3, nw=2, maxwa=2, nu=2, uk=["t", "f", "c"], mem=True, maxops=9, behs=BEHS, nr=2, ck=["s", "n"], uas=[0, 1, 2, 3],
                  falsy=[1, 2], spec="SimSpec")
    sim_fut = pool.submit(tlc.simulate, "Signals", simcfg, num=500 if quick else 8000, depth=45, seed=chk.seed, jobs=2 if quick else 6)
    # ---- MC (in the background): Signals.tla satisfies the contract for all histories; wrong machineries are refuted ----
    mc_futs = _model_checks(pool, quick)

    traces = []
    import urwid  # noqa: F401
    gc.collect()
    gc.freeze()  # keeps the per-trace gc.collect() in World.drop cheap
    # ---- code -> spec: seeded random scripts beyond the model's bounds ---------------------------
    n_rand = 2800 if quick else 60000
    for i in range(n_rand):
        nh = rng.randint(2, 5)
        nweak = rng.randint(1, 3)
        beh = [rng.choice(BEHS) for _ in range(nh - 1)] + ["plain"]
        if "killWeak" not in beh and rng.random() < 0.5:
            beh[0] = "killWeak"
        kind = "widgets" if rng.random() < 0.2 else "plain"     # senders are real widgets (Button, CheckBox) in one history out of five
        tr = run_script(beh, nh, random_script(rng, nh, nweak, rng.randint(4, 16)), nweak=nweak, maxconn=6, kind=kind)
        tr["driver"] = "random"
        traces.append(tr)
    # ---- code -> spec: directed families (behaviour triples, duplicate connections, descriptors, caller's list, dropped senders) ----
    fam = {}
    for name, beh, nh, script, *kind in directed_scripts(quick):
        tr = run_script(beh, nh, script, nweak=2, maxconn=6, kind=kind[0] if kind else "plain")
        tr["driver"] = "directed." + name
        traces.append(tr)
        fam[name] = fam.get(name, 0) + 1
    chk.cov["directed_scripts"] = fam
    n1 = len(traces)
    tv1 = pool.submit(tlc.validate, "SignalsTrace", traces[:n1], batch_events=28000, timeout=1500, jobs=4 if quick else 6)
    # ---- spec -> code ----------------------------------------------------------------------------------
    behs = sim_fut.result()
    agree = used = 0
    for b in behs:
        upool = [0, rng.choice(UA_ZEROS), rng.choice([2, 4, 5]), rng.choice(UA_TRUTHY)]   # the model's user_arg values: None, false, false, true
        script, calls, beh = script_from_behaviour(b, upool)
        if script is None:
            continue
        used += 1
        tr = run_script(beh, 3, script, nweak=2)
        tr["driver"] = "tlc-simulate"
        traces.append(tr)
        # compare the model's call order with the code's, emit by emit (finished emits, inner first)
        got = _emit_calls(tr)
        if got[: len(calls)] == calls:
            agree += 1
        else:
            chk.divergence("spec_to_code_call_order", {"beh": tr["beh"], "script": tr["script"], "model": calls, "code": got})
    chk.cov["spec_to_code_behaviours"] = used
    chk.cov["spec_to_code_call_orders_agreeing"] = agree
    if not used:
        chk.vacuity.append("driver.spec_to_code_behaviours")
    res2 = tlc.validate("SignalsTrace", traces[n1:], batch_events=28000, timeout=1500, jobs=2 if quick else 6)
    res = tv1.result()
    chk.add_tv("TV_SignalsTrace", res)
    _handle(chk, traces[:n1], res, "c14")
    chk.add_tv("TV_SignalsTrace_spec_to_code", res2)
    _handle(chk, traces[n1:], res2, "c14")
    # ---- the model-checking results --------------------------------------------------------------------
    refuted = {}
    for kind, name, fut in mc_futs:
        if kind == "mc":
            r = fut.result()
            chk.add_mc("MC_Signals_" + name, r)
            if not r.ok:
                chk.reject("C14.model." + str(r.violated), {"model": "Signals", "inv": r.violated, "run": name}, {"tlc_trace": r.trace[-8:]})
            continue
        for name, r in fut.result():
            last = r.trace[-1].get("last", {}) if r.trace else {}
            refuted[name] = {"violated": r.violated, "at": last.get("op"), "sentence": last.get("verdict")}
            chk.cov["tlc_runs"].append({"run": f"MC_Signals_{name}_must_fail", "violated": r.violated, "at": last.get("op"),
                                        "sentence": last.get("verdict"), "generated": r.generated, "wall_s": round(r.wall_s, 1)})
            want = MUST_FAIL[name][1]
            if r.violated != "EmitContract" or (want and last.get("op") != want):
                raise tlc.MachineryError(f"Signals.tla no longer refutes the wrong machinery Mode={name!r} (got {r.violated} at {last}): "
                                         "the contract has become vacuous")
    pool.shutdown()
    chk.cov["contract_refutes_live_index_dispatch"] = refuted["live"]["violated"] == "EmitContract"
    chk.cov["contract_refutes_wrong_machineries"] = refuted
    kinds, nontriv = _census(traces)
    chk.cov["clause_counts"] = kinds
    chk.cov["distinct_nontrivial"] = len(nontriv)
    chk.cov["rule"] = ("scripts = top-level operations of TLC -simulate behaviours of Signals.tla plus seeded random scripts plus directed families; "
                       "executed on real urwid senders/handlers/weak arguments; non-trivial = distinct (behaviours, script) in which the handler "
                       "list is edited while an emit is in progress")
    for v in NEED:
        if not kinds.get(v):
            chk.vacuity.append("driver." + v)
    for name in ("triples", "connect_kill", "duplicates", "weak_descriptors", "user_arg_kinds", "sender_dropped", "callback_kinds",
                 "user_arg_values", "widget_user_data"):
        if not fam.get(name):
            chk.vacuity.append("driver.directed." + name)
    chk.sample(next((t for t in traces if any(e["t"] == "collect" for e in t["ev"])), traces[0]))
    chk.sample(next((t for t in traces if any(e["t"] == "drop_sender" and e["kept"] for e in t["ev"])), traces[0]))
    chk.sample(traces[-1])
    chk.cov["trusted_base"] = ["TLC", "vf/props/c14.py World (real senders/handlers, shadow list only used to pick targets)",
                               "CPython reference counting (weak arguments and senders die when the last reference is dropped)"]
    chk.assumptions += ["handlers that raise are outside the property",
                        "the cycle collector runs only where the harness calls it: an object is 'dead by reference counting' when it is gone "
                        "right after the last application reference was dropped, 'dead after gc' after one gc.collect()",
                        "user arguments are integers (their identity plays no role); a sender or weak argument passed as USER argument "
                        "is the application's own reference, not the machinery's",
                        "callbacks are plain functions and bound methods (of two objects of one class); a callback is what Python's == says "
                        "it is; other callables (functools.partial, objects with __call__ and their own __eq__) are not explored",
                        "user_arg values of one history are pairwise unequal under == (0, False and 0.0 are never mixed in one history: "
                        "whether they name each other's connections is left open)",
                        "a widget's own emit (Button enter, CheckBox toggle) hides the return value of emit_signal(): returns_any_true is "
                        "not demanded there; widgets are reference cycles of their own, so a dropped widget sender must be gone after "
                        "gc.collect() only (measured on a never-connected widget of the same kind)"]


def replay(chk, path):
    with open(path) as f:
        rp = json.load(f)["replay"]
    warnings.simplefilter("ignore", DeprecationWarning)
    tr = run_script(rp["beh"], len(rp["beh"]), [tuple(o) for o in rp["script"]], nweak=rp.get("nweak", 1), maxconn=6, kind=rp.get("kind", "plain"))
    res = tlc.validate("SignalsTrace", [tr])
    chk.add_tv("replay", res)
    _handle(chk, [tr], res, "replay")
    chk.sample(tr)
    return chk.finish()
