"""X02 — terminal widget: keys to bytes, modes and lifecycle (urwid/vterm.py class Terminal).

State machine: spec/TermKeys.tla (+TermKeysOps); trace spec: spec/TermKeysTrace.tla.
The real widget is driven on a pty pair owned by the harness (the harness plays the child: what keypress()
writes is read from the slave side, what the child "prints" is written to the slave side or fed to the
TermCanvas), and, for a few histories, with a real forked child (Terminal.spawn with a callable) that logs
the bytes it receives.  No verdict is computed here: every event goes to TLC.
"""
from __future__ import annotations

import concurrent.futures as cf
import fcntl
import json
import os
import re
import select
import struct
import sys
import termios
import time
import tty

from .. import tlc
from ..tlc import MachineryError

SENT = b"\x1e\x1f\x1e\x1f"       # sentinel the harness writes to the master after every call (ordering of the pty is FIFO)
SIZE = (20, 5)
IO_TIMEOUT = 8.0

# ------------------------------------------------------------------------------------------------
# child output tokens (the spec's TokBytes is the authority: TLC compares these bytes with it)
# ------------------------------------------------------------------------------------------------


def tok(t, q=0, on=0, ps=()):
    return {"t": t, "q": q, "on": on, "ps": list(ps)}


def tok_bytes(k):
    t = k["t"]
    ps = ";".join(str(p) for p in k["ps"]).encode()
    if t == "sm":
        return b"\x1b[" + (b"?" if k["q"] else b"") + ps + (b"h" if k["on"] else b"l")
    if t == "dsr":
        return b"\x1b[" + ps + b"n"
    if t == "da":
        return b"\x1b[" + ps + b"c"
    return {"decid": b"\x1bZ", "ris": b"\x1bc", "kpam": b"\x1b=", "kpnm": b"\x1b>"}.get(t) or bytes(k["ps"])


def set_modes_toks(ckm, lnm, bp):
    out = []
    if ckm:
        out.append(tok("sm", 1, 1, [1]))
    if lnm:
        out.append(tok("sm", 0, 1, [20]))
    if bp:
        out.append(tok("sm", 1, 1, [2004]))
    return out


class FakeLoop:
    def __init__(self):
        self.watch = 0
        self.unwatch = 0

    def watch_file(self, fd, cb):
        self.watch += 1
        return fd

    def remove_watch_file(self, h):
        self.unwatch += 1
        return True


class Stdin:
    """The application's stdin for Terminal.change_focus (RealTerminal().tty_signal_keys uses sys.stdin): a pty slave
    of its own, or /dev/null for the 'stdin is not a tty' probe."""

    def __init__(self, is_tty=True):
        self.is_tty = is_tty
        self.old = sys.stdin
        if is_tty:
            self.m, self.s = os.openpty()
            self.f = os.fdopen(self.s, "r", closefd=False)
            self.base = self.cc()
        else:
            self.m = self.s = None
            self.f = open(os.devnull)
        sys.stdin = self.f

    def cc(self):
        a = termios.tcgetattr(self.s)[6]
        return [a[i] for i in (termios.VINTR, termios.VQUIT, termios.VSTART, termios.VSTOP, termios.VSUSP)]

    def sig(self):
        if not self.is_tty:
            return 0
        c = self.cc()
        if c == self.base:
            return 0
        if all(x in (0, b"\x00") for x in c):
            return 1
        return 2

    def reset(self):
        if self.is_tty:
            a = termios.tcgetattr(self.s)
            for i, v in zip((termios.VINTR, termios.VQUIT, termios.VSTART, termios.VSTOP, termios.VSUSP), self.base):
                a[6][i] = v
            termios.tcsetattr(self.s, termios.TCSANOW, a)

    def close(self):
        sys.stdin = self.old
        self.f.close()
        if self.is_tty:
            os.close(self.m)
            os.close(self.s)


# ------------------------------------------------------------------------------------------------
# driver A: the harness owns the pty pair and plays the child
# ------------------------------------------------------------------------------------------------
class Rig:
    def __init__(self, stdin, esc=None, enc="utf8", kind="modes", dec="utf8"):
        import urwid
        from urwid import vterm

        self.stdin = stdin
        stdin.reset()
        self.m, self.s = os.openpty()
        tty.setraw(self.s)
        os.set_blocking(self.s, False)
        self.loop = FakeLoop()
        pyenc = {"utf8": "utf-8", "latin1": "iso8859-1", "ascii": "ascii"}[enc]
        self.t = vterm.Terminal(None, main_loop=self.loop, escape_sequence=esc, encoding=pyenc)
        self.t.master = self.m
        self.t.pid = 0                      # "already spawned"; terminate() then neither signals nor closes
        self.closed = 0
        urwid.connect_signal(self.t, "closed", self._on_closed)
        self.slave_open = True
        self.size = SIZE
        self.trace = {"kind": kind, "enc": enc, "dec": dec, "esc": self.t.escape_sequence, "tty": 1 if stdin.is_tty else 0,
                      "driver": "pty", "ev": []}
        self.ev = self.trace["ev"]
        self.t.touch_term(*SIZE)            # what the first render() does after spawn()
        self._drain()

    def _on_closed(self, *a):
        self.closed += 1

    # -- io ------------------------------------------------------------------------------------
    def _drain(self):
        """Everything the widget wrote to the master since the last call (read on the slave side, up to a sentinel)."""
        if not self.slave_open:
            out = b""
            while select.select([self.dead_r], [], [], 0)[0]:
                out += os.read(self.dead_r, 65536)
            return out
        os.write(self.m, SENT)
        buf = b""
        end = time.time() + IO_TIMEOUT
        while not buf.endswith(SENT):
            r, _, _ = select.select([self.s], [], [], max(0.0, end - time.time()))
            if not r:
                raise MachineryError(f"x02: sentinel did not arrive on the pty slave (got {buf!r})")
            buf += os.read(self.s, 65536)
        return buf[: -len(SENT)]

    def _await_master(self, n):
        """Wait until n bytes (or hangup) are readable on the master, so that one feed() reads the whole chunk."""
        end = time.time() + IO_TIMEOUT
        while True:
            r, _, _ = select.select([self.m], [], [], max(0.0, end - time.time()))
            if not r:
                raise MachineryError("x02: child output did not arrive on the pty master")
            if n <= 0:
                return
            avail = struct.unpack("i", fcntl.ioctl(self.m, termios.FIONREAD, b"\0\0\0\0"))[0]
            if avail >= n:
                return
            if time.time() > end:
                raise MachineryError("x02: child output arrived only partially on the pty master")
            time.sleep(0.001)

    def modes(self):
        tm = self.t.term_modes
        return {"ckm": int(bool(tm.keys_decckm)), "lnm": int(bool(tm.lfnl)), "bp": int(bool(tm.bracketed_paste))}

    def winsize(self):
        if not self.slave_open:
            return [0, 0]
        r, c, _, _ = struct.unpack("HHHH", fcntl.ioctl(self.s, termios.TIOCGWINSZ, b"\0" * 8))
        return [r, c]

    # -- public operations of the widget, one event each ------------------------------------------------
    def key(self, k, size=None):
        if k == "window resize" and size is not None:
            self.size = tuple(size)
        exc, ret = "", None
        try:
            ret = self.t.keypress(self.size, k)
        except Exception as ex:  # noqa: BLE001
            exc = type(ex).__name__
        e = {"t": "key", "key": k, "cps": [ord(c) for c in k], "exc": exc, "handled": 1 if ret is None else 0,
             "ret": ret if isinstance(ret, str) else "", "wrote": list(self._drain()), "grab": int(bool(self.t.keygrab)),
             "size": list(self.size), "ws": self.winsize()}
        e.update(self.modes())
        self.ev.append(e)
        return e

    def _pend(self):
        return [list(s.encode("latin-1")) for s in self.t.response_buffer]

    def feed_direct(self, toks):
        """Child output handed to the TermCanvas (what feed() does after reading it); replies stay queued."""
        data = b"".join(tok_bytes(k) for k in toks)
        self.t.term.addstr(data)
        e = {"t": "feed", "toks": toks, "bytes": list(data), "nobytes": 0, "pend": self._pend(), "cur": list(self.t.term.term_cursor)}
        e.update(self.modes())
        self.ev.append(e)
        if self._drain():
            raise MachineryError("x02: addstr wrote to the master")
        return e

    def flush(self):
        self.t.flush_responses()
        e = {"t": "flush", "wrote": list(self._drain())}
        self.ev.append(e)
        return e

    def feed_pty(self, toks):
        """Child output through the pty: the child writes, Terminal.feed() reads, parses and flushes the replies.
        Recorded as a feed event (state observed just before the flush) and a flush event."""
        data = b"".join(tok_bytes(k) for k in toks)
        os.write(self.s, data)
        self._await_master(len(data))
        snap = {}
        real = self.t.flush_responses

        def hooked():
            snap["pend"] = self._pend()
            snap["cur"] = list(self.t.term.term_cursor)
            snap.update(self.modes())
            return real()

        self.t.flush_responses = hooked
        try:
            self.t.feed()
        finally:
            del self.t.flush_responses
        if "pend" not in snap:
            raise MachineryError("x02: feed() did not flush")
        e = {"t": "feed", "toks": toks, "bytes": list(data), "nobytes": 0}
        e.update(snap)
        self.ev.append(e)
        self.ev.append({"t": "flush", "wrote": list(self._drain())})
        return e

    def exit(self):
        """The child goes away: the slave side is closed, the next feed() sees EOF."""
        self._drain()
        os.close(self.s)
        self.slave_open = False
        self._await_master(0)
        c0, u0 = self.closed, self.loop.unwatch
        self.t.feed()
        # whatever the widget still writes "to the child" from now on lands in a pipe the harness reads
        self.dead_r, self.dead_w = os.pipe()
        if self.t.master == self.m:
            self.t.master = self.dead_w
        e = {"t": "exit", "closed": self.closed - c0, "unwatch": self.loop.unwatch - u0, "alive": 0 if self.t.terminated else 1,
             "sig": self.stdin.sig()}
        self.ev.append(e)
        return e

    def render(self, focus):
        exc = ""
        try:
            self.t.render(self.size, focus=bool(focus))
        except Exception as ex:  # noqa: BLE001
            exc = type(ex).__name__
        e = {"t": "render", "focus": int(focus), "exc": exc, "sig": self.stdin.sig(), "watch": self.loop.watch,
             "alive": 0 if self.t.terminated else 1}
        self.ev.append(e)
        self._drain()
        return e

    def close(self):
        import urwid

        urwid.disconnect_signal(self.t, "closed", self._on_closed)
        self.t.terminated = True            # nothing left for the atexit hook of a real spawn (none here)
        for fd in ([self.s] if self.slave_open else [self.dead_r, self.dead_w]) + [self.m]:
            try:
                os.close(fd)
            except OSError:
                pass
        self.stdin.reset()
        return self.trace


# ------------------------------------------------------------------------------------------------
# driver B: a real child forked by Terminal.spawn() (callable command); it logs what it receives
# ------------------------------------------------------------------------------------------------
CHILD_CMDS = {b"1": tok("sm", 1, 1, [1]), b"2": tok("sm", 1, 0, [1]), b"3": tok("sm", 0, 1, [20]), b"4": tok("sm", 0, 0, [20]),
              b"5": tok("sm", 1, 1, [2004]), b"6": tok("dsr", 0, 0, [6]), b"7": tok("da"), b"8": tok("sm", 1, 0, [2004]),
              b"9": tok("dsr", 0, 0, [5])}


def _child_main(logw, ctlr):
    """Runs in the forked child (stdin/stdout = the pty slave).  Raw mode; every byte received is logged as 'D'+byte;
    '!' followed by a command byte makes the child print the command's escape sequence ('!0': exit); a byte on the
    control pipe asks for a sync: the child drains its input until quiet and answers 'S'."""
    tty.setraw(0)
    os.write(1, b"R")
    bang = False
    while True:
        r, _, _ = select.select([0, ctlr], [], [])
        if 0 in r:
            b = os.read(0, 1)
            if not b:
                os._exit(0)
            os.write(logw, b"D" + b)
            if bang:
                bang = False
                if b == b"0":
                    os.write(logw, b"X")
                    os._exit(0)
                if b in CHILD_CMDS:
                    os.write(1, tok_bytes(CHILD_CMDS[b]))
            elif b == b"!":
                bang = True
            continue
        if ctlr in r:
            os.read(ctlr, 1)
            while True:
                rr, _, _ = select.select([0], [], [], 0.06)
                if not rr:
                    break
                b = os.read(0, 1)
                if not b:
                    os._exit(0)
                os.write(logw, b"D" + b)
                if bang:
                    bang = False
                    if b == b"0":
                        os.write(logw, b"X")
                        os._exit(0)
                    if b in CHILD_CMDS:
                        os.write(1, tok_bytes(CHILD_CMDS[b]))
                elif b == b"!":
                    bang = True
            os.write(logw, b"S")


class ChildRig:
    def __init__(self, stdin):
        import urwid
        from urwid import vterm

        self.stdin = stdin
        stdin.reset()
        self.logr, logw = os.pipe()
        ctlr, self.ctlw = os.pipe()
        self.loop = FakeLoop()
        self.t = vterm.Terminal(lambda: _child_main(logw, ctlr), main_loop=self.loop, encoding="utf-8")
        self.closed = 0
        urwid.connect_signal(self.t, "closed", self._on_closed)
        self.size = SIZE
        self.trace = {"kind": "modes", "enc": "utf8", "dec": "utf8", "esc": self.t.escape_sequence, "tty": 1 if stdin.is_tty else 0,
                      "driver": "child", "ev": []}
        self.ev = self.trace["ev"]
        self.fed = b""
        self.responses = []
        exc = ""
        try:
            self.t.render(self.size, focus=False)     # spawns
        except Exception as ex:  # noqa: BLE001
            exc = type(ex).__name__
        os.close(logw)
        os.close(ctlr)
        self.ev.append({"t": "render", "focus": 0, "exc": exc, "sig": stdin.sig(), "watch": self.loop.watch,
                        "alive": 0 if self.t.terminated else 1})
        if exc or not self.t.pid or self.t.pid <= 0:
            raise MachineryError(f"x02: Terminal.spawn failed ({exc})")
        real_addstr = self.t.term.addstr
        real_respond = self.t.respond

        def addstr(data):
            self.fed += bytes(data)
            return real_addstr(data)

        def respond(s):
            self.responses.append(s)
            return real_respond(s)

        self.t.term.addstr = addstr
        self.t.respond = respond
        self.exited = False
        # the child's ready marker
        self._sync()
        self._pump([tok("text", ps=[ord("R")])])

    def _on_closed(self, *a):
        self.closed += 1

    def _sync(self):
        """Bytes the child has received since the last sync."""
        os.write(self.ctlw, b"s")
        out = b""
        end = time.time() + IO_TIMEOUT
        while True:
            r, _, _ = select.select([self.logr], [], [], max(0.0, end - time.time()))
            if not r:
                raise MachineryError("x02: real child did not answer the sync request")
            tag = os.read(self.logr, 1)
            if tag == b"S":
                return out
            if tag == b"D":
                out += os.read(self.logr, 1)
            elif tag == b"X":
                self.exited = True
                return out
            elif tag == b"":
                self.exited = True
                return out

    def _pump(self, toks):
        """Let the widget process what the child printed (feed() as the event loop would call it) -> feed + flush events."""
        self.fed = b""
        self.responses = []
        want = b"".join(tok_bytes(k) for k in toks)
        end = time.time() + IO_TIMEOUT
        while len(self.fed) < len(want):
            r, _, _ = select.select([self.t.master], [], [], max(0.0, end - time.time()))
            if not r:
                raise MachineryError(f"x02: real child's output did not arrive (want {want!r}, got {self.fed!r})")
            self.t.feed()
            if self.t.terminated:
                break
        e = {"t": "feed", "toks": toks, "bytes": list(self.fed), "nobytes": 0,
             "pend": [list(s.encode("latin-1")) for s in self.responses], "cur": list(self.t.term.term_cursor)}
        tm = self.t.term_modes
        e.update({"ckm": int(bool(tm.keys_decckm)), "lnm": int(bool(tm.lfnl)), "bp": int(bool(tm.bracketed_paste))})
        self.ev.append(e)
        got = self._sync() if self.responses else b""
        self.ev.append({"t": "flush", "wrote": list(got)})

    def ensure_grab(self):
        """Steer the widget into the grabbed state (so that the next keys reach the child) with ordinary key presses."""
        if not self.t.keygrab:
            if self.t.last_key == self.t.escape_sequence:
                self.key("a")       # the key right after a release is handed down
            self.key("x")           # typing takes the keyboard

    def key(self, k):
        exc, ret = "", None
        try:
            ret = self.t.keypress(self.size, k)
        except Exception as ex:  # noqa: BLE001
            exc = type(ex).__name__
        got = self._sync() if not self.t.terminated else b""
        tm = self.t.term_modes
        e = {"t": "key", "key": k, "cps": [ord(c) for c in k], "exc": exc, "handled": 1 if ret is None else 0,
             "ret": ret if isinstance(ret, str) else "", "wrote": list(got), "grab": int(bool(self.t.keygrab)),
             "size": list(self.size), "ws": [self.size[1], self.size[0]],
             "ckm": int(bool(tm.keys_decckm)), "lnm": int(bool(tm.lfnl)), "bp": int(bool(tm.bracketed_paste))}
        self.ev.append(e)
        return e

    def command(self, c):
        """Type '!' + c: the child answers by printing the escape sequence of CHILD_CMDS[c]."""
        self.ensure_grab()
        self.key("!")
        self.key(c.decode())
        self._pump([CHILD_CMDS[c]])

    def render(self, focus):
        exc = ""
        try:
            self.t.render(self.size, focus=bool(focus))
        except Exception as ex:  # noqa: BLE001
            exc = type(ex).__name__
        self.ev.append({"t": "render", "focus": int(focus), "exc": exc, "sig": self.stdin.sig(), "watch": self.loop.watch,
                        "alive": 0 if self.t.terminated else 1})

    def exit(self):
        """'!0': the child exits; the widget notices EOF on the master."""
        self.ensure_grab()
        self.key("!")
        self.t.keypress(self.size, "0")
        c0, u0 = self.closed, self.loop.unwatch
        end = time.time() + IO_TIMEOUT
        while not self.t.terminated:
            r, _, _ = select.select([self.t.master], [], [], max(0.0, end - time.time()))
            if not r:
                raise MachineryError("x02: EOF of the real child did not arrive")
            self.t.feed()
        # the '0' key press is recorded with what the child logged before it exited
        got = b""
        while True:
            r, _, _ = select.select([self.logr], [], [], 1.0)
            if not r:
                break
            tag = os.read(self.logr, 1)
            if tag == b"D":
                got += os.read(self.logr, 1)
            elif tag in (b"X", b""):
                break
        self.ev.append({"t": "key", "key": "0", "cps": [48], "exc": "", "handled": 1, "ret": "", "wrote": list(got), "grab": 1,
                        "size": list(self.size), "ws": [self.size[1], self.size[0]], "ckm": self.ev[-1]["ckm"],
                        "lnm": self.ev[-1]["lnm"], "bp": self.ev[-1]["bp"]})
        self.ev.append({"t": "exit", "closed": self.closed - c0, "unwatch": self.loop.unwatch - u0,
                        "alive": 0 if self.t.terminated else 1, "sig": self.stdin.sig()})

    def close(self):
        import atexit
        import urwid

        if not self.t.terminated:
            try:
                self.t.terminate()
            except Exception:  # noqa: BLE001
                pass
        atexit.unregister(self.t.terminate)
        urwid.disconnect_signal(self.t, "closed", self._on_closed)
        for fd in (self.logr, self.ctlw):
            try:
                os.close(fd)
            except OSError:
                pass
        self.stdin.reset()
        return self.trace


# ------------------------------------------------------------------------------------------------
# key alphabets
# ------------------------------------------------------------------------------------------------
CHARS_ASCII = [chr(c) for c in range(32, 127)]
CHARS_WIDE = ["\xe9", "\xff", "\xa0", "Ж", "€", "中", "Ａ", "\U0001f600", "߿", "ࠀ", "￿", "\U00010000"]
SIMPLE = ["enter", "tab", "backspace", "esc"]
CURSOR = ["up", "down", "right", "left"]
EDIT = ["home", "insert", "delete", "end", "page up", "page down"]
FN = [f"f{i}" for i in range(1, 13)]
F1320 = [f"f{i}" for i in range(13, 21)]
CTRL = ["ctrl " + chr(96 + c) for c in range(1, 27)] + ["ctrl " + chr(64 + c) for c in (0, 27, 28, 29, 30, 31)]
PASTE = ["begin paste", "end paste"]
PREFIXES = ["shift ", "meta ", "ctrl ", "shift meta ", "shift ctrl ", "meta ctrl ", "shift meta ctrl "]
WELL = CHARS_ASCII + CHARS_WIDE + SIMPLE + CURSOR + EDIT + FN + [k for k in CTRL if k != "ctrl a"] + PASTE


def modified_keys():
    out = ["shift tab"] + F1320
    for p in PREFIXES:
        for b in CURSOR + EDIT + FN:
            out.append(p + b)
    for b in SIMPLE + ["ctrl b", "ctrl x"]:
        out.append("meta " + b)
    for c in ["a", "x", "Z", "1", " ", "~", "\xe9", "中"]:
        out.append("meta " + c)
    return out


def decoder_key_names():
    """Every key name urwid's input decoder can hand to an application (from urwid's own tables); the trace spec checks
    that this covers the frozen table of the specification (event 'domain')."""
    from urwid.display import escape

    named = {name for _seq, name in escape.input_sequences}
    named -= {"focus in", "focus out", "status ok", "mouse", "sgrmouse", "begin paste", "end paste"}   # reports, not key presses
    metanames = {n for n in named if "meta" in n}
    ctrl = set()
    for c in list(range(1, 32)) + [127]:
        n = {8: "backspace", 9: "tab", 10: "enter", 13: "enter", 127: "backspace", 27: ""}.get(c)
        if n is None:
            n = "ctrl " + (chr(96 + c) if c < 27 else chr(64 + c))
        if n:
            ctrl.add(n)
    names = set(named) | ctrl | {"esc"}
    names |= {"meta " + k for k in (named - metanames) | ctrl | set(CHARS_ASCII)}
    return sorted(names)


# ------------------------------------------------------------------------------------------------
# history generators
# ------------------------------------------------------------------------------------------------
def hist_mode_table(stdin, ckm, lnm, bp, enc, keys, via_pty):
    r = Rig(stdin, enc=enc)
    try:
        toks = set_modes_toks(ckm, lnm, bp)
        if toks:
            (r.feed_pty if via_pty else r.feed_direct)(toks)
        r.key("x")
        for k in keys:
            r.key(k)
    finally:
        tr = r.close()
    return tr


def hist_roundtrip(stdin, key, enc="utf8", dec="utf8"):
    r = Rig(stdin, enc=enc, kind="roundtrip", dec=dec)
    try:
        r.key("x")
        r.key(key)
    finally:
        tr = r.close()
    return tr


def hist_protocol(stdin, seq, bp, esc, exit_at):
    r = Rig(stdin, esc=esc)
    try:
        if bp:
            r.feed_direct([tok("sm", 1, 1, [2004])])
        for i, k in enumerate(seq):
            if i == exit_at:
                r.exit()
            r.key(k)
    finally:
        tr = r.close()
    return tr


def random_chunk(rng, ris_ok=True):
    toks = []
    for _ in range(rng.randint(1, 3)):
        x = rng.random()
        if x < 0.45:
            q = rng.random() < 0.6
            ps = [rng.choice([1, 20, 2004, 1, 20, 4, 7, 25, 2, 12, 1000])] if rng.random() < 0.7 else \
                [rng.choice([1, 20, 2004, 7, 25, 3]) for _ in range(rng.randint(2, 3))]
            if not q:
                ps = [p for p in ps if p != 3] or [20]      # ECMA-48 mode 3 (display controls) changes how text is shown: C15
            else:
                ps = [p for p in ps if p not in (3, 6)] or [1]
            toks.append(tok("sm", 1 if q else 0, rng.randint(0, 1), ps))
        elif x < 0.55:
            toks.append(tok(rng.choice(["kpam", "kpnm"])))
        elif x < 0.62 and ris_ok:
            toks.append(tok("ris"))
        elif x < 0.75 and not any(k["t"] in ("dsr", "da", "decid") for k in toks):
            toks.append(tok("text", ps=[rng.randint(33, 126) for _ in range(rng.randint(1, 6))]))
        elif x < 0.88:
            toks.append(tok("dsr", ps=[rng.choice([5, 6, 6])]))
        else:
            toks.append(tok(rng.choice(["da", "decid"]), ps=[]) if rng.random() < 0.7 else tok("da", ps=[0]))
    # a reply's cursor position is taken when the chunk is complete: no text after a question
    seen_q = False
    out = []
    for k in toks:
        if k["t"] in ("dsr", "da", "decid"):
            seen_q = True
        if seen_q and k["t"] in ("text", "ris"):
            continue
        out.append(k)
    return out


def hist_random(stdin, rng, n, esc):
    focusing = rng.random() < 0.3
    enc = rng.choice(["utf8", "utf8", "latin1", "ascii"])
    r = Rig(stdin, esc=esc, enc=enc)
    keys = [k for k in WELL if k != r.t.escape_sequence]
    try:
        dead = False
        for _ in range(n):
            x = rng.random()
            if dead:
                if x < 0.8:
                    r.key(rng.choice(keys + [r.t.escape_sequence]))
                else:
                    r.render(rng.randint(0, 1))
                continue
            if x < 0.5:
                y = rng.random()
                if y < 0.2:
                    r.key(r.t.escape_sequence)
                elif y < 0.3:
                    r.key("window resize", (rng.randint(2, 40), rng.randint(1, 12)))
                elif y < 0.5:
                    r.key(rng.choice(SIMPLE + CURSOR + EDIT + PASTE + [" "]))
                else:
                    r.key(rng.choice(keys))
            elif x < 0.72:
                # a full reset while bracketed paste is on has its own directed histories (hist_ris)
                ch = random_chunk(rng, ris_ok=not r.modes()["bp"])
                if any(k["t"] == "ris" for k in ch):
                    ch = [k for k in ch if not (k["t"] == "sm" and k["q"] == 1 and 2004 in k["ps"])]
                if ch:
                    if rng.random() < 0.5:
                        r.feed_pty(ch)
                    else:
                        r.feed_direct(ch)
            elif x < 0.84:
                if r.t.response_buffer or rng.random() < 0.2:
                    r.flush()
            elif x < 0.97 and not focusing:
                r.render(0)
            elif x < 0.97:
                # render(focus=False) after a focused one only when it restores correctly is not assumed: the focus protocol
                # has its own directed histories; here focus is only ever switched on (see hist_focus)
                r.render(1)
            else:
                r.exit()
                dead = True
    finally:
        tr = r.close()
    return tr


def hist_focus(stdin, script):
    r = Rig(stdin)
    try:
        for op in script:
            if op == "x":
                r.exit()
            elif op in (0, 1):
                r.render(op)
            else:
                r.key(op)
    finally:
        tr = r.close()
    return tr


def hist_ris(stdin, ckm, lnm, bp, via_pty):
    r = Rig(stdin)
    try:
        toks = set_modes_toks(ckm, lnm, bp)
        if toks:
            r.feed_direct(toks)
        r.key("x")
        (r.feed_pty if via_pty else r.feed_direct)([tok("ris")])
        for k in ("up", "enter", "begin paste", "f1"):
            r.key(k)
    finally:
        tr = r.close()
    return tr


def hist_child(stdin, rng, n, focus):
    c = ChildRig(stdin)
    try:
        if focus:
            c.render(1)
        keys = ["a", "enter", "up", "f1", "f6", "home", "tab", "ctrl b", "\xe9", "backspace", "esc", "down", "Z"]
        c.key("x")
        for _ in range(n):
            x = rng.random()
            if x < 0.45:
                c.command(rng.choice(list(CHILD_CMDS)))
            elif x < 0.55:
                c.key("ctrl a")
            else:
                c.key(rng.choice(keys))
        c.exit()
        c.key("a")
        c.render(0)
    finally:
        tr = c.close()
    return tr


# ------------------------------------------------------------------------------------------------
# spec -> code: behaviours chosen by TLC replayed on the real widget
# ------------------------------------------------------------------------------------------------
MODEL_KEYS = ["a", " ", "enter", "up", "f1", "f6", "home", "tab", "page up", "ctrl a", "ctrl b", "begin paste", "window resize",
              "meta enter", "shift up"]
INVS = ["TypeOK", "NoWriteToDead", "DeadReturnsKey", "ReleasedHandsDown", "ReleasedNavigation", "ExactlyOne", "EscOnlyTwice",
        "WrittenMeansGrabbed", "EnterByLnm", "ArrowByCkm", "ModeTable", "ModesOnlyByChild", "RepliesFifo", "RoundTripNormal",
        "RoundTripAnyMode"]


def mc_cfg(keys, variant="ok", maxpend=2, spec="Spec", props=()):
    ks = ", ".join(json.dumps(k) for k in keys)
    return ("CONSTANTS\n  Keys = {" + ks + "}\n  Esc = \"ctrl a\"\n  MaxPend = " + str(maxpend) + "\n  Variant = \"" + variant + "\"\n"
            + f"SPECIFICATION {spec}\n" + "".join(f"INVARIANT {i}\n" for i in INVS) + "".join(f"PROPERTY {p}\n" for p in props)
            + "CHECK_DEADLOCK FALSE\n")


def mc_liveness_refuted(keys, variant, timeout):
    """A liveness counterexample is long: tlc.mc keeps only the tail of TLC's output, so the marker is looked for here."""
    import shutil
    import tempfile

    tmp = tempfile.mkdtemp(prefix="vf-x02-")
    try:
        cfg = os.path.join(tmp, "model.cfg")
        with open(cfg, "w") as f:
            f.write(mc_cfg(keys, variant, 1, props=("RepliesDelivered",)))
        rc, out, wall, cmd = tlc._java(["-workers", "1", "-metadir", os.path.join(tmp, "m"), "-noGenerateSpecTE", "-config", cfg,
                                        "TermKeys.tla"], timeout=timeout)
        return bool(re.search(r"Temporal propert(y|ies) .*violated", out)), wall
    finally:
        shutil.rmtree(tmp, ignore_errors=True)


def replay_behaviour(stdin, beh):
    """Step the real widget through one behaviour of TermKeys; returns (trace, agreeing steps, first difference or None)."""
    r = Rig(stdin)
    agree, diff = 0, None
    try:
        for st in beh[1:]:
            la = st["last"]
            op = la["op"]
            if op == "press":
                e = r.key(la["key"])
                got = {"wrote": e["wrote"], "ret": e["ret"]}
                want = {"wrote": list(la["wrote"]), "ret": la["ret"]}
                if la["nalt"] != 1:
                    got["wrote"] = want["wrote"] = bool(la["wrote"]) == bool(e["wrote"])
            elif op == "feed":
                t = la["tok"]
                e = r.feed_direct([tok(t["t"], t["q"], t["on"], list(t["ps"]))])
                got = {"bytes": e["bytes"]}
                want = {"bytes": list(la["wrote"])}
            elif op == "flush":
                e = r.flush()
                got = {"wrote": e["wrote"]}
                want = {"wrote": list(la["wrote"])}
            elif op == "exit":
                e = r.exit()
                got, want = {}, {}
            else:
                raise MachineryError(f"x02: unknown model action {op}")
            md = r.modes()
            got.update(ckm=md["ckm"], lnm=md["lnm"], bp=md["bp"], grab=int(bool(r.t.keygrab)), alive=0 if r.t.terminated else 1,
                       npend=len(r.t.response_buffer) if not r.t.terminated else 0)
            m = st["m"]
            want.update(ckm=int(m["ckm"]), lnm=int(m["lnm"]), bp=int(m["bp"]), grab=int(st["grab"]), alive=int(st["alive"]),
                        npend=len(st["pend"]))
            if got == want:
                agree += 1
            else:
                diff = {"action": op, "key": la["key"], "tok": la["tok"]["t"], "spec": want, "code": got}
                break
    finally:
        tr = r.close()
    tr["driver"] = "tlc-simulate"
    return tr, agree, diff


# ------------------------------------------------------------------------------------------------
def _detail(tr, l):
    e = tr["ev"][l - 1]
    d = {"driver": tr.get("driver"), "kind": tr["kind"], "enc": tr["enc"], "esc": tr["esc"], "event": {k: v for k, v in e.items() if k != "cps"},
         "history": [(x.get("key") or x["t"]) for x in tr["ev"][:l]][-8:]}
    return d


def _handle(chk, traces, res):
    for ti, l, why in res.rejects:
        if why.startswith("HARNESS_"):
            raise MachineryError(f"x02 harness error {why}: {json.dumps(_detail(traces[ti], l))[:600]}")
        chk.divergence(why, _detail(traces[ti], l))


def run(chk):
    import urwid

    quick = chk.tier == "quick"
    rng = chk.rng
    urwid.set_encoding("utf8")
    t_start = time.time()

    # ---- real child first (fork before any thread exists) ------------------------------------------------
    stdin = Stdin(True)
    traces = []
    n_child = 2 if quick else 25
    try:
        for i in range(n_child):
            traces.append(hist_child(stdin, rng, 10 if quick else 25, focus=i % 2))
    finally:
        pass
    chk.cov["real_child_histories"] = n_child

    # ---- MC: the state machine, its wrong variants, liveness (threads; TLC runs overlap with the driving below) ----
    pool = cf.ThreadPoolExecutor(4)
    live_keys = ["a", "enter", "up", "tab", "ctrl a", "page up"]
    variants = ["write_dead", "esc_leaks", "release_ignored", "lnm_ignored", "ckm_ignored", "replies_lifo"]
    main_keys = [k for k in MODEL_KEYS if k not in (" ", "home")] if quick else MODEL_KEYS
    f_main = pool.submit(tlc.mc, "TermKeys", mc_cfg(main_keys), workers=2, timeout=900)
    f_live = pool.submit(tlc.mc, "TermKeys", mc_cfg(live_keys if quick else MODEL_KEYS, "ok", 1 if quick else 2,
                                                    props=("RepliesDelivered", "KeyboardComesBack")), workers=1, timeout=900)
    f_var = {v: pool.submit(tlc.mc, "TermKeys", mc_cfg(MODEL_KEYS, v), workers=1, timeout=600) for v in variants}
    f_nf = pool.submit(mc_liveness_refuted, live_keys, "never_flush", 600)
    # behaviours to replay: the model alphabet without the keys whose encoding is a known divergence (they would end every replay early)
    sim_keys = [k for k in MODEL_KEYS if k not in ("meta enter", "shift up")]
    f_sim = pool.submit(tlc.simulate, "TermKeys", mc_cfg(sim_keys, spec="SimSpec"), num=120 if quick else 1500, depth=25,
                        seed=chk.seed, jobs=1 if quick else 3, timeout=900)

    try:
        # ---- code -> spec: the mode table, every mode combination -------------------------------------------
        groups = [CHARS_ASCII + CHARS_WIDE, SIMPLE + CURSOR + EDIT + FN + PASTE, [k for k in CTRL if k != "ctrl a"]]
        n_table = 0
        for ckm in (0, 1):
            for lnm in (0, 1):
                for bp in (0, 1):
                    for gi, g in enumerate(groups):
                        for enc in (("utf8", "latin1", "ascii") if gi == 0 and (quick is False or (ckm, lnm, bp) in ((0, 0, 0), (1, 1, 1))) else ("utf8",)):
                            traces.append(hist_mode_table(stdin, ckm, lnm, bp, enc, g, via_pty=(ckm + lnm + bp) % 2 == 1))
                            n_table += len(g)
        mods = modified_keys()
        combos = [(0, 0, 0), (1, 1, 1)] if quick else [(a, b, c) for a in (0, 1) for b in (0, 1) for c in (0, 1)]
        for ckm, lnm, bp in combos:
            for k in mods:
                traces.append(hist_mode_table(stdin, ckm, lnm, bp, "utf8", [k], via_pty=False))
                n_table += 1
        chk.cov["mode_table_cases"] = n_table

        # ---- code -> spec: the grab protocol, every key sequence up to a length ------------------------------
        import itertools
        alpha = ["ctrl a", "a", "up", "enter", "page up", "begin paste", "window resize"]
        maxlen = 4 if quick else 5
        n_proto = 0
        for n in range(1, maxlen + 1):
            for seq in itertools.product(alpha, repeat=n):
                if n < maxlen and quick:
                    continue            # prefixes are contained in the longer sequences
                traces.append(hist_protocol(stdin, list(seq), bp=n_proto % 2, esc=None, exit_at=-1))
                n_proto += 1
        # other escape sequences, a dead child at every position
        for esc in ("ctrl b", "f12", "esc", "meta q"):
            al2 = [esc, "a", "tab", " "]
            for seq in itertools.product(al2, repeat=3 if quick else 4):
                traces.append(hist_protocol(stdin, list(seq), bp=0, esc=esc, exit_at=-1))
                n_proto += 1
        for seq in itertools.product(["ctrl a", "a", "up"], repeat=3):
            for at in range(0, 3):
                traces.append(hist_protocol(stdin, list(seq), bp=0, esc=None, exit_at=at))
                n_proto += 1
        chk.cov["protocol_histories"] = n_proto

        # ---- code -> spec: focus protocol / lifecycle ----------------------------------------------------------
        focus_scripts = [[1, 0], [1, 1, 0], [0, 1, 0, 1, 0], [1, "x", 0], [1, "a", "x", "a", 1, 0], ["a", "x", "a", 0], [0, "x", 1]]
        for sc in focus_scripts:
            traces.append(hist_focus(stdin, sc))
        for ckm in (0, 1):
            for lnm in (0, 1):
                for bp in (0, 1):
                    traces.append(hist_ris(stdin, ckm, lnm, bp, via_pty=bool(ckm ^ bp)))
        notty = Stdin(False)
        try:
            traces.append(hist_focus(notty, [1, 0]))
            traces.append(hist_focus(notty, [0, "a", "x", "a"]))
        finally:
            notty.close()

        # ---- code -> spec: round trip through urwid's input decoder --------------------------------------------
        names = decoder_key_names()
        for k in names + CHARS_ASCII + CHARS_WIDE:
            traces.append(hist_roundtrip(stdin, k))
        for k in ["\xe9", "\xff", "\xa0", "A", "~"]:
            traces.append(hist_roundtrip(stdin, k, enc="latin1", dec="other"))
        traces.append({"kind": "domain", "enc": "utf8", "dec": "utf8", "esc": "ctrl a", "tty": 1, "driver": "domain",
                       "ev": [{"t": "domain", "names": names}]})
        chk.cov["roundtrip_keys"] = len(names) + len(CHARS_ASCII) + len(CHARS_WIDE) + 5

        # ---- code -> spec: seeded random long histories --------------------------------------------------------
        n_rand = 120 if quick else 4000
        for i in range(n_rand):
            traces.append(hist_random(stdin, rng, 40 if quick else 60, esc=None if i % 4 else rng.choice(["ctrl b", "f12", "ctrl x"])))
        chk.cov["random_histories"] = n_rand

        # ---- spec -> code ----------------------------------------------------------------------------------
        behs = f_sim.result()
        agree = steps = 0
        for b in behs:
            tr, a, diff = replay_behaviour(stdin, b)
            traces.append(tr)
            agree += a
            steps += len(b) - 1
            if diff:
                chk.divergence(f"spec_to_code_state_differs.{diff['action']}.{diff['key'] or diff['tok']}".replace(" ", "_"), diff)
        chk.cov["spec_to_code_behaviours"] = len(behs)
        chk.cov["spec_to_code_steps"] = steps
        chk.cov["spec_to_code_steps_agreeing"] = agree
    finally:
        stdin.close()
    drive_s = time.time() - t_start

    # ---- TLC judges every recorded event --------------------------------------------------------------------
    res = tlc.validate("TermKeysTrace", traces, batch_events=12000 if quick else 25000, jobs=4, timeout=1500)
    chk.add_tv("TV_TermKeysTrace", res)
    _handle(chk, traces, res)

    # ---- collect the model-checking runs -------------------------------------------------------------------
    r = f_main.result()
    chk.add_mc("MC_TermKeys", r)
    if not r.ok:
        raise MachineryError(f"x02: the TermKeys model violates its own invariant {r.violated}")
    rl = f_live.result()
    chk.add_mc("MC_TermKeys_liveness", rl)
    if not rl.ok:
        raise MachineryError(f"x02: the TermKeys model violates liveness {rl.violated}")
    refuted = {}
    for v, f in f_var.items():
        rv = f.result()
        chk.add_mc("MC_TermKeys_wrong_" + v, rv)
        refuted[v] = rv.violated or ""
        if rv.ok:
            chk.vacuity.append(f"wrong variant {v} not refuted")
    nf, _ = f_nf.result()
    refuted["never_flush"] = "RepliesDelivered" if nf else ""
    if not nf:
        chk.vacuity.append("wrong variant never_flush not refuted")
    chk.cov["wrong_variants_refuted"] = refuted
    pool.shutdown()

    # ---- coverage bookkeeping ------------------------------------------------------------------------------
    kinds = {}
    nontriv = set()
    for t in traces:
        for e in t["ev"]:
            if e["t"] == "key":
                c = "key." + ("wrote" if e["wrote"] else "returned" if not e["handled"] else "consumed") + "." + t["driver"]
                if e["wrote"]:
                    nontriv.add((e["key"], e["ckm"], e["lnm"], e["bp"], t["enc"]))
            elif e["t"] == "feed":
                c = "feed." + ("replies" if e["pend"] else "modes") + "." + t["driver"]
            else:
                c = e["t"] + "." + t["driver"]
            kinds[c] = kinds.get(c, 0) + 1
    chk.cov["clause_counts"] = dict(sorted(kinds.items()))
    chk.cov["distinct_nontrivial"] = len(nontriv)
    for need in ("key.wrote.pty", "key.returned.pty", "key.consumed.pty", "feed.replies.pty", "feed.modes.pty", "flush.pty", "exit.pty",
                 "render.pty", "key.wrote.child", "feed.replies.child", "exit.child", "key.wrote.tlc-simulate", "exit.tlc-simulate"):
        if not kinds.get(need):
            chk.vacuity.append("driver." + need)
    chk.cov["rule"] = ("every key of the alphabet (95 ASCII + 12 non-ASCII characters in utf-8/latin-1/ascii, 26 named keys, 31 ctrl keys, paste "
                       "markers, ~200 modified keys) in every combination of DECCKM/LNM/bracketed paste; every key sequence up to length "
                       f"{maxlen} of the grab protocol alphabet; every key name urwid's decoder can produce, round trip; seeded random histories; "
                       "TLC -simulate behaviours replayed; a real forked child.  non-trivial = distinct (key, modes, encoding) written to the child")
    chk.cov["exhaustive"] = True
    chk.cov["drive_wall_s"] = round(drive_s, 1)
    chk.sample(traces[0])
    chk.sample(next(t for t in traces if t["driver"] == "tlc-simulate"))
    chk.sample(next(t for t in traces if t["kind"] == "roundtrip"))
    chk.cov["trusted_base"] = ["TLC", "InputTable.tla / InputDecoderOps.tla (urwid's documented input decoding, C05)",
                               "vf/props/x02.py Rig/ChildRig (pty plumbing, sentinel read-back, projection of term_modes/keygrab/response_buffer)",
                               "the kernel's pty line discipline in raw mode"]
    chk.assumptions += [
        "default command map; Terminal used as the focus widget (keypress called directly, as a container would)",
        "consecutive presses of the escape sequence after the second are also passed to the child (as urwid's keypress states it)",
        "a character the widget's encoding cannot express sends nothing (encode(..., 'ignore'))",
        "keypad application mode has no effect: urwid key names do not tell keypad keys apart",
        "replies carry the cursor position at the end of the chunk (no cursor movement after a question inside a chunk)",
        "modified cursor/editing/function keys may degrade to the plain key (linux console); meta+character must send ESC prefix",
    ]


def replay(chk, path):
    with open(path) as f:
        rp = json.load(f)
    tr = rp["replay"]["trace"]
    res = tlc.validate("TermKeysTrace", [tr])
    chk.add_tv("replay", res)
    _handle(chk, [tr], res)
    chk.sample(tr)
    return chk.finish()
