"""C05 — terminal input decodes to the same events however it is fragmented.
Reference decoder: spec/InputDecoderOps.tla over the frozen spec/InputTable.tla; fragmentation model:
spec/InputDecoder.tla; trace spec: spec/InputTrace.tla."""
from __future__ import annotations

import io
import json
import re

from .. import tlc

MODES = {"utf8": "utf-8", "narrow": "iso8859-1", "wide": "euc-jp"}


class _Loop:
    """Recording stand-in for the event loop parse_input arms its completion timer on."""

    def __init__(self):
        self.pending = None

    def alarm(self, seconds, cb):
        self.pending = cb
        return cb

    def remove_alarm(self, h):
        if self.pending is h:
            self.pending = None
            return True
        return False


def _ev(k, name="", a=0, b=0, c=0):
    return {"k": k, "name": name, "a": a, "b": b, "c": c}


_RAW = re.compile(r"^<(\d+)>$")


def abstract(key):
    if isinstance(key, tuple):
        if key[0] == "cursor position":
            return _ev("cpr", "cursor position", key[1], key[2])
        return _ev("mouse", key[0], key[1], key[2], key[3])
    m = _RAW.match(key)
    if m:
        return _ev("raw", "", int(m.group(1)))
    if len(key) == 1 and ord(key) >= 128:
        return _ev("char", "", ord(key))
    if len(key) == 2 and ord(key[0]) >= 128:          # double-byte character: both halves in one event
        return _ev("dchar", "", ord(key[0]), 0, ord(key[1]))
    if key.startswith("meta ") and len(key) == 7 and ord(key[5]) >= 128:
        return _ev("dchar", "meta ", ord(key[5]), 0, ord(key[6]))
    if key.startswith("meta ") and len(key) == 6 and ord(key[5]) >= 128:
        return _ev("char", "meta ", ord(key[5]))
    return _ev("key", key)


class Rig:
    def __init__(self, mode):
        import urwid
        from urwid.display import raw

        urwid.set_encoding(MODES[mode])
        self.screen = raw.Screen(input=io.StringIO(), output=io.StringIO())
        self.loop = _Loop()
        self.out = []
        self.raw = []
        self.chunk = []
        self.screen._get_input_codes = lambda: list(self.chunk)

    def _cb(self, keys, raw):
        self.out += [abstract(k) for k in keys]
        self.raw += list(raw)

    def feed(self, chunk):
        self.chunk = chunk
        codes = self.screen.get_available_raw_input()
        self.chunk = []
        self.screen.parse_input(self.loop, self._cb, codes)

    def timeout(self):
        cb = self.loop.pending
        if cb is not None:
            self.loop.pending = None
            cb()
            return True
        return False


def deliver(mode, stream, cuts, timeouts, empties=()):
    """Deliver stream cut at `cuts` (sorted positions), firing the completion timeout after the chunks whose
    index is in `timeouts`; always fire it at the end.  After the chunks whose index is in `empties` the input
    watcher runs once more with nothing to read (a degenerate cut: spurious wake-up, resize pipe).
    Returns an event for InputTrace."""
    rig = Rig(mode)
    e = {"exc": "", "stuck": False, "midtimeout": False}
    try:
        bounds = [0, *cuts, len(stream)]
        for i in range(len(bounds) - 1):
            rig.feed(list(stream[bounds[i]:bounds[i + 1]]))
            if i in empties and i < len(bounds) - 2:
                rig.feed([])
            if i in timeouts and i < len(bounds) - 2:
                if rig.timeout():
                    e["midtimeout"] = True
        n = 0
        while rig.timeout():
            n += 1
            if n > 50:
                e["stuck"] = True
                break
    except Exception as ex:  # noqa: BLE001
        e["exc"] = type(ex).__name__
    e["out"] = rig.out
    e["raw"] = rig.raw
    return e


def trace_for(rng, mode, stream, nfrag, refcheck=True, all_cuts=False):
    stream = list(stream)
    ev = [dict(deliver(mode, stream, [], []), t="whole")]
    n = len(stream)
    frags = []
    if all_cuts and n <= 7:
        for mask in range(1, 1 << (n - 1)):
            frags.append(([i + 1 for i in range(n - 1) if mask >> i & 1], []))
    else:
        for _ in range(nfrag):
            k = rng.randint(1, min(4, max(1, n - 1))) if n > 1 else 0
            cuts = sorted(rng.sample(range(1, n), k)) if n > 1 else []
            tmo = [i for i in range(len(cuts)) if rng.random() < 0.15]
            frags.append((cuts, tmo))
        if n > 1:  # byte by byte
            frags.append((list(range(1, n)), []))
    for cuts, tmo in frags:
        ev.append(dict(deliver(mode, stream, cuts, tmo), t="frag", cuts=cuts, timeouts=tmo, empties=[]))
    # the same cuts with an empty read after every chunk (no timeout in between): nothing pending may be lost
    for cuts, tmo in frags[:: (1 if (all_cuts and n <= 5) else 3)]:
        if cuts:
            em = list(range(len(cuts)))
            ev.append(dict(deliver(mode, stream, cuts, [], em), t="frag", cuts=cuts, timeouts=[], empties=em))
    return {"mode": mode, "stream": stream, "refcheck": refcheck, "ev": ev}


def documented_atoms(mode):
    """Byte strings whose decoding the documentation fixes: every table entry, mouse reports, CPR, characters."""
    import sys

    from urwid.display import escape  # only for the *byte sequences* to feed; names come from the frozen TLA table

    atoms = [b"\x1b" + s.encode("latin-1") for s, n in escape.input_sequences if n not in ("mouse", "sgrmouse")]
    for b in list(range(0, 8)) + [16, 32, 35, 64, 65, 67, 68, 72, 96, 99]:
        for x, y in ((0, 0), (5, 7), (94, 200), (222, 222)):
            atoms.append(bytes([27, 91, 77, 32 + b, 33 + x, 33 + y]))
    for b in [0, 1, 2, 3, 4, 8, 16, 28, 32, 35, 64, 65, 66, 67, 96]:
        for x, y in ((1, 1), (10, 20), (223, 223), (1000, 500)):
            for fin in "Mm":
                atoms.append(f"\x1b[<{b};{x};{y}{fin}".encode())
    for y, x in ((1, 1), (24, 80), (3, 7), (100, 200)):
        atoms.append(f"\x1b[{y};{x}R".encode())
    atoms += [bytes([c]) for c in range(0, 128)]
    atoms += [b"\x1b" + bytes([c]) for c in range(32, 127)]
    if mode == "utf8":
        atoms += ["é".encode(), "字".encode(), "\U0001f600".encode(), "́".encode(), b"\x1b" + "é".encode()]
    elif mode == "narrow":
        atoms += [bytes([c]) for c in (0xA1, 0xE9, 0xFF, 0x80)]
    else:
        atoms += ["字".encode("euc-jp"), "界".encode("euc-jp"), b"\xa4\xa2"]
        # every boundary of the second-half ranges (64..126 after a lead >= 129, 128..255 after any lead), alone and followed by a key
        for lead in (0x80, 0x81, 0xA4, 0xFE, 0xFF):
            for trail in (0x20, 0x3F, 0x40, 0x41, 0x5C, 0x7E, 0x7F, 0x80, 0x81, 0xFE, 0xFF, 0x1B, 0x0D):
                atoms += [bytes([lead, trail]), bytes([lead, trail, 0x41]), bytes([27, lead, trail])]
    return atoms


GARBAGE = [b"\x1b[<M", b"\x1b[<1;2M", b"\x1b[<a;b;cM", b"\x1b[<;;M", b"\x1b[M", b"\x1b[M !", b"\x1b[", b"\x1b[1;", b"\x1b[1;2", b"\x1b[12;",
           b"\x1b[0;0R", b"\x1b[;R", b"\x1bO", b"\x1b\x1b\x1b", b"\xc3", b"\xe5\xad", b"\xf0\x9f\x98", b"\xc3\x28", b"\xff\xfe", b"\x80\x80",
           b"\xe5\xad\x97\xe5", b"\x1b[200", b"\x1b[<0;1;1", b"\x1b[<99999999999;1;1M", b"\x1b[99999999999;1R", b"\x00\x1b\x00", b"\xa4", b"\xa4A",
           b"\x1b[1;2R", b"\x1b[[", b"\x1b[3", b"\x1bOa\x1b[<0;2;3m\x1b[A"]

# multi-byte characters broken off after every number of continuation bytes, followed by something decodable:
# the bytes already examined must come out as individual events and what follows must decode normally
for _lead in (b"\xc3", b"\xe5\xad", b"\xe5", b"\xf0\x9f\x98", b"\xf0\x9f", b"\xf0", b"\xa4"):
    for _next in (b"A", b"\x1b[A", b"\xc3\xa9", b"\xe5\xad\x97", b"\x1b", b"\r", b"\x1b[<0;1;1M", b"\xff"):
        GARBAGE.append(_lead + _next)

# ESC typed in front of a complete report / sequence: the report keeps its meaning, the ESC stands alone (or becomes "meta")
for _rep in (b"\x1b[3;7R", b"\x1b[24;80R", b"\x1b[M !!", b"\x1b[M#\x7f\x7f", b"\x1b[<0;3;2M", b"\x1b[<35;10;20m", b"\x1b[A", b"\x1bOP", b"\x1b[15~", b"a"):
    GARBAGE.append(b"\x1b" + _rep)
    GARBAGE.append(b"\x1b\x1b" + _rep)

MC_CFG = """CONSTANTS MaxLen = {n} Mode = "{mode}" MidTimeouts = {mid}
Alphabet = {alpha}
SPECIFICATION Spec
INVARIANT SameAsWhole
INVARIANT TailIsSuffix
CHECK_DEADLOCK FALSE
"""
ALPHA = [27, 91, 79, 65, 49, 59, 126, 77, 60, 82, 97, 195, 169, 50]


def _handle(chk, traces, res):
    for ti, l, why in res.rejects:
        tr = traces[ti]
        e = tr["ev"][l - 1]
        s = bytes(tr["stream"])
        sig = {"mode": tr["mode"], "event": e["t"], "exc": e["exc"], "sgr_mouse": s.startswith(b"\x1b[<") or b"\x1b[<" in s,
               "high_bytes": any(b >= 128 for b in s)}
        chk.reject(f"C05.{why}", sig, {"mode": tr["mode"], "stream": tr["stream"], "cuts": e.get("cuts"), "timeouts": e.get("timeouts"), "empties": e.get("empties"),
                                       "observed": e})


def run(chk):
    quick = chk.tier == "quick"
    rng = chk.rng
    alpha = "{" + ", ".join(map(str, ALPHA)) + "}"
    r = tlc.mc("InputDecoder", MC_CFG.format(n=4 if quick else 5, mode="utf8", mid="FALSE", alpha=alpha), timeout=3000, heap="12g")
    chk.add_mc("MC_InputDecoder_fragmentation", r)
    if not r.ok:
        chk.reject("C05.model." + str(r.violated), {"model": "InputDecoder"}, {"tlc_trace": r.trace[-5:]})
    r2 = tlc.mc("InputDecoder", MC_CFG.format(n=3 if quick else 4, mode="narrow", mid="TRUE", alpha=alpha).replace("INVARIANT SameAsWhole\n", ""), timeout=3000)
    chk.add_mc("MC_InputDecoder_mid_timeouts", r2)
    if not r2.ok:
        chk.reject("C05.model." + str(r2.violated), {"model": "InputDecoder"}, {"tlc_trace": r2.trace[-5:]})
    walpha = "{27, 91, 65, 164, 129, 128, 64, 63, 126, 127}"      # leads 128/129/164, second halves at both range boundaries
    r3 = tlc.mc("InputDecoder", MC_CFG.format(n=4 if quick else 5, mode="wide", mid="FALSE", alpha=walpha), timeout=3000, heap="12g")
    chk.add_mc("MC_InputDecoder_fragmentation_double_byte", r3)
    if not r3.ok:
        chk.reject("C05.model." + str(r3.violated), {"model": "InputDecoder"}, {"tlc_trace": r3.trace[-5:]})
    traces = []
    for mode in MODES:
        atoms = documented_atoms(mode)
        refcheck = True
        # every documented atom on its own, every cut
        for a in atoms:
            traces.append(trace_for(rng, mode, a, 0, refcheck, all_cuts=True))
        # concatenations of atoms (self-delimiting), random cuts
        for _ in range(300 if quick else 20000):
            k = rng.randint(2, 5)
            s = b"".join(rng.choice(atoms) for _ in range(k))
            traces.append(trace_for(rng, mode, s, 3, refcheck))
        # garbage, truncations, random bytes: robustness + fragmentation only (plus the reference where it is defined)
        for g in GARBAGE:
            traces.append(trace_for(rng, mode, g, 0, refcheck, all_cuts=True))
        for _ in range(300 if quick else 20000):
            n = rng.randint(1, 10)
            pool = [27, 27, 91, 91, 60, 77, 109, 59, 49, 50, 82, 79, 126, 65] + [rng.randrange(256) for _ in range(6)]
            s = bytes(rng.choice(pool) for _ in range(n))
            traces.append(trace_for(rng, mode, s, 3, refcheck))
        # truncated prefixes of documented atoms followed by something else
        for _ in range(150 if quick else 8000):
            a = rng.choice(atoms)
            cut = rng.randint(1, len(a))
            s = a[:cut] + rng.choice(atoms)
            traces.append(trace_for(rng, mode, s, 2, refcheck))
    res = tlc.validate("InputTrace", traces, batch_events=6000, timeout=2400)
    chk.add_tv("TV_InputTrace", res)
    _handle(chk, traces, res)
    kinds = {}
    nontriv = set()
    for t in traces:
        for e in t["ev"]:
            kinds[f"{t['mode']}.{e['t']}"] = kinds.get(f"{t['mode']}.{e['t']}", 0) + 1
            if e["t"] == "frag" and e.get("cuts"):
                nontriv.add((t["mode"], bytes(t["stream"]), tuple(e["cuts"]), tuple(e["timeouts"])))
            for o in e["out"]:
                kinds["out." + o["k"]] = kinds.get("out." + o["k"], 0) + 1
    chk.cov["clause_counts"] = kinds
    chk.cov["distinct_nontrivial"] = len(nontriv)
    chk.cov["rule"] = ("streams: every documented table sequence / mouse report / CPR / character alone with every cut, concatenations of them, "
                       "garbage and truncations, random bytes; three encoding modes; non-trivial = distinct (mode, stream, cuts, timeouts) with at least one cut")
    chk.cov["exhaustive"] = True
    chk.sample({"mode": traces[5]["mode"], "stream": traces[5]["stream"], "events": traces[5]["ev"][:3]})
    chk.cov["trusted_base"] = ["TLC", "InputTable.tla (frozen documented table)", "InputDecoderOps.tla reference decoder", "vf/props/c05.py Rig (real Screen.parse_input)"]
    chk.assumptions += ["in wide (double-byte) mode a byte >= 128 pairs with a following possible second half (128..255, or 64..126 after a lead >= 129): the pairing rule of urwid's documented double-byte handling, not of one particular encoding",
                        "malformed mouse / cursor reports: result unspecified, only robustness and fragmentation invariance are checked"]


def replay(chk, path):
    import random

    with open(path) as f:
        rp = json.load(f)["replay"]
    rng = random.Random(1)
    ev = [dict(deliver(rp["mode"], rp["stream"], [], []), t="whole")]
    if rp.get("cuts") is not None:
        ev.append(dict(deliver(rp["mode"], rp["stream"], rp["cuts"], rp.get("timeouts") or [], rp.get("empties") or []), t="frag", cuts=rp["cuts"],
                       timeouts=rp.get("timeouts") or [], empties=rp.get("empties") or []))
    tr = {"mode": rp["mode"], "stream": rp["stream"], "refcheck": True, "ev": ev}
    res = tlc.validate("InputTrace", [tr])
    chk.add_tv("replay", res)
    _handle(chk, [tr], res)
    chk.sample(tr)
    return chk.finish()
