"""C05 — terminal input decodes to the same events however it is fragmented.
Reference decoder: spec/InputDecoderOps.tla over the frozen spec/InputTable.tla; fragmentation model:
spec/InputDecoder.tla; trace spec: spec/InputTrace.tla."""
from __future__ import annotations

import io
import json
import re

from .. import tlc

MODES = {"utf8": "utf-8", "narrow": "iso8859-1", "wide": "euc-jp"}


class _Loop:
    """Recording stand-in for the event loop parse_input arms its completion timer on."""

    def __init__(self):
        self.pending = None

    def alarm(self, seconds, cb):
        self.pending = cb
        return cb

    def remove_alarm(self, h):
        if self.pending is h:
            self.pending = None
            return True
        return False


def _ev(k, name="", a=0, b=0, c=0):
    return {"k": k, "name": name, "a": a, "b": b, "c": c}


_RAW = re.compile(r"^<(\d+)>$")


def abstract(key):
    if isinstance(key, tuple):
        if key[0] == "cursor position":
            return _ev("cpr", "cursor position", key[1], key[2])
        return _ev("mouse", key[0], key[1], key[2], key[3])
    m = _RAW.match(key)
    if m:
        return _ev("raw", "", int(m.group(1)))
    if len(key) == 1 and ord(key) >= 128:
        return _ev("char", "", ord(key))
    if len(key) == 2 and ord(key[0]) >= 128:          # double-byte character: both halves in one event
        return _ev("dchar", "", ord(key[0]), 0, ord(key[1]))
    if key.startswith("meta ") and len(key) == 7 and ord(key[5]) >= 128:
        return _ev("dchar", "meta ", ord(key[5]), 0, ord(key[6]))
    if key.startswith("meta ") and len(key) == 6 and ord(key[5]) >= 128:
        return _ev("char", "meta ", ord(key[5]))
    return _ev("key", key)


class Rig:
    def __init__(self, mode):
        import urwid
        from urwid.display import raw

        urwid.set_encoding(MODES[mode])
        self.screen = raw.Screen(input=io.StringIO(), output=io.StringIO())
        self.loop = _Loop()
        self.out = []
        self.raw = []
        self.chunk = []
        self.screen._get_input_codes = lambda: list(self.chunk)

    def _cb(self, keys, raw):
        self.out += [abstract(k) for k in keys]
        self.raw += list(raw)

    def feed(self, chunk):
        self.chunk = chunk
        codes = self.screen.get_available_raw_input()
        self.chunk = []
        self.screen.parse_input(self.loop, self._cb, codes)

    def timeout(self):
        cb = self.loop.pending
        if cb is not None:
            self.loop.pending = None
            cb()
            return True
        return False


def deliver(mode, stream, cuts, timeouts, empties=()):
    """Deliver stream cut at `cuts` (sorted positions), firing the completion timeout after the chunks whose
    index is in `timeouts`; always fire it at the end.  After the chunks whose index is in `empties` the input
    watcher runs once more with nothing to read (a degenerate cut: spurious wake-up, resize pipe).
    Returns an event for InputTrace."""
    rig = Rig(mode)
    e = {"exc": "", "stuck": False, "midtimeout": False}
    try:
        bounds = [0, *cuts, len(stream)]
        for i in range(len(bounds) - 1):
            rig.feed(list(stream[bounds[i]:bounds[i + 1]]))
            if i in empties and i < len(bounds) - 2:
                rig.feed([])
            if i in timeouts and i < len(bounds) - 2:
                if rig.timeout():
                    e["midtimeout"] = True
        n = 0
        while rig.timeout():
            n += 1
            if n > 50:
                e["stuck"] = True
                break
    except Exception as ex:  # noqa: BLE001
        e["exc"] = type(ex).__name__
    e["out"] = rig.out
    e["raw"] = rig.raw
    return e


# ---- the synchronous path: Screen.get_input() without an event loop, on a pipe, under a clock the driver controls ---------------
class _WouldBlockForever(Exception):
    """The call would sleep with no timeout while nothing will ever arrive: the scenario is over."""


class _Clock:
    """Virtual time in milliseconds + the schedule of arrivals [(time, bytes)] written to the pipe when due."""

    def __init__(self, arrivals, wfd):
        import os

        self._os = os
        self.now = 0
        self.queue = sorted(arrivals, key=lambda x: x[0])
        self.wfd = wfd
        self.unread = []          # arrival times of chunks written to the pipe and not yet read by the screen

    def deliver_due(self):
        while self.queue and self.queue[0][0] <= self.now:
            t, b = self.queue.pop(0)
            self._os.write(self.wfd, bytes(b))
            self.unread.append(t)

    def sleep(self, ms):
        self.now += ms
        self.deliver_due()


class _Selectors:
    """Stand-in for the `selectors` module inside urwid.display._raw_display_base: select(timeout) looks at the real descriptors
    (non-blocking) and, instead of sleeping, moves the virtual clock to the next arrival or to the end of the timeout."""

    def __init__(self, clock):
        import selectors

        self._real = selectors
        self.EVENT_READ = selectors.EVENT_READ
        self.EVENT_WRITE = selectors.EVENT_WRITE
        self.clock = clock
        outer = self

        class Sel:
            def __init__(self):
                self.sel = outer._real.DefaultSelector()

            def __enter__(self):
                return self

            def __exit__(self, *a):
                self.sel.close()

            def close(self):
                self.sel.close()

            def register(self, *a, **kw):
                return self.sel.register(*a, **kw)

            def unregister(self, *a, **kw):
                return self.sel.unregister(*a, **kw)

            def select(self, timeout=None):
                clock = outer.clock
                clock.deliver_due()
                ready = self.sel.select(0)
                if ready or (timeout is not None and timeout <= 0):
                    return ready
                limit = None if timeout is None else clock.now + int(round(timeout * 1000))
                if clock.queue and (limit is None or clock.queue[0][0] <= limit):
                    clock.now = clock.queue[0][0]
                    clock.deliver_due()
                    return self.sel.select(0)
                if limit is None:
                    raise _WouldBlockForever
                clock.now = limit
                return []

        self.DefaultSelector = Sel


def sync_run(mode, maxwait, cw, rawkeys, think, arrivals, last_call_by, max_calls=400):
    """A real raw_display.Screen reading a pipe; set_input_timeouts(max_wait = maxwait ms or None, complete_wait = cw ms); the
    application calls get_input() (or get_input(raw_keys=True)) again and again, spending `think` ms between two calls, while
    the chunks of `arrivals` [(ms, bytes)] arrive.  Calls that could only find nothing are made while they can return by
    `last_call_by`.  Returns a trace for InputSyncTrace."""
    import os

    import urwid
    from urwid.display import _raw_display_base as base
    from urwid.display import raw

    urwid.set_encoding(MODES[mode])
    rfd, wfd = os.pipe()
    rfile = os.fdopen(rfd, "rb", buffering=0)
    clock = _Clock([(t, bytes(b)) for t, b in arrivals], wfd)
    real_selectors = base.selectors
    ev = []
    try:
        base.selectors = _Selectors(clock)
        scr = raw.Screen(input=rfile, output=io.StringIO())
        scr.set_input_timeouts(max_wait=None if maxwait is None else maxwait / 1000.0, complete_wait=cw / 1000.0)
        scr._started = True
        reads = []
        orig_read = scr._read_raw_input

        def read_raw_input(timeout):
            chars = orig_read(timeout)
            if chars:
                reads.append({"t": clock.now, "a": clock.unread[0] if clock.unread else clock.now, "b": list(chars)})
                clock.unread.clear()
            return chars

        scr._read_raw_input = read_raw_input
        for _ in range(max_calls):
            if not clock.queue and not clock.unread:
                # nothing more will arrive: only calls that find nothing to read remain
                if maxwait is None or clock.now + maxwait > last_call_by:
                    break
            e = {"t": "call", "t0": clock.now, "exc": "", "out": [], "raw": []}
            del reads[:]
            try:
                res = scr.get_input(raw_keys=True) if rawkeys else scr.get_input()
                keys, rawc = res if rawkeys else (res, [])
                e["out"] = [abstract(k) for k in keys]
                e["raw"] = list(rawc)
            except _WouldBlockForever:
                break
            except Exception as ex:  # noqa: BLE001
                e["exc"] = type(ex).__name__
            e["t1"] = clock.now
            e["reads"] = list(reads)
            e["carried"] = len(scr._partial_codes)      # observation for the coverage counters only (the specification does not read it)
            ev.append(e)
            if e["exc"]:
                break
            clock.sleep(think)
    finally:
        base.selectors = real_selectors
        os.close(wfd)
        rfile.close()
    stream = [x for _, b in arrivals for x in b]
    return {"mode": mode, "cw": cw, "maxwait": -1 if maxwait is None else maxwait, "rawkeys": 1 if rawkeys else 0, "think": think,
            "arrivals": [[t, list(b)] for t, b in arrivals], "last_call_by": last_call_by, "stream": stream, "ev": ev}


def sync_scenario(rng, mode, stream, expiry, all_cuts_mask=None):
    """Cut `stream`, choose arrival times, max_wait, think time and how long the application goes on calling.
    expiry False: every gap is shorter than complete_wait and no call returns at or after the completion timeout of what is
    carried (the remainder always arrives in time); True: gaps and the calls after the last chunk may exceed it."""
    stream = list(stream)
    n = len(stream)
    cw = rng.choice((100, 100, 60, 250))
    if all_cuts_mask is not None:
        cuts = [i + 1 for i in range(n - 1) if all_cuts_mask >> i & 1]
    else:
        k = rng.randint(1, min(4, n - 1)) if n > 1 else 0
        cuts = sorted(rng.sample(range(1, n), k)) if k else []
    bounds = [0, *cuts, n]
    maxwait = rng.choice((None, 0, 0, max(1, cw // 10), cw // 2, cw - 1, cw, 3 * cw))
    think = rng.choice((0, 3, cw // 4)) if maxwait != 0 else rng.choice((cw // 6, cw // 3, cw // 2))
    t = rng.choice((0, 5, 2 * cw))
    arrivals = []
    for i in range(len(bounds) - 1):
        arrivals.append((t, stream[bounds[i]:bounds[i + 1]]))
        if expiry and rng.random() < 0.4:
            t += rng.choice((cw, cw + 1, 2 * cw, 5 * cw))
        else:
            t += rng.choice((0, 1, cw // 5, cw // 2, cw - think - 2 if cw - think - 2 > 0 else 1, cw - 1))
    last = arrivals[-1][0]
    last_call_by = last + (rng.choice((cw, 2 * cw, 4 * cw)) if expiry else cw - 1 - think)
    return sync_run(mode, maxwait, cw, rng.random() < 0.5, think, arrivals, last_call_by)


def trace_for(rng, mode, stream, nfrag, refcheck=True, all_cuts=False):
    stream = list(stream)
    ev = [dict(deliver(mode, stream, [], []), t="whole")]
    n = len(stream)
    frags = []
    if all_cuts and n <= 7:
        for mask in range(1, 1 << (n - 1)):
            frags.append(([i + 1 for i in range(n - 1) if mask >> i & 1], []))
    else:
        for _ in range(nfrag):
            k = rng.randint(1, min(4, max(1, n - 1))) if n > 1 else 0
            cuts = sorted(rng.sample(range(1, n), k)) if n > 1 else []
            tmo = [i for i in range(len(cuts)) if rng.random() < 0.15]
            frags.append((cuts, tmo))
        if n > 1:  # byte by byte
            frags.append((list(range(1, n)), []))
    for cuts, tmo in frags:
        ev.append(dict(deliver(mode, stream, cuts, tmo), t="frag", cuts=cuts, timeouts=tmo, empties=[]))
    # the same cuts with an empty read after every chunk (no timeout in between): nothing pending may be lost
    for cuts, tmo in frags[:: (1 if (all_cuts and n <= 5) else 3)]:
        if cuts:
            em = list(range(len(cuts)))
            ev.append(dict(deliver(mode, stream, cuts, [], em), t="frag", cuts=cuts, timeouts=[], empties=em))
    return {"mode": mode, "stream": stream, "refcheck": refcheck, "ev": ev}


def documented_atoms(mode):
    """Byte strings whose decoding the documentation fixes: every table entry, mouse reports, CPR, characters."""
    import sys

    from urwid.display import escape  # only for the *byte sequences* to feed; names come from the frozen TLA table

    atoms = [b"\x1b" + s.encode("latin-1") for s, n in escape.input_sequences if n not in ("mouse", "sgrmouse")]
    for b in list(range(0, 8)) + [16, 32, 35, 64, 65, 67, 68, 72, 96, 99]:
        for x, y in ((0, 0), (5, 7), (94, 200), (222, 222)):
            atoms.append(bytes([27, 91, 77, 32 + b, 33 + x, 33 + y]))
    for b in [0, 1, 2, 3, 4, 8, 16, 28, 32, 35, 64, 65, 66, 67, 96]:
        for x, y in ((1, 1), (10, 20), (223, 223), (1000, 500)):
            for fin in "Mm":
                atoms.append(f"\x1b[<{b};{x};{y}{fin}".encode())
    for y, x in ((1, 1), (24, 80), (3, 7), (100, 200)):
        atoms.append(f"\x1b[{y};{x}R".encode())
    atoms += [bytes([c]) for c in range(0, 128)]
    atoms += [b"\x1b" + bytes([c]) for c in range(32, 127)]
    if mode == "utf8":
        atoms += ["é".encode(), "字".encode(), "\U0001f600".encode(), "́".encode(), b"\x1b" + "é".encode()]
    elif mode == "narrow":
        atoms += [bytes([c]) for c in (0xA1, 0xE9, 0xFF, 0x80)]
    else:
        atoms += ["字".encode("euc-jp"), "界".encode("euc-jp"), b"\xa4\xa2"]
        # every boundary of the second-half ranges (64..126 after a lead >= 129, 128..255 after any lead), alone and followed by a key
        for lead in (0x80, 0x81, 0xA4, 0xFE, 0xFF):
            for trail in (0x20, 0x3F, 0x40, 0x41, 0x5C, 0x7E, 0x7F, 0x80, 0x81, 0xFE, 0xFF, 0x1B, 0x0D):
                atoms += [bytes([lead, trail]), bytes([lead, trail, 0x41]), bytes([27, lead, trail])]
    return atoms


GARBAGE = [b"\x1b[<M", b"\x1b[<1;2M", b"\x1b[<a;b;cM", b"\x1b[<;;M", b"\x1b[M", b"\x1b[M !", b"\x1b[", b"\x1b[1;", b"\x1b[1;2", b"\x1b[12;",
           b"\x1b[0;0R", b"\x1b[;R", b"\x1bO", b"\x1b\x1b\x1b", b"\xc3", b"\xe5\xad", b"\xf0\x9f\x98", b"\xc3\x28", b"\xff\xfe", b"\x80\x80",
           b"\xe5\xad\x97\xe5", b"\x1b[200", b"\x1b[<0;1;1", b"\x1b[<99999999999;1;1M", b"\x1b[99999999999;1R", b"\x00\x1b\x00", b"\xa4", b"\xa4A",
           b"\x1b[1;2R", b"\x1b[[", b"\x1b[3", b"\x1bOa\x1b[<0;2;3m\x1b[A"]

# multi-byte characters broken off after every number of continuation bytes, followed by something decodable:
# the bytes already examined must come out as individual events and what follows must decode normally
for _lead in (b"\xc3", b"\xe5\xad", b"\xe5", b"\xf0\x9f\x98", b"\xf0\x9f", b"\xf0", b"\xa4"):
    for _next in (b"A", b"\x1b[A", b"\xc3\xa9", b"\xe5\xad\x97", b"\x1b", b"\r", b"\x1b[<0;1;1M", b"\xff"):
        GARBAGE.append(_lead + _next)

# ESC typed in front of a complete report / sequence: the report keeps its meaning, the ESC stands alone (or becomes "meta")
for _rep in (b"\x1b[3;7R", b"\x1b[24;80R", b"\x1b[M !!", b"\x1b[M#\x7f\x7f", b"\x1b[<0;3;2M", b"\x1b[<35;10;20m", b"\x1b[A", b"\x1bOP", b"\x1b[15~", b"a"):
    GARBAGE.append(b"\x1b" + _rep)
    GARBAGE.append(b"\x1b\x1b" + _rep)

SYNC_KINDS = {
    "utf8": [b"\x1b[A", b"\x1bOP", b"\x1b[5;5~", b"\x1b[M #$", b"\x1b[<0;7;9M", b"\x1b[12;40R", "\u20ac".encode(), "\U0001f600".encode(), b"\x1bx",
             b"\x1b" + "\xe9".encode(), b"a\x1b[B"],
    "narrow": [b"\x1b[A", b"\x1b[15~", b"\x1b[M #$", b"\x1b[<35;10;20m", b"\x1b[3;7R", b"\x1bx", b"\xe9\x1bOQ"],
    "wide": [b"\x1b[A", b"\xb0\xa1", b"\x81\x40", b"\x1b\xa4\xa2", b"\x1b[M #$", b"\x1b[<0;7;9M", b"\x1b[24;80R", b"\xa4\xa2\x1b[B"],
}


def sync_grid(mode):
    """Every kind of multi-byte item cut at every single point, one gap shorter than complete_wait between the two parts, for every
    kind of max_wait (None, polling, shorter than / equal to / longer than complete_wait), with and without raw_keys."""
    out = []
    cw = 100
    for i, atom in enumerate(SYNC_KINDS[mode]):
        for cut in range(1, len(atom)):
            for j, maxwait in enumerate((None, 0, 10, cw - 1, cw, 3 * cw)):
                gap = (50, 99, 20)[(i + cut + j) % 3]
                think = (7, 0, 30)[(i + j) % 3] if maxwait != 0 else (7, 30)[(i + cut) % 2]
                arrivals = [(5, list(atom[:cut])), (5 + gap, list(atom[cut:]))]
                out.append(sync_run(mode, maxwait, cw, (i + cut + j) % 2 == 0, think, arrivals, 5 + gap + cw - 1 - think))
    return out


SYNC_CFG = """CONSTANTS MaxLen = {n} Mode = "{mode}" CW = 2 GapMax = 3 Design = "{d}"
MaxWaits = {{0, 1, 3, 99}}
Alphabet = {alpha}
SPECIFICATION Spec
{invs}
CHECK_DEADLOCK FALSE
"""

MC_CFG = """CONSTANTS MaxLen = {n} Mode = "{mode}" MidTimeouts = {mid}
Alphabet = {alpha}
SPECIFICATION Spec
INVARIANT SameAsWhole
INVARIANT TailIsSuffix
CHECK_DEADLOCK FALSE
"""
ALPHA = [27, 91, 79, 65, 49, 59, 126, 77, 60, 82, 97, 195, 169, 50]


def _handle_sync(chk, traces, res):
    for ti, l, why in res.rejects:
        tr = traces[ti]
        e = tr["ev"][l - 1]
        s = bytes(tr["stream"])
        idle = not e.get("reads")
        sig = {"path": "sync", "mode": tr["mode"], "exc": e["exc"], "max_wait": "none" if tr["maxwait"] < 0 else tr["maxwait"],
               "max_wait_shorter_than_complete_wait": 0 <= tr["maxwait"] < tr["cw"], "call_read_nothing": idle, "raw_keys": bool(tr["rawkeys"]),
               "high_bytes": any(b >= 128 for b in s)}
        chk.reject(f"C05.{why}", sig, {"path": "sync", "mode": tr["mode"], "cw": tr["cw"], "maxwait": tr["maxwait"], "rawkeys": tr["rawkeys"], "think": tr["think"],
                                       "arrivals": tr["arrivals"], "last_call_by": tr["last_call_by"], "rejected_call": l, "observed": e,
                                       "calls_before": tr["ev"][max(0, l - 6):l - 1]})


def _handle(chk, traces, res):
    for ti, l, why in res.rejects:
        tr = traces[ti]
        e = tr["ev"][l - 1]
        s = bytes(tr["stream"])
        sig = {"mode": tr["mode"], "event": e["t"], "exc": e["exc"], "sgr_mouse": s.startswith(b"\x1b[<") or b"\x1b[<" in s,
               "high_bytes": any(b >= 128 for b in s)}
        chk.reject(f"C05.{why}", sig, {"mode": tr["mode"], "stream": tr["stream"], "cuts": e.get("cuts"), "timeouts": e.get("timeouts"), "empties": e.get("empties"),
                                       "observed": e})


def run(chk):
    quick = chk.tier == "quick"
    rng = chk.rng
    alpha = "{" + ", ".join(map(str, ALPHA)) + "}"
    import concurrent.futures

    tpool = concurrent.futures.ThreadPoolExecutor(4)
    walpha = "{27, 91, 65, 164, 129, 128, 64, 63, 126, 127}"      # leads 128/129/164, second halves at both range boundaries

    def decoder_models():
        # one after the other, while the driver records traces
        return [tlc.mc("InputDecoder", MC_CFG.format(n=4 if quick else 5, mode="utf8", mid="FALSE", alpha=alpha), workers=6, timeout=3000, heap="12g"),
                tlc.mc("InputDecoder", MC_CFG.format(n=3 if quick else 4, mode="narrow", mid="TRUE", alpha=alpha).replace("INVARIANT SameAsWhole\n", ""), workers=6, timeout=3000),
                tlc.mc("InputDecoder", MC_CFG.format(n=4 if quick else 5, mode="wide", mid="FALSE", alpha=walpha), workers=6, timeout=3000, heap="12g")]

    f_dec = tpool.submit(decoder_models)
    # design model of the synchronous path over time: the contract's design holds, the two wrong designs are refuted
    salpha = "{27, 91, 65, 97, 195, 169}"
    sn = 3 if quick else 4

    def sync_cfg(design, invs, mode="utf8", alpha=salpha):
        return SYNC_CFG.format(n=sn, mode=mode, d=design, alpha=alpha, invs="\n".join("INVARIANT " + i for i in invs))

    f_sync = [tpool.submit(tlc.mc, "InputSync", sync_cfg("deadline", ["SameAsWhole", "FlushedWhenExpired", "TailIsSuffix", "CallsFollowContract"]), workers=4, timeout=2400),
              tpool.submit(tlc.mc, "InputSync", sync_cfg("idle_flush", ["SameAsWhole"]), workers=2, timeout=2400),
              tpool.submit(tlc.mc, "InputSync", sync_cfg("never", ["FlushedWhenExpired"]), workers=2, timeout=2400)]
    traces = []
    straces = []
    import random

    srng = random.Random(chk.seed * 7919 + 5)      # own stream: the families below draw what they drew before this family existed
    for mode in MODES:
        atoms = documented_atoms(mode)
        refcheck = True
        # ---- synchronous path (get_input on a pipe, driver's clock) ----
        multi = [a for a in atoms if len(a) > 1]
        straces += sync_grid(mode)
        for _ in range(120 if quick else 3000):       # one item, random cut and timing, the remainder always in time
            straces.append(sync_scenario(srng, mode, srng.choice(multi), False))
        for _ in range(100 if quick else 3000):       # several items
            s = b"".join(srng.choice(atoms) for _ in range(srng.randint(2, 4)))
            straces.append(sync_scenario(srng, mode, s, False))
        for _ in range(40 if quick else 1000):        # truncated items followed by something else
            a = srng.choice(multi)
            straces.append(sync_scenario(srng, mode, a[:srng.randint(1, len(a))] + srng.choice(atoms), False))
        for _ in range(50 if quick else 1500):        # the completion timeout does expire: in the middle or at the end
            a = srng.choice(multi)
            s = srng.choice((a[:srng.randint(1, len(a) - 1)], a, a[:srng.randint(1, len(a) - 1)] + srng.choice(atoms), srng.choice(GARBAGE)))
            straces.append(sync_scenario(srng, mode, s, True))
        # every documented atom on its own, every cut
        for a in atoms:
            traces.append(trace_for(rng, mode, a, 0, refcheck, all_cuts=True))
        # concatenations of atoms (self-delimiting), random cuts
        for _ in range(300 if quick else 20000):
            k = rng.randint(2, 5)
            s = b"".join(rng.choice(atoms) for _ in range(k))
            traces.append(trace_for(rng, mode, s, 3, refcheck))
        # garbage, truncations, random bytes: robustness + fragmentation only (plus the reference where it is defined)
        for g in GARBAGE:
            traces.append(trace_for(rng, mode, g, 0, refcheck, all_cuts=True))
        for _ in range(300 if quick else 20000):
            n = rng.randint(1, 10)
            pool = [27, 27, 91, 91, 60, 77, 109, 59, 49, 50, 82, 79, 126, 65] + [rng.randrange(256) for _ in range(6)]
            s = bytes(rng.choice(pool) for _ in range(n))
            traces.append(trace_for(rng, mode, s, 3, refcheck))
        # truncated prefixes of documented atoms followed by something else
        for _ in range(150 if quick else 8000):
            a = rng.choice(atoms)
            cut = rng.randint(1, len(a))
            s = a[:cut] + rng.choice(atoms)
            traces.append(trace_for(rng, mode, s, 2, refcheck))
    for name, r in zip(("MC_InputDecoder_fragmentation", "MC_InputDecoder_mid_timeouts", "MC_InputDecoder_fragmentation_double_byte"), f_dec.result()):
        chk.add_mc(name, r)
        if not r.ok:
            chk.reject("C05.model." + str(r.violated), {"model": "InputDecoder"}, {"tlc_trace": r.trace[-5:]})
    f_sres = tpool.submit(tlc.validate, "InputSyncTrace", straces, batch_events=6000, jobs=3, timeout=2400)
    res = tlc.validate("InputTrace", traces, batch_events=6000, timeout=2400)
    chk.add_tv("TV_InputTrace", res)
    _handle(chk, traces, res)
    sres = f_sres.result()
    chk.add_tv("TV_InputSyncTrace", sres)
    _handle_sync(chk, straces, sres)
    for name, f, must_hold in (("MC_InputSync_deadline_design", f_sync[0], True), ("MC_InputSync_refute_flush_on_idle_call", f_sync[1], False),
                               ("MC_InputSync_refute_never_flushes", f_sync[2], False)):
        r = f.result()
        chk.add_mc(name, r)
        if must_hold and not r.ok:
            chk.reject("C05.model." + str(r.violated), {"model": "InputSync"}, {"tlc_trace": r.trace[-5:]})
        if not must_hold and r.ok:
            chk.vacuity.append("model.InputSync: " + name + " not refuted")
    tpool.shutdown()
    kinds = {}
    rejected = {ti: l for ti, l, _ in sres.rejects}
    for ti, t in enumerate(straces):
        mw = "none" if t["maxwait"] < 0 else "poll" if t["maxwait"] == 0 else "short" if t["maxwait"] < t["cw"] else "long"
        carried = 0      # bytes the screen carried when the call started
        tl = 0
        for i, e in enumerate(t["ev"]):
            if ti in rejected and i >= rejected[ti]:
                break
            kinds["sync.call"] = kinds.get("sync.call", 0) + 1
            if not e["reads"] and carried:
                k = "sync.idle_call_while_bytes_carried." + mw + (".before_expiry" if e["t1"] - tl < t["cw"] else ".expired")
                kinds[k] = kinds.get(k, 0) + 1
            if e["reads"]:
                if carried:
                    kinds["sync.remainder_read_while_bytes_carried"] = kinds.get("sync.remainder_read_while_bytes_carried", 0) + 1
                tl = e["reads"][-1]["t"]
            carried = e.get("carried", 0)
            if t["rawkeys"]:
                kinds["sync.raw_keys_call"] = kinds.get("sync.raw_keys_call", 0) + 1
    nontriv = set()
    for t in traces:
        for e in t["ev"]:
            kinds[f"{t['mode']}.{e['t']}"] = kinds.get(f"{t['mode']}.{e['t']}", 0) + 1
            if e["t"] == "frag" and e.get("cuts"):
                nontriv.add((t["mode"], bytes(t["stream"]), tuple(e["cuts"]), tuple(e["timeouts"])))
            for o in e["out"]:
                kinds["out." + o["k"]] = kinds.get("out." + o["k"], 0) + 1
    chk.cov["clause_counts"] = kinds
    # Since repo fix e5e9864 (get_input waits complete_wait for the rest of an unfinished sequence inside the call) a call never returns
    # with bytes carried, so the "idle call while bytes are carried" situations are counted but no longer required; what is required
    # instead is calls that took more than one read (the remainder was read inside the call).
    kinds["sync.call_with_several_reads"] = sum(1 for t in straces for e in t["ev"] if len(e.get("reads", [])) > 1)
    for v in ("sync.call_with_several_reads", "sync.raw_keys_call"):
        if not kinds.get(v):
            chk.vacuity.append("driver." + v)
    chk.cov["distinct_nontrivial"] = len(nontriv)
    chk.cov["rule"] = ("streams: every documented table sequence / mouse report / CPR / character alone with every cut, concatenations of them, "
                       "garbage and truncations, random bytes; three encoding modes; non-trivial = distinct (mode, stream, cuts, timeouts) with at least one cut")
    chk.cov["rule"] += ("; synchronous path: real Screen.get_input on a pipe under a virtual clock, max_wait in {None, 0, shorter, equal, longer than "
                        "complete_wait}, every single cut of every kind of item + random cuts / timings, idle calls between the fragments")
    chk.cov["bounds"] = dict(chk.cov.get("bounds") or {}, sync_traces=len(straces), sync_calls=kinds.get("sync.call", 0))
    chk.cov["exhaustive"] = True
    chk.sample({"mode": traces[5]["mode"], "stream": traces[5]["stream"], "events": traces[5]["ev"][:3]})
    chk.cov["trusted_base"] = ["TLC", "InputTable.tla (frozen documented table)", "InputDecoderOps.tla reference decoder", "vf/props/c05.py Rig (real Screen.parse_input)",
                               "InputSyncOps.tla (per-call contract of the synchronous path)", "vf/props/c05.py sync_run: virtual clock standing in for the selectors module of _raw_display_base"]
    chk.assumptions += ["in wide (double-byte) mode a byte >= 128 pairs with a following possible second half (128..255, or 64..126 after a lead >= 129): the pairing rule of urwid's documented double-byte handling, not of one particular encoding",
                        "malformed mouse / cursor reports: result unspecified, only robustness and fragmentation invariance are checked",
                        "synchronous path: no time passes inside Screen code except in select(); bytes that arrive before (or exactly at) the completion timeout of what is "
                        "carried but are read at or after it are not judged (either order is defensible)"]


def replay(chk, path):
    import random

    with open(path) as f:
        rp = json.load(f)["replay"]
    if rp.get("path") == "sync":
        tr = sync_run(rp["mode"], None if rp["maxwait"] < 0 else rp["maxwait"], rp["cw"], bool(rp["rawkeys"]), rp["think"],
                      [(t, b) for t, b in rp["arrivals"]], rp["last_call_by"])
        res = tlc.validate("InputSyncTrace", [tr], jobs=1)
        chk.add_tv("replay", res)
        _handle_sync(chk, [tr], res)
        chk.sample({k: tr[k] for k in ("mode", "cw", "maxwait", "arrivals")})
        return chk.finish()
    rng = random.Random(1)
    ev = [dict(deliver(rp["mode"], rp["stream"], [], []), t="whole")]
    if rp.get("cuts") is not None:
        ev.append(dict(deliver(rp["mode"], rp["stream"], rp["cuts"], rp.get("timeouts") or [], rp.get("empties") or []), t="frag", cuts=rp["cuts"],
                       timeouts=rp.get("timeouts") or [], empties=rp.get("empties") or []))
    tr = {"mode": rp["mode"], "stream": rp["stream"], "refcheck": True, "ev": ev}
    res = tlc.validate("InputTrace", [tr])
    chk.add_tv("replay", res)
    _handle(chk, [tr], res)
    chk.sample(tr)
    return chk.finish()
