"""C13 — every event loop honours the alarm / watch / idle / exception contract.
Spec: spec/EventLoop.tla (scenario generator + abstract loop) over spec/EventLoopOps.tla (contract
monitor); trace spec: spec/EventLoopTrace.tla; environment doubles: vf/loops.py."""
from __future__ import annotations

import contextlib
import io
import json

from .. import loops, tlc

EXIT_DELAY_MS = 100
MAXA = 8


def run_scenario(loop_name, scn, max_waits=400):
    """Run one scenario on one real event loop under the virtual clock; return the trace."""
    import urwid

    na, nf, ni = len(scn["alarms"]), len(scn["watches"]), len(scn["idles"])
    env = loops.Env({f + 1: w["at"] for f, w in enumerate(scn["watches"]) if w["at"] < 9000}, max_waits=max_waits)
    env.fd0 = bool(scn.get("fd0"))      # present watched descriptor 1 as file descriptor 0 (where the loop's double allows it)
    ad = loops.ADAPTERS[loop_name](env)
    state = {"nextid": na + 2, "nextidle": ni + 1, "alarm_h": {}, "watch_h": {}, "idle_h": {}}
    outcome = {"t": "run_end", "outcome": "return", "exc": ""}
    try:
        loop = ad.make()

        def sync():
            if hasattr(ad, "sync"):
                ad.sync()

        def do(beh, kind, me):
            if beh == "addAlarm":
                if state["nextid"] <= MAXA:
                    i = state["nextid"]
                    state["nextid"] += 1
                    reg_alarm(i, 10, "noop")
            elif beh == "addIdle":      # enter_idle() from within a callback
                if state["nextidle"] <= 3:
                    i = state["nextidle"]
                    state["nextidle"] += 1
                    reg_idle(i, "noop")
            elif beh.startswith("removeAlarm:"):      # remove one particular alarm (directed scenarios)
                tgt = int(beh.split(":")[1])
                ret = loop.remove_alarm(state["alarm_h"][tgt])
                env.log(t="remove_alarm", id=tgt, ret=bool(ret))
            elif beh in ("removeAlarm", "removeAlarmTwice"):
                tgt = (me % na) + 1 if kind == "alarm" else 1
                for _ in range(2 if beh == "removeAlarmTwice" else 1):
                    ret = loop.remove_alarm(state["alarm_h"][tgt])
                    env.log(t="remove_alarm", id=tgt, ret=bool(ret))
            elif beh == "removeWatch":
                tgt = (me % nf) + 1 if kind == "watch" else 1
                if tgt in state["watch_h"]:
                    ret = loop.remove_watch_file(state["watch_h"][tgt])
                    env.log(t="remove_watch", fd=tgt, ret=bool(ret))
            elif beh == "removeSelfWatch" and kind == "watch":
                ret = loop.remove_watch_file(state["watch_h"][me])
                env.log(t="remove_watch", fd=me, ret=bool(ret))
            elif beh == "removeIdle":
                tgt = (me % ni) + 1 if kind == "idle" else 1
                if tgt in state["idle_h"]:
                    ret = loop.remove_enter_idle(state["idle_h"][tgt])
                    env.log(t="remove_idle", id=tgt, ret=bool(ret))
            elif beh == "slow":
                ad.slow(15)
            elif beh == "exit":
                env.log(t="raise", kind="exit")
                raise urwid.ExitMainLoop()
            elif beh == "error":
                env.log(t="raise", kind="error")
                raise loops.VfError("scripted")

        def reg_alarm(i, delay_ms, beh):
            def cb():
                sync()
                env.log(t="alarm_cb", id=i, now=env.us())
                do(beh, "alarm", i)

            env.log(t="reg_alarm", id=i, delay=delay_ms * 1000)
            state["alarm_h"][i] = loop.alarm(delay_ms / 1000.0, cb)

        def reg_watch(f, beh):
            def cb():
                sync()
                env.log(t="watch_cb", fd=f, now=env.us())
                env.readable.discard(f)
                env.log(t="drain", fd=f)
                do(beh, "watch", f)

            env.log(t="reg_watch", fd=f)
            state["watch_h"][f] = loop.watch_file(ad.fd(f), cb)

        def reg_idle(i, beh):
            def cb():
                sync()
                env.log(t="idle_cb", id=i, now=env.us())
                do(beh, "idle", i)

            env.log(t="reg_idle", id=i)
            state["idle_h"][i] = loop.enter_idle(cb)

        for i, a in enumerate(scn["alarms"], 1):
            reg_alarm(i, a["delay"], a["beh"])
        reg_alarm(na + 1, scn.get("exit_ms", EXIT_DELAY_MS), "exit")
        for f, w in enumerate(scn["watches"], 1):
            reg_watch(f, w["beh"])
        for i, b in enumerate(scn["idles"], 1):
            reg_idle(i, b)
        try:
            with contextlib.redirect_stdout(io.StringIO()):  # TwistedEventLoop prints sys.exc_info() on errors
                loop.run()
            if getattr(ad, "stuck", False):
                outcome["outcome"] = "stuck"
        except loops.Stuck:
            outcome["outcome"] = "stuck"
        except BaseException as ex:  # noqa: BLE001
            outcome["outcome"] = "raise"
            outcome["exc"] = type(ex).__name__
            if scn.get("rerun") and isinstance(ex, loops.VfError) and loop_name in ("select", "asyncio", "zmq", "tornado"):
                # the same loop object is run again: the error of the first run must not come back
                env.log(t="run_end", outcome="raise", exc="VfError")
                env.log(t="rerun")
                reg_alarm(state["nextid"] if state["nextid"] <= MAXA else MAXA, 10, "exit")
                outcome = {"t": "run_end", "outcome": "return", "exc": ""}
                try:
                    with contextlib.redirect_stdout(io.StringIO()):
                        loop.run()
                except loops.Stuck:
                    outcome["outcome"] = "stuck"
                except BaseException as ex2:  # noqa: BLE001
                    outcome["outcome"] = "raise"
                    outcome["exc"] = type(ex2).__name__
                ex = None
            if isinstance(ex, BaseExceptionGroup):
                leaves = []

                def flat(g):
                    for x in g.exceptions:
                        flat(x) if isinstance(x, BaseExceptionGroup) else leaves.append(x)

                flat(ex)
                if leaves and all(isinstance(x, loops.VfError) for x in leaves):
                    outcome["exc"] = "VfError"  # several callbacks raised in one tick
            outcome["msg"] = str(ex)[:120]
    finally:
        ad.close()
    env.log(**outcome)
    return {"loop": loop_name, "scn": scn, "ev": env.ev}


def scn_from_state(st):
    sc = st["scn"]
    return {"alarms": [{"delay": a["delay"], "beh": a["beh"]} for a in sc["alarms"]],
            "watches": [{"at": w["at"], "beh": w["beh"]} for w in sc["watches"]],
            "idles": list(sc["idles"]), "fd0": (len(sc["alarms"]) + len(sc["watches"])) % 2 == 0}


ABEH = ["noop", "addAlarm", "addIdle", "removeAlarm", "removeAlarmTwice", "removeWatch", "removeIdle", "slow", "exit", "error"]
WBEH = ["noop", "addIdle", "removeWatch", "removeSelfWatch", "removeAlarm", "slow", "error"]
IBEH = ["noop", "removeIdle", "error"]


def random_scn(rng):
    na, nf, ni = rng.randint(1, 5), rng.randint(0, 3), rng.choice([0, 0, 1, 2, 3])
    return {"alarms": [{"delay": rng.choice([0, 0, 10, 10, 20, 30, 50]), "beh": rng.choice(ABEH + ["noop", "slow"])} for _ in range(na)],
            "watches": [{"at": rng.choice([9999, 0, 0, 10, 15, 25]), "beh": rng.choice(WBEH + ["noop", "exit"])} for _ in range(nf)],
            "idles": [rng.choice(IBEH + ["noop", "noop", "exit", "slow"]) for _ in range(ni)], "fd0": rng.random() < 0.5,
            "rerun": rng.random() < 0.4}


def heap_scns(rng, n):
    """Alarm heaps: six alarms with distinct due times in a random registration order plus the run-ending alarm due in the MIDDLE
    of them (seven entries), and a descriptor readable at once whose callback removes one particular alarm while all are pending:
    a loop that keeps its own alarm heap has to keep it a heap, one that delegates has to cancel the right timer."""
    out = []
    for _ in range(n):
        delays = rng.sample(range(10, 100, 10), 6)
        tgt = rng.randint(1, 6)
        out.append({"alarms": [{"delay": d, "beh": "noop"} for d in delays], "watches": [{"at": 0, "beh": f"removeAlarm:{tgt}"}], "idles": [],
                    "fd0": False, "rerun": False, "exit_ms": rng.choice([35, 35, 55])})
    return out


def _q(xs):
    return "{" + ", ".join(f'"{x}"' if isinstance(x, str) else str(x) for x in xs) + "}"


MC_CFG = """CONSTANTS NA = {na} NF = {nf} NI = {ni} Bad = "{bad}"
Delays = {delays}
Ats = {ats}
ABeh = {abeh}
WBeh = {wbeh}
IBeh = {ibeh}
SPECIFICATION Spec
INVARIANT ContractHolds
INVARIANT Terminates
CHECK_DEADLOCK FALSE
"""

LOOPS = ["select", "asyncio", "tornado", "twisted", "zmq", "trio"]


def sig_of(tr, l):
    e = tr["ev"][l - 1]
    behs = sorted({a["beh"] for a in tr["scn"]["alarms"]} | {w["beh"] for w in tr["scn"]["watches"]} | set(tr["scn"]["idles"]))
    in_cb = None
    for x in reversed(tr["ev"][:l - 1]):
        if x["t"] in ("alarm_cb", "watch_cb", "idle_cb"):
            in_cb = x["t"]
            break
    return {"loop": tr["loop"], "event": e["t"], "outcome": e.get("outcome", ""), "exc": e.get("exc", ""), "last_callback": in_cb,
            "idle_raises": any(b in ("error", "exit") for b in tr["scn"]["idles"]), "idle_removes_idle": "removeIdle" in tr["scn"]["idles"],
            "behaviours": behs}


def _handle(chk, traces, res, label):
    for ti, l, why in res.rejects:
        tr = traces[ti]
        chk.reject(f"C13.{why}", sig_of(tr, l), {"driver": label, "loop": tr["loop"], "scn": tr["scn"], "events_up_to_rejection": tr["ev"][:l]})


def run(chk, loops_to_run=None):
    quick = chk.tier == "quick"
    rng = chk.rng
    names = loops_to_run or LOOPS
    # ---- MC: the contract is satisfiable by a correct loop for every scenario; bad loops are refuted ----
    if quick:
        cfg = MC_CFG.format(na=2, nf=1, ni=2, bad="", delays=_q([0, 10]), ats=_q([9999, 0, 15]),
                            abeh=_q(["noop", "addAlarm", "addIdle", "removeAlarmTwice", "removeWatch", "removeIdle", "slow", "error"]),
                            wbeh=_q(["noop", "removeSelfWatch", "removeAlarm", "slow", "error"]), ibeh=_q(IBEH))
    else:
        cfg = MC_CFG.format(na=2, nf=2, ni=2, bad="", delays=_q([0, 10, 20]), ats=_q([9999, 0, 15]), abeh=_q(ABEH), wbeh=_q(WBEH), ibeh=_q(IBEH))
    r = tlc.mc("EventLoop", cfg, timeout=3000, heap="12g")
    chk.add_mc("MC_EventLoop_contract_satisfiable", r)
    if not r.ok:
        chk.reject("C13.model." + str(r.violated), {"model": "EventLoop"}, {"tlc_trace": r.trace[-5:]})
    refuted = {}
    for bad in ("blockDirty", "alarmOrder", "removedWatch"):
        cfgb = MC_CFG.format(na=2, nf=2, ni=1, bad=bad, delays=_q([0, 10]), ats=_q([9999, 0]), abeh=_q(["noop", "slow", "removeWatch"]),
                             wbeh=_q(["noop", "removeWatch", "slow"]), ibeh=_q(["noop"]))
        rb = tlc.mc("EventLoop", cfgb, timeout=900)
        refuted[bad] = rb.violated == "ContractHolds"
        chk.cov["tlc_runs"].append({"run": f"MC_EventLoop_bad_{bad}_must_fail", "violated": rb.violated, "generated": rb.generated})
    chk.cov["contract_refutes_bad_loops"] = refuted
    if not all(refuted.values()):
        raise tlc.MachineryError(f"the C13 contract no longer refutes a deliberately wrong loop: {refuted}")

    # ---- spec -> code: TLC scenarios on every loop -----------------------------------------------------
    simcfg = MC_CFG.format(na=3, nf=2, ni=2, bad="", delays=_q([0, 10, 20]), ats=_q([9999, 0, 15]), abeh=_q(ABEH), wbeh=_q(WBEH), ibeh=_q(IBEH))
    simcfg = simcfg.replace("SPECIFICATION Spec", "SPECIFICATION SimSpec")
    behs = tlc.simulate("EventLoop", simcfg, num=60 if quick else 1500, depth=3, seed=chk.seed, jobs=2 if quick else 8, timeout=1500)
    scns = [scn_from_state(b[1]) for b in behs if len(b) > 1]
    n_rand = 60 if quick else 1500
    scns += [random_scn(rng) for _ in range(n_rand)]
    traces = []
    for sc in scns:
        for name in names:
            traces.append(run_scenario(name, sc))
    hs = heap_scns(rng, 100 if quick else 1500)
    for k, sc in enumerate(hs):
        for name in names:
            if name in ("select", "zmq") or k % 10 == 0:      # these two keep their own heap; the others delegate to their library's timers
                traces.append(run_scenario(name, sc))
    chk.cov["heap_scenarios"] = len(hs)
    res = tlc.validate("EventLoopTrace", traces, batch_events=20000, timeout=1500)
    chk.add_tv("TV_EventLoopTrace", res)
    _handle(chk, traces, res, "c13")
    kinds = {}
    nontriv = set()
    for t in traces:
        inside = False
        for e in t["ev"]:
            k = f"{t['loop']}.{e['t']}"
            kinds[k] = kinds.get(k, 0) + 1
        nontriv.add(json.dumps(t["scn"], sort_keys=True))
    chk.cov["clause_counts"] = kinds
    chk.cov["distinct_nontrivial"] = len(nontriv)
    chk.cov["rule"] = ("scenario = alarms (delay, behaviour) + watched descriptors (time readable, behaviour) + idle callbacks (behaviour) + final exit "
                       "alarm; scenarios from TLC -simulate of EventLoop.tla and seeded random; each run on the six real loops under virtual time; "
                       "distinct = distinct scenarios")
    chk.cov["bounds"] = {"tlc_scenarios": len(behs), "random_scenarios": n_rand, "loops": names}
    for name in names:
        for v in ("alarm_cb", "watch_cb", "idle_cb", "wait", "remove_alarm"):
            if not kinds.get(f"{name}.{v}"):
                chk.vacuity.append(f"driver.{name}.{v}")
    chk.sample({"loop": traces[0]["loop"], "scn": traces[0]["scn"], "events": traces[0]["ev"][:40]})
    chk.cov["trusted_base"] = ["TLC", "vf/loops.py virtual clock + selector/poller doubles", "scenario runner in vf/props/c13.py"]
    chk.assumptions += ["glib loop cannot be imported here", "real-time starvation is not modelled", "descriptor callbacks drain their descriptor"]


def replay(chk, path):
    with open(path) as f:
        rp = json.load(f)["replay"]
    tr = run_scenario(rp["loop"], rp["scn"])
    res = tlc.validate("EventLoopTrace", [tr])
    chk.add_tv("replay", res)
    _handle(chk, [tr], res, "replay")
    chk.sample(tr)
    return chk.finish()
